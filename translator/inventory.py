"""kojen/*.py  ->  Gen/Inventory.v

A fail-closed AST scan of every function reachable (by name) from the public generator entry points
Generate.{Protocol, StateMachine, StateMachine_CSHARP, StateMachine_PYTHON, StateMachineFromModel, UML, UML_CSHARP, FileSync}:

  scanned_fs_mutations : every call that can create / modify / delete a file-system object
  scanned_env_reads    : every read of process environment that can differ between two runs on the same inputs
                         (clock, platform, cwd, directory listing order, hash-order dependent iteration of sets, ...)

each as (module, function, what).  The models list what they know (Model/Inventory.v); the closure obligations
`fs_mutations_closed` / `env_reads_closed` are proved by vm_compute on every run, so a new write or a new environment
read anywhere in the generator breaks a proof obligation even if no sampled input notices.
"""
import ast
import os
import warnings

from .common import REPO, Refuse, coq_bs, write_gen

warnings.simplefilter("ignore")

MODULES = ["Generate.py", "cgen.py", "smgen.py", "umlgen.py", "preservative.py", "protogen.py", "Language.py", "LanguageCPP.py",
           "LanguageCsharp.py", "LanguagePython.py", "kojentypes.py", "vppfs.py", "vppclassdiagram.py", "plant.py", "smvppxml.py", "Install.py"]
ENTRY = ["Generate.Protocol", "Generate.StateMachine", "Generate.StateMachine_CSHARP", "Generate.StateMachine_PYTHON",
         "Generate.StateMachineFromModel", "Generate.UML", "Generate.UML_CSHARP", "Generate.FileSync"]

FS_CALLS = {
    ("os", "remove"), ("os", "unlink"), ("os", "replace"), ("os", "rename"), ("os", "renames"), ("os", "makedirs"), ("os", "mkdir"),
    ("os", "rmdir"), ("os", "removedirs"), ("os", "chmod"), ("os", "truncate"), ("os", "symlink"), ("os", "link"), ("os", "utime"),
}
FS_MODULES = {"shutil", "distutils", "dir_util", "file_util", "tempfile"}
ENV_CALLS = {
    ("time", "time"), ("time", "localtime"), ("time", "gmtime"), ("time", "strftime"), ("time", "ctime"), ("time", "monotonic"),
    ("os", "getcwd"), ("os", "listdir"), ("os", "walk"), ("os", "scandir"), ("os", "getpid"), ("os", "getenv"), ("os", "getlogin"),
    ("os", "urandom"), ("sys", "platform"), ("sys", "version"), ("sys", "version_info"), ("sys", "argv"), ("sys", "executable"),
    ("os", "environ"), ("os", "name"), ("os", "sep"), ("os", "linesep"),
}
ENV_PATH = {"abspath", "realpath", "expanduser", "getmtime", "getctime", "getatime", "relpath"}
ENV_MODULES = {"datetime", "random", "uuid", "getpass", "socket", "platform", "locale", "glob", "secrets"}
ENV_BUILTINS = {"id", "hash", "set", "frozenset", "vars", "globals", "locals", "dir", "input"}


def dotted(node):
    parts = []
    while isinstance(node, ast.Attribute):
        parts.append(node.attr)
        node = node.value
    if isinstance(node, ast.Name):
        parts.append(node.id)
        return list(reversed(parts))
    return None


class FnInfo:
    def __init__(self, module, qual, node):
        self.module, self.qual, self.node = module, qual, node
        self.names = set()      # bare names referenced
        self.attrs = set()      # (receiver name or None, attribute) referenced
        self.fs, self.env = [], []


def collect_functions():
    fns = {}
    for m in MODULES:
        path = os.path.join(REPO, "kojen", m)
        if not os.path.exists(path):
            raise Refuse("module kojen/%s is missing" % m)
        tree = ast.parse(open(path, "rb").read().decode("utf-8"))
        mod = m[:-3]

        def visit(body, prefix):
            for n in body:
                if isinstance(n, (ast.FunctionDef, ast.AsyncFunctionDef)):
                    q = prefix + n.name
                    fns[(mod, q)] = FnInfo(mod, q, n)
                    visit(n.body, q + ".")
                elif isinstance(n, ast.ClassDef):
                    visit(n.body, prefix + n.name + ".")
        visit(tree.body, "")
        # module level code counts as a pseudo function executed on import
        def is_main_guard(n):
            return (isinstance(n, ast.If) and isinstance(n.test, ast.Compare) and isinstance(n.test.left, ast.Name)
                    and n.test.left.id == "__name__")
        top = ast.Module(body=[n for n in tree.body if not isinstance(n, (ast.FunctionDef, ast.ClassDef, ast.AsyncFunctionDef))
                               and not is_main_guard(n)], type_ignores=[])
        fns[(mod, "<module>")] = FnInfo(mod, "<module>", top)
    return fns


def own_nodes(fn_node):
    """Nodes of a function body excluding nested function/class definitions (those are functions of their own)."""
    stack = list(ast.iter_child_nodes(fn_node))
    while stack:
        n = stack.pop()
        if isinstance(n, (ast.FunctionDef, ast.AsyncFunctionDef, ast.ClassDef, ast.Lambda)) and n is not fn_node:
            if isinstance(n, ast.Lambda):
                stack.extend(ast.iter_child_nodes(n))
            continue
        yield n
        stack.extend(ast.iter_child_nodes(n))


def open_mode(call):
    mode = None
    if len(call.args) >= 2:
        mode = call.args[1]
    for kw in call.keywords:
        if kw.arg == "mode":
            mode = kw.value
    if mode is None:
        return "r"
    if isinstance(mode, ast.Constant) and isinstance(mode.value, str):
        return mode.value
    return "?"  # not a literal: must be treated as a possible write


def scan(info):
    for n in own_nodes(info.node):
        if isinstance(n, ast.Name):
            info.names.add(n.id)
        elif isinstance(n, ast.Attribute):
            info.attrs.add((n.value.id if isinstance(n.value, ast.Name) else None, n.attr))
        d = None
        if isinstance(n, ast.Call):
            d = dotted(n.func)
            if d == ["open"] or (d and d[-1] == "open" and d[0] in ("io", "codecs", "builtins")):
                md = open_mode(n)
                if any(c in md for c in "wax+?"):
                    info.fs.append("open:" + md)
            elif d and len(d) >= 2 and (d[0], d[-1]) in FS_CALLS:
                info.fs.append(".".join(d))
            elif d and (d[0] in FS_MODULES or (len(d) >= 2 and d[-2] in FS_MODULES)):
                info.fs.append(".".join(d))
            elif d and d[-1] in ("copy_tree", "remove_tree", "rmtree", "copyfile", "copy2", "move", "write_text", "write_bytes",
                                 "touch", "unlink", "mkdir", "rmdir") and d[0] not in ("self", "os", "copy"):
                info.fs.append(".".join(d))
            if d == ["set"] or d == ["frozenset"]:
                info.env.append("set()")
            elif d and len(d) == 1 and d[0] in ENV_BUILTINS and d[0] not in ("set", "frozenset"):
                info.env.append(d[0] + "()")
        if isinstance(n, (ast.Set, ast.SetComp)):
            info.env.append("set-literal")
        if isinstance(n, ast.Attribute):
            d = dotted(n)
            if d and len(d) >= 2:
                if (d[0], d[-1]) in ENV_CALLS:
                    info.env.append(".".join(d))
                elif d[0] == "os" and len(d) == 3 and d[1] == "path" and d[2] in ENV_PATH:
                    info.env.append(".".join(d))
                elif d[0] in ENV_MODULES:
                    info.env.append(".".join(d))
        if isinstance(n, ast.Name) and n.id == "__file__":
            info.env.append("__file__")
    info.fs = sorted(set(info.fs))
    info.env = sorted(set(info.env))


def reachable(fns):
    """Name-based call graph, over-approximating:
       bare name f inside module m      -> module-level function (m, f), class (m, f) [its __init__], or (from-import) any module's f
       m2.f with m2 a scanned module    -> module-level function / class of m2
       <anything>.f                     -> every METHOD named f of every class (receiver type unknown)"""
    mods = {m for (m, _q) in fns}
    toplevel = {}   # (mod, name) -> key for module-level functions
    methods = {}    # name -> [keys] for methods
    inits = {}      # (mod, class) -> key of __init__
    for (mod, q) in fns:
        parts = q.split(".")
        if len(parts) == 1 and q != "<module>":
            toplevel[(mod, q)] = (mod, q)
        elif len(parts) >= 2:
            methods.setdefault(parts[-1], []).append((mod, q))
            if parts[-1] == "__init__" and len(parts) == 2:
                inits[(mod, parts[0])] = (mod, q)
    seen = set()
    todo = []
    for e in ENTRY:
        mod, q = e.split(".", 1)
        if (mod, q) not in fns:
            raise Refuse("entry point %s not found" % e)
        todo.append((mod, q))
    for (mod, q) in fns:
        if q == "<module>" and mod not in ("Install",):
            todo.append((mod, q))
    while todo:
        k = todo.pop()
        if k in seen:
            continue
        seen.add(k)
        info = fns[k]
        tg = []
        for nm in info.names:
            own = info.module
            if (own, nm) in toplevel or (own, nm) in inits:
                cands = [own]
            else:            # imported with `from x import name` / `from x import *`
                cands = mods
            for m in cands:
                if (m, nm) in toplevel:
                    tg.append(toplevel[(m, nm)])
                if (m, nm) in inits:
                    tg.append(inits[(m, nm)])
        for (recv, attr) in info.attrs:
            if recv in mods:
                if (recv, attr) in toplevel:
                    tg.append(toplevel[(recv, attr)])
                if (recv, attr) in inits:
                    tg.append(inits[(recv, attr)])
            else:
                tg.extend(methods.get(attr, []))
                for m in mods:
                    if (m, attr) in inits:
                        tg.append(inits[(m, attr)])
        for t in tg:
            if t not in seen:
                todo.append(t)
    return seen


MUTABLE_CALLS = {"dict", "list", "set", "defaultdict", "OrderedDict", "deque", "Counter", "bytearray"}


def _mutable_value(v):
    if isinstance(v, (ast.Dict, ast.List, ast.Set, ast.ListComp, ast.DictComp, ast.SetComp)):
        return True
    if isinstance(v, ast.Call):
        f = v.func
        name = f.id if isinstance(f, ast.Name) else f.attr if isinstance(f, ast.Attribute) else ""
        return name in MUTABLE_CALLS
    return False


def process_state():
    """Everything in the generator's modules that can carry information from one call of an entry point to the next inside one
    interpreter: module-level and class-level bindings to mutable containers, `global` declarations, memoising decorators,
    mutable default arguments, attributes stored on classes/functions.  (module, where, what) triples; whole modules are scanned,
    reachable or not."""
    out = []
    for m in MODULES:
        path = os.path.join(REPO, "kojen", m)
        if not os.path.exists(path):
            continue
        tree = ast.parse(open(path, encoding="utf-8").read())
        mod = m[:-3]
        classes = {n.name for n in tree.body if isinstance(n, ast.ClassDef)}
        for n in tree.body:
            if isinstance(n, (ast.Assign, ast.AnnAssign)) and n.value is not None and _mutable_value(n.value):
                tg = n.targets if isinstance(n, ast.Assign) else [n.target]
                for t in tg:
                    out.append((mod, "<module>", "mutable:" + ast.unparse(t)))
            if isinstance(n, ast.ClassDef):
                for b in n.body:
                    if isinstance(b, (ast.Assign, ast.AnnAssign)) and b.value is not None and _mutable_value(b.value):
                        tg = b.targets if isinstance(b, ast.Assign) else [b.target]
                        for t in tg:
                            out.append((mod, n.name, "mutable:" + ast.unparse(t)))
        for n in ast.walk(tree):
            if isinstance(n, ast.Global):
                for g in n.names:
                    out.append((mod, "<function>", "global:" + g))
            if isinstance(n, ast.Nonlocal):
                continue
            if isinstance(n, (ast.FunctionDef, ast.AsyncFunctionDef, ast.ClassDef)):
                for d in n.decorator_list:
                    txt = ast.unparse(d)
                    if txt not in ("staticmethod", "classmethod", "property", "abstractmethod", "abc.abstractmethod"):
                        out.append((mod, n.name, "decorator:" + txt))
            if isinstance(n, (ast.FunctionDef, ast.AsyncFunctionDef)):
                for d in list(n.args.defaults) + [x for x in n.args.kw_defaults if x is not None]:
                    if _mutable_value(d):
                        out.append((mod, n.name, "mutable-default:" + ast.unparse(d)))
            # ClassName.attr = ... / ClassName.attr[...] = ... / type(self).attr / self.__class__.attr: state stored on the class object
            if isinstance(n, (ast.Assign, ast.AugAssign)):
                tg = n.targets if isinstance(n, ast.Assign) else [n.target]
                for t in tg:
                    base = t
                    while isinstance(base, ast.Subscript):
                        base = base.value
                    if isinstance(base, ast.Attribute):
                        owner = ast.unparse(base.value)
                        if owner in classes or owner.startswith("type(") or owner.endswith(".__class__"):
                            out.append((mod, "<function>", "class-attribute:" + ast.unparse(base)))
    return sorted(set(out))


def run():
    fns = collect_functions()
    for info in fns.values():
        scan(info)
    reach = reachable(fns)
    fs, env = [], []
    for k in sorted(reach):
        info = fns[k]
        for w in info.fs:
            fs.append((info.module, info.qual, w))
        for w in info.env:
            env.append((info.module, info.qual, w))
    unreach_fs = [(fns[k].module, fns[k].qual, w) for k in sorted(fns) if k not in reach for w in fns[k].fs]

    def triples(name, items):
        body = ";\n    ".join("(%s, (%s, %s))  (* %s %s %s *)" % (coq_bs(a), coq_bs(b), coq_bs(c), a, b, c) for a, b, c in items)
        return "Definition %s : list (string * (string * string)) := [\n    %s\n  ]." % (name, body)

    text = "\n".join([
        triples("scanned_fs_mutations", fs),
        triples("scanned_env_reads", env),
        triples("unreachable_fs_mutations", unreach_fs),
        triples("scanned_process_state", process_state()),
        "Definition scanned_reachable_functions : nat := %d." % len(reach),
    ]) + "\n"
    return write_gen("Inventory.v", text, ["kojen/" + m for m in MODULES])


if __name__ == "__main__":
    print(run())
