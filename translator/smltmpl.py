"""smgen.innerexpand_sml + statemachine_templates_embedded_arm/TEMPLATEStateMachineImpl_SML.cpp  ->  Gen/SmlTmpl.v

Extracted (fail closed):
  from smgen.py (ast): the names substituted for an absent guard / action (transitiontableLITE_guard_replace_NONE /
    transitiontableLITE_action_replace_NONE: the single string assigned to `val`), the hook suffixes and the
    boost::sml hook event names used by innerexpand_sml, the initial-state marker, and that innerexpand_sml has the
    recognised loop structure (one for over transition_table with an `i == 0` test, an entry/exit `if` guarded by the
    start state not being in the once-only dictionary, and a trailing loop over smmodel.states);
  from the template: that `gnone` is a lambda returning true and `none` a lambda with an empty body, that the table tag
    <<<TTT_BOOST_SML_ENTRY_EXIT>>> occurs exactly once and directly inside `return make_transition_table(` ... `);`.
"""
import ast
import re

from .common import Refuse, coq_bs, find_def, parse, src, write_gen

SMGEN = "kojen/smgen.py"
TMPL = "kojen/statemachine_templates_embedded_arm/TEMPLATEStateMachineImpl_SML.cpp"


def assigned_val(fn, what):
    vals = [n.value.value for n in ast.walk(fn) if isinstance(n, ast.Assign) and isinstance(n.targets[0], ast.Name)
            and n.targets[0].id == "val" and isinstance(n.value, ast.Constant) and isinstance(n.value.value, str)]
    if len(vals) != 1:
        raise Refuse("%s: expected exactly one string assigned to val" % what)
    return vals[0]


def run():
    tree = parse(SMGEN)
    gnone = assigned_val(find_def(tree, "transitiontableLITE_guard_replace_NONE", "CStateMachineGenerator"), "guard_replace_NONE")
    anone = assigned_val(find_def(tree, "transitiontableLITE_action_replace_NONE", "CStateMachineGenerator"), "action_replace_NONE")
    fn = find_def(tree, "innerexpand_sml", "CStateMachineGenerator")
    consts = [n.value for n in ast.walk(fn) if isinstance(n, ast.Constant) and isinstance(n.value, str)]
    need = [" *", ", ", "state<", "event<", " = ", "OnEntry\n", "OnExit", "OnExit\n", "> + boost::sml::on_entry<_> / ", "> + boost::sml::on_exit<_> / "]
    for c in need:
        if c not in consts:
            raise Refuse("innerexpand_sml: literal %r not found" % c)
    loops = [n for n in fn.body if isinstance(n, ast.For)]
    if len(loops) != 1:
        raise Refuse("innerexpand_sml: expected exactly one top-level for loop over the table")
    srcl = ast.unparse(loops[0])
    if "enumerate(smmodel.transition_table)" not in srcl or "i == 0" not in srcl:
        raise Refuse("innerexpand_sml: row loop / initial marker not recognised")
    if "not ttline[smmodel.START_STATE] in startStateHasEntryExit and sml_entry_exit" not in srcl:
        raise Refuse("innerexpand_sml: once-only entry/exit test not recognised")
    tails = [n for n in fn.body if isinstance(n, ast.If) and "for state in smmodel.states" in ast.unparse(n)]
    tail_loop = 1 if tails else 0
    if tails and "not state in startStateHasEntryExit" not in ast.unparse(tails[0]):
        raise Refuse("innerexpand_sml: trailing loop over states not recognised")
    nxt = "ttline[smmodel.NEXT_STATE] != '' and ttline[smmodel.NEXT_STATE].lower() != 'none'" in srcl
    nxt_old = "if ttline[smmodel.NEXT_STATE].lower() != 'none'" in srcl
    if not (nxt or nxt_old):
        raise Refuse("innerexpand_sml: test for an absent next state not recognised")

    t = src(TMPL).decode("utf-8")
    if not re.search(r"auto\s+none\s*=\s*\[\]\s*\{\s*\}\s*;", t):
        raise Refuse("template: `auto none = [] {};` not found")
    if not re.search(r"auto\s+gnone\s*=\s*\[\]\s*\{\s*return\s+true\s*;\s*\}\s*;", t):
        raise Refuse("template: `auto gnone = []{return true;};` not found")
    if t.count("<<<TTT_BOOST_SML_ENTRY_EXIT>>>") != 1 or not re.search(
            r"return\s+make_transition_table\(\s*<<<TTT_BOOST_SML_ENTRY_EXIT>>>\s*\);", t):
        raise Refuse("template: the table tag is not exactly once inside make_transition_table( ... );")
    out = []
    out.append("Definition sml_gnone : string := %s.  (* %r : declared in the template as a lambda returning true *)" % (coq_bs(gnone), gnone))
    out.append("Definition sml_none : string := %s.  (* %r : declared in the template as a lambda with an empty body *)" % (coq_bs(anone), anone))
    out.append("Definition sml_entry_suffix : string := %s." % coq_bs("OnEntry"))
    out.append("Definition sml_exit_suffix : string := %s." % coq_bs("OnExit"))
    out.append("Definition sml_hooks_for_all_states : bool := %s.  (* trailing loop over smmodel.states present *)" % ("true" if tail_loop else "false"))
    out.append("Definition sml_empty_next_is_absent : bool := %s.  (* '' tested like 'none' for the next state *)" % ("true" if nxt else "false"))
    return write_gen("SmlTmpl.v", "\n".join(out) + "\n", [SMGEN, TMPL])


if __name__ == "__main__":
    print(run())
