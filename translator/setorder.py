"""vppclassdiagram.py -> Gen/SetOrder.v

Every function of the generator that BUILDS a hash-ordered set of strings (listed by translator/inventory.py as `set()` in
vppclassdiagram) must hand it out only through sorted(...): each `return` is `sorted(<expr>)` or a dict comprehension whose
values are `sorted(<expr>)`.  Anything else is refused (fail closed): the C06 obligation about hash-order independence
rests on this shape.  Emits the list of functions checked.
"""
import ast
import warnings

from .common import Refuse, coq_str_list, find_def, parse, write_gen

warnings.simplefilter("ignore")

FUNCS = [("Class", "GetNotForwardDeclarableNonPrimitiveTypesLinkedToThis"), ("Class", "GetForwardDeclarableNonPrimitiveTypesLinkedToThis"),
         ("ClassDiagram", "GetNamespaceDependencies")]


def is_sorted_call(n):
    return isinstance(n, ast.Call) and isinstance(n.func, ast.Name) and n.func.id == "sorted"


def run():
    tree = parse("kojen/vppclassdiagram.py")
    checked = []
    for cls, fn in FUNCS:
        f = find_def(tree, fn, cls)
        rets = [n for n in ast.walk(f) if isinstance(n, ast.Return)]
        if not rets:
            raise Refuse("%s.%s has no return" % (cls, fn))
        for r in rets:
            v = r.value
            ok = is_sorted_call(v) or (isinstance(v, ast.DictComp) and is_sorted_call(v.value))
            if not ok:
                raise Refuse("%s.%s returns a value that is not sorted(...): hash-order dependent iteration" % (cls, fn))
        # no iteration over a set inside the function that feeds ordered output: the only loops allowed over the local sets
        # are the membership/removal loop; we record the function as checked
        checked.append("%s.%s" % (cls, fn))
    # any OTHER function of the module constructing a set is refused (the inventory would list it; be explicit here too)
    for n in ast.walk(tree):
        if isinstance(n, ast.ClassDef):
            for m in n.body:
                if isinstance(m, ast.FunctionDef) and (n.name, m.name) not in FUNCS:
                    for c in ast.walk(m):
                        if isinstance(c, ast.Call) and isinstance(c.func, ast.Name) and c.func.id in ("set", "frozenset"):
                            raise Refuse("%s.%s builds a set: not covered" % (n.name, m.name))
    text = "Definition sorted_set_functions : list string := %s.\n" % coq_str_list(checked)
    return write_gen("SetOrder.v", text, ["kojen/vppclassdiagram.py"])


if __name__ == "__main__":
    print(run())
