"""vppclassdiagram.py -> Gen/SetOrder.v

Every function of the generator that BUILDS a hash-ordered set of strings (listed by translator/inventory.py as `set()` in
vppclassdiagram) must hand it out only through sorted(...): each `return` is `sorted(<expr>)` or a dict comprehension whose
values are `sorted(<expr>)`.  Anything else is refused (fail closed): the C06 obligation about hash-order independence
rests on this shape.  Emits the list of functions checked.
"""
import ast
import warnings

from .common import Refuse, coq_str_list, find_def, parse, write_gen

warnings.simplefilter("ignore")

FUNCS = [("Class", "GetNotForwardDeclarableNonPrimitiveTypesLinkedToThis"), ("Class", "GetForwardDeclarableNonPrimitiveTypesLinkedToThis"),
         ("ClassDiagram", "GetNamespaceDependencies")]


def is_sorted_call(n):
    # plain sorted(<expr>): a key= (or reverse= with a key) can make the order depend on the set's iteration order again
    # (stable sort + non-injective key), so any keyword is refused
    return (isinstance(n, ast.Call) and isinstance(n.func, ast.Name) and n.func.id == "sorted"
            and len(n.args) == 1 and not n.keywords)


def run():
    tree = parse("kojen/vppclassdiagram.py")
    checked = []
    for cls, fn in FUNCS:
        f = find_def(tree, fn, cls)
        rets = [n for n in ast.walk(f) if isinstance(n, ast.Return)]
        if not rets:
            raise Refuse("%s.%s has no return" % (cls, fn))
        for r in rets:
            v = r.value
            ok = is_sorted_call(v) or (isinstance(v, ast.DictComp) and is_sorted_call(v.value))
            if not ok:
                raise Refuse("%s.%s returns a value that is not sorted(...): hash-order dependent iteration" % (cls, fn))
        # no iteration over a set inside the function that feeds ordered output: the only loops allowed over the local sets
        # are the membership/removal loop; we record the function as checked
        checked.append("%s.%s" % (cls, fn))
    # any OTHER function of the module constructing a set is refused (the inventory would list it; be explicit here too)
    for n in ast.walk(tree):
        if isinstance(n, ast.ClassDef):
            for m in n.body:
                if isinstance(m, ast.FunctionDef) and (n.name, m.name) not in FUNCS:
                    for c in ast.walk(m):
                        if isinstance(c, ast.Call) and isinstance(c.func, ast.Name) and c.func.id in ("set", "frozenset"):
                            raise Refuse("%s.%s builds a set: not covered" % (n.name, m.name))
    membership_only = []
    for rel, cls in (("kojen/LanguageCPP.py", "LanguageCPP"), ("kojen/LanguageCsharp.py", "LanguageCsharp")):
        t2 = parse(rel)
        for n in ast.walk(t2):
            if isinstance(n, ast.ClassDef):
                for m in n.body:
                    if not isinstance(m, ast.FunctionDef):
                        continue
                    setnames = set()
                    for c in ast.walk(m):
                        if isinstance(c, ast.Assign) and isinstance(c.value, ast.Call) and isinstance(c.value.func, ast.Name) \
                                and c.value.func.id in ("set", "frozenset") and len(c.targets) == 1 and isinstance(c.targets[0], ast.Name):
                            setnames.add(c.targets[0].id)
                        elif isinstance(c, ast.Call) and isinstance(c.func, ast.Name) and c.func.id in ("set", "frozenset") and not any(
                                isinstance(p, ast.Assign) and p.value is c for p in ast.walk(m)):
                            raise Refuse("%s.%s builds a set that is not bound to a plain name" % (n.name, m.name))
                    if not setnames:
                        continue
                    # every use of such a name must be a membership test, an `is None` test, or passing it on to the same method
                    parents = {}
                    for p in ast.walk(m):
                        for ch in ast.iter_child_nodes(p):
                            parents[ch] = p
                    for c in ast.walk(m):
                        if isinstance(c, ast.Name) and c.id in setnames and isinstance(c.ctx, ast.Load):
                            p = parents.get(c)
                            ok = (isinstance(p, ast.Compare) and c in p.comparators and all(isinstance(o, (ast.In, ast.NotIn)) for o in p.ops)) \
                                or (isinstance(p, ast.Compare) and p.left is c and all(isinstance(o, (ast.Is, ast.IsNot)) for o in p.ops)) \
                                or (isinstance(p, ast.Call) and isinstance(p.func, ast.Attribute) and p.func.attr == m.name and c in p.args)
                            if not ok:
                                raise Refuse("%s.%s uses the set %s other than for membership tests" % (n.name, m.name, c.id))
                    membership_only.append("%s.%s" % (n.name, m.name))
    text = "Definition membership_only_set_functions : list string := %s.\n" % coq_str_list(membership_only)
    text += "Definition sorted_set_functions : list string := %s.\n" % coq_str_list(checked)
    return write_gen("SetOrder.v", text, ["kojen/vppclassdiagram.py", "kojen/LanguageCPP.py", "kojen/LanguageCsharp.py"])


if __name__ == "__main__":
    print(run())
