"""statemachine_templates_cs_winlinmac/TEMPLATEInternals.cs  ->  Gen/CsTmpl.v

The shape of the C# state classes, fail closed:
  cs_pgt   the statement kinds of the lines inside PER_GUARDTRANSITION (the per-row block of a handler)
and the translator checks (refusing otherwise) the nesting around it: one PER_STATETRANSITION block that opens
`internal class <<<STATENAME>>> : <SM>State {`, contains exactly one PER_EVENTTRANSITION block consisting of the handler
signature `internal override void Trigger<<<EVENTNAME>>>(I<SM>Context context, <SM>StateMachine sm, <<<EVENTNAME>>> data)`,
`{`, the PER_GUARDTRANSITION block, `}`, followed by the OnEntry / OnExit overrides calling context.On<<<STATENAME>>>Entry() /
Exit(), and `};`; that Enter<StateT>() creates the state object and calls its OnEntry, and Exit<StateT>() calls OnExit of the
current state object.
"""
import re

from .common import Refuse, src, write_gen

SOURCE = "kojen/statemachine_templates_cs_winlinmac/TEMPLATEInternals.cs"
SM = "<<<STATEMACHINENAME>>>"
PGT = [
    (r"if \(context\.<<<GUARDNAME>>>\(\)\)", "CkIfGuard"), (r"\{", "CkOpen"), (r"\}", "CkClose"),
    (r"sm\.Exit<<<<STATENAMEIFNEXTSTATE>>>>\(\);", "CkExit"), (r"context\.<<<ACTIONNAME>>>\(data\);", "CkAction"),
    (r"sm\.Enter<<<<NEXTSTATENAME>>>>\(\);", "CkEnter"),
    (r"sm\.estate = E" + SM + r"State\.<<<NEXTSTATENAME>>>;", "CkSetState"), (r"return;", "CkReturn"),
]
PST_EXPECT = [
    r"<<<PER_STATETRANSITION_BEGIN>>>", r"internal class <<<STATENAME>>> : " + SM + r"State", r"\{",
    r"<<<PER_EVENTTRANSITION_BEGIN>>>",
    r"internal override void Trigger<<<EVENTNAME>>>\(I" + SM + r"Context context, " + SM + r"StateMachine sm, <<<EVENTNAME>>> data\)",
    r"\{", r"<<<PER_GUARDTRANSITION_BEGIN>>>", "PGT", r"<<<PER_GUARDTRANSITION_END>>>", r"\}", r"<<<PER_EVENTTRANSITION_END>>>",
    r"internal override void OnEntry\(I" + SM + r"Context context\)", r"\{", r"context\.On<<<STATENAME>>>Entry\(\);", r"\}",
    r"internal override void OnExit\(I" + SM + r"Context context\)", r"\{", r"context\.On<<<STATENAME>>>Exit\(\);", r"\}",
    r"\};", r"<<<PER_STATETRANSITION_END>>>",
]


def run():
    text = src(SOURCE).decode("utf-8")
    lines = [l.strip() for l in text.split("\n")]
    lines = [l for l in lines if l and not l.startswith("///")]
    if lines.count("<<<PER_STATETRANSITION_BEGIN>>>") != 1:
        raise Refuse("expected exactly one PER_STATETRANSITION block")
    i = lines.index("<<<PER_STATETRANSITION_BEGIN>>>")
    pgt = []
    for pat in PST_EXPECT:
        if pat == "PGT":
            while i < len(lines) and lines[i] != "<<<PER_GUARDTRANSITION_END>>>":
                for rx, kind in PGT:
                    if re.fullmatch(rx, lines[i]):
                        pgt.append(kind)
                        break
                else:
                    raise Refuse("PER_GUARDTRANSITION: unknown statement shape %r" % lines[i])
                i += 1
            continue
        if i >= len(lines) or not re.fullmatch(pat, lines[i]):
            raise Refuse("PER_STATETRANSITION block: expected %r, found %r" % (pat, lines[i] if i < len(lines) else None))
        i += 1
    flat = re.sub(r"\s+", " ", text)
    if "internal void Enter<StateT>() where StateT : new() { state = new StateT() as %sState; state.OnEntry(controller); }" % SM not in flat:
        raise Refuse("Enter<StateT>() does not create the state object and call its OnEntry")
    if "internal void Exit<StateT>() { state.OnExit(controller); }" not in flat:
        raise Refuse("Exit<StateT>() does not call OnExit of the current state object")
    if "sm.state.Trigger<<<EVENTNAME>>>(controller, sm, this);" not in flat:
        raise Refuse("Dispatch does not call the current state object's Trigger<Event>")
    if ("internal virtual void Trigger<<<EVENTNAME>>>(I%sContext context, %sStateMachine sm, <<<EVENTNAME>>> data){}" % (SM, SM)) not in flat:
        raise Refuse("base class handler is not an empty virtual")
    body = "From KV Require Import Model.CsShape.\n\nDefinition cs_pgt : list ck := [%s].\n" % "; ".join(pgt)
    return write_gen("CsTmpl.v", body, [SOURCE])


if __name__ == "__main__":
    print(run())
