"""statemachine_templates_cs_winlinmac/TEMPLATEInternals.cs  ->  Gen/CsTmpl.v

The shape of the C# state classes, fail closed:
  cs_pgt   the statement kinds of the lines inside PER_GUARDTRANSITION (the per-row block of a handler)
and the translator checks (refusing otherwise) the nesting around it: one PER_STATETRANSITION block that opens
`internal class <<<STATENAME>>> : <SM>State {`, contains exactly one PER_EVENTTRANSITION block consisting of the handler
signature `internal override void Trigger<<<EVENTNAME>>>(I<SM>Context context, <SM>StateMachine sm, <<<EVENTNAME>>> data)`,
`{`, the PER_GUARDTRANSITION block, `}`, followed by the OnEntry / OnExit overrides calling context.On<<<STATENAME>>>Entry() /
Exit(), and `};`; that Enter<StateT>() creates the state object and calls its OnEntry, and Exit<StateT>() calls OnExit of the
current state object.
"""
import re

from . import csmini
from .common import Refuse, src, write_gen

SOURCE = "kojen/statemachine_templates_cs_winlinmac/TEMPLATEInternals.cs"
SM = "<<<STATEMACHINENAME>>>"
PGT = [
    (r"if \(context\.<<<GUARDNAME>>>\(\)\)", "CkIfGuard"), (r"\{", "CkOpen"), (r"\}", "CkClose"),
    (r"sm\.Exit<<<<STATENAMEIFNEXTSTATE>>>>\(\);", "CkExit"), (r"context\.<<<ACTIONNAME>>>\(data\);", "CkAction"),
    (r"sm\.Enter<<<<NEXTSTATENAME>>>>\(\);", "CkEnter"),
    (r"sm\.estate = E" + SM + r"State\.<<<NEXTSTATENAME>>>;", "CkSetState"), (r"return;", "CkReturn"),
]
PST_EXPECT = [
    r"<<<PER_STATETRANSITION_BEGIN>>>", r"internal class <<<STATENAME>>> : " + SM + r"State", r"\{",
    r"<<<PER_EVENTTRANSITION_BEGIN>>>",
    r"internal override void Trigger<<<EVENTNAME>>>\(I" + SM + r"Context context, " + SM + r"StateMachine sm, <<<EVENTNAME>>> data\)",
    r"\{", r"<<<PER_GUARDTRANSITION_BEGIN>>>", "PGT", r"<<<PER_GUARDTRANSITION_END>>>", r"\}", r"<<<PER_EVENTTRANSITION_END>>>",
    r"internal override void OnEntry\(I" + SM + r"Context context\)", r"\{", r"context\.On<<<STATENAME>>>Entry\(\);", r"\}",
    r"internal override void OnExit\(I" + SM + r"Context context\)", r"\{", r"context\.On<<<STATENAME>>>Exit\(\);", r"\}",
    r"\};", r"<<<PER_STATETRANSITION_END>>>",
]


def run():
    text = src(SOURCE).decode("utf-8")
    lines = [l.strip() for l in text.split("\n")]
    lines = [l for l in lines if l and not l.startswith("///")]
    if lines.count("<<<PER_STATETRANSITION_BEGIN>>>") != 1:
        raise Refuse("expected exactly one PER_STATETRANSITION block")
    i = lines.index("<<<PER_STATETRANSITION_BEGIN>>>")
    pgt = []
    for pat in PST_EXPECT:
        if pat == "PGT":
            while i < len(lines) and lines[i] != "<<<PER_GUARDTRANSITION_END>>>":
                for rx, kind in PGT:
                    if re.fullmatch(rx, lines[i]):
                        pgt.append(kind)
                        break
                else:
                    raise Refuse("PER_GUARDTRANSITION: unknown statement shape %r" % lines[i])
                i += 1
            continue
        if i >= len(lines) or not re.fullmatch(pat, lines[i]):
            raise Refuse("PER_STATETRANSITION block: expected %r, found %r" % (pat, lines[i] if i < len(lines) else None))
        i += 1
    flat = re.sub(r"\s+", " ", text)
    if "sm.state.Trigger<<<EVENTNAME>>>(controller, sm, this);" not in flat:
        raise Refuse("Dispatch does not call the current state object's Trigger<Event>")
    if ("internal virtual void Trigger<<<EVENTNAME>>>(I%sContext context, %sStateMachine sm, <<<EVENTNAME>>> data){}" % (SM, SM)) not in flat:
        raise Refuse("base class handler is not an empty virtual")
    body = "From KV Require Import Model.CsShape.\n\nDefinition cs_pgt : list ck := [%s].\n" % "; ".join(pgt)
    # helper methods of the state-machine class as IR (Model/CsShape.hstmt), non-threaded configuration (SM_THREAD_0)
    enter = member_ir(text, r"internal void Enter<StateT>\(\) where StateT : new\(\)", "Enter<StateT>()")
    exit_ = member_ir(text, r"internal void Exit<StateT>\(\)", "Exit<StateT>()")
    reset = member_ir(text, r"internal void Reset\(\)", "Reset()")
    smtext = src(SM_SOURCE).decode("utf-8")
    ctor = member_ir(smtext, r"public %sStateMachine\(I%sContext context\)" % (SM, SM), "constructor")
    trig = trigger_shape(smtext)
    for nm, ir in (("cs_enter_ir", enter), ("cs_exit_ir", exit_), ("cs_reset_ir", reset), ("cs_ctor_ir", ctor)):
        body += "Definition %s : list hstmt := [%s].\n" % (nm, "; ".join(ir))
    thr_trigger, thr_loop, starts = threaded_ir(text, smtext)
    body += "Definition cs_trigger_thr_ir : list tstmt := [%s].  (* Trigger<E>, SM_THREAD_1, after the event object is built *)\n" % "; ".join(thr_trigger)
    body += "Definition cs_dispatch_loop_ir : list tstmt := [%s].  (* body of the dispatch thread's while(true) *)\n" % "; ".join(thr_loop)
    body += "Definition cs_ctor_starts_dispatch_thread : bool := %s.\n" % starts
    body += "Definition cs_trigger_dispatches_synchronously : bool := %s.  (* Trigger<E>: state.Trigger<E>(controller, this, evt) when SM_THREAD_0 *)\n" % trig
    return write_gen("CsTmpl.v", body, [SOURCE, SM_SOURCE])


SM_SOURCE = "kojen/statemachine_templates_cs_winlinmac/TEMPLATEStateMachine.cs"


def detag(t):
    t = t.replace("<<<StateMachineThread=1>>>", "0")
    t = re.sub(r"<<<(\w+)>>>", lambda m: "TAG" + m.group(1), t)
    return t


def member_text(text, header_rx, what):
    """The text of one member (header + brace-matched body) of the preprocessed (SM_THREAD_0) template."""
    clean, _ = csmini.preprocess("\n".join(l for l in text.split("\n") if not l.strip().startswith("#define")), {"SM_THREAD_0"})
    ms = list(re.finditer(header_rx + r"\s*\{", clean))
    if len(ms) != 1:
        raise Refuse("%s: expected exactly one definition, found %d" % (what, len(ms)))
    depth, i = 0, ms[0].end() - 1
    for j in range(i, len(clean)):
        depth += clean[j] == "{"
        depth -= clean[j] == "}"
        if depth == 0:
            return clean[ms[0].start():j + 1]
    raise Refuse("%s: unbalanced braces" % what)


def to_ir(stmt, what):
    k = stmt[0]
    N = lambda n: ("name", n)   # noqa
    if k == "block":
        return [x for s_ in stmt[1] for x in to_ir(s_, what)]
    if k == "return" and stmt[1] is None:
        return ["HReturn"]
    if k == "assign" and stmt[1] == N("state") and stmt[2] == ("as", ("new", "StateT"), "TAGSTATEMACHINENAMEState"):
        return ["HNewState"]
    if k == "assign" and stmt[1] == N("controller") and stmt[2] == N("context"):
        return ["HSetController"]
    if k == "assign" and stmt[1] == N("estate") and stmt[2] == ("member", N("ETAGSTATEMACHINENAMEState"), "TAGSTATE_0"):
        return ["HSetEstateFirst"]
    if k == "expr" and stmt[1] == ("call", N("state"), "OnEntry", None, [N("controller")]):
        return ["HOnEntry"]
    if k == "expr" and stmt[1] == ("call", N("state"), "OnExit", None, [N("controller")]):
        return ["HOnExit"]
    if k == "expr" and stmt[1] == ("call", ("this",), "Enter", "TAGSTATE_0", []):
        return ["HEnterFirst"]
    if k == "expr" and stmt[1] == ("call", ("this",), "Reset", None, []):
        return ["HCallReset"]
    if k == "if" and stmt[1] == ("is", N("state"), "StateT") and stmt[3] is None:
        return ["(HIfStateIsT [%s])" % "; ".join(to_ir(stmt[2], what))]
    raise Refuse("%s: statement outside the modelled shapes: %r" % (what, stmt))


def member_ir(text, header_rx, what):
    try:
        m = csmini.parse_method_text(detag(member_text(text, header_rx, what)), "TAGSTATEMACHINENAMEStateMachine")
    except csmini.CsError as e:
        raise Refuse("%s: %s" % (what, e))
    return to_ir(m.body, what)


def threaded_ir(text, smtext):
    """The THREADED configuration (SM_THREAD_1) as IR: what Trigger<Event> does after building the event object, the body of
    the dispatch loop, and that the constructor starts a thread running Dispatch. Unknown statements -> Refuse."""
    strip = lambda t: "\n".join(l for l in t.split("\n") if not l.strip().startswith("#define"))   # noqa
    N = lambda n: ("name", n)   # noqa
    clean, _ = csmini.preprocess(strip(smtext), {"SM_THREAD_1"})
    m = re.search(r"public void Trigger<<<EVENTNAME>>>\(<<<SIGNATURE>>>\)\s*\{(.*?)\n        \}", clean, re.S)
    if not m:
        raise Refuse("Trigger<Event> (threaded) not found")
    lines = [l.strip() for l in m.group(1).split("\n") if l.strip()]
    if lines[:2] != ["<<<EVENTNAME>>> evt = new ();", "<<<EVENTMEMBERSLITEINSTANTIATE=evt>>>"]:
        raise Refuse("Trigger<Event> (threaded) does not start by building the event object: %r" % lines[:2])
    trig = []
    for l in lines[2:]:
        if l == "dispatchQ.Enqueue(evt);":
            trig.append("QEnqueue")
        elif re.fullmatch(r"\w+\.Set\(\);", l):
            trig.append("QSet")
        else:
            raise Refuse("Trigger<Event> (threaded): statement outside the modelled shapes: %r" % l)
    iclean, _ = csmini.preprocess(strip(text), {"SM_THREAD_1"})
    ms = list(re.finditer(r"internal void Dispatch\(\)\s*\{", iclean))
    if len(ms) != 1:
        raise Refuse("Dispatch(): expected exactly one definition in the threaded configuration")
    depth, i0 = 0, ms[0].end() - 1
    for j in range(i0, len(iclean)):
        depth += iclean[j] == "{"
        depth -= iclean[j] == "}"
        if depth == 0:
            break
    try:
        meth = csmini.parse_method_text(detag(iclean[ms[0].start():j + 1]), "TAGSTATEMACHINENAMEStateMachine")
    except csmini.CsError as e:
        raise Refuse("Dispatch(): %s" % e)
    b = meth.body[1]
    if not (len(b) == 1 and b[0][0] == "while" and b[0][1] == ("lit", True) and b[0][2][0] == "block"):
        raise Refuse("Dispatch(): not a single while(true) { ... } loop")
    loop = []
    for st in b[0][2][1]:
        if st == ("if", ("call", N("dispatchQ"), "TryDequeue", None, [("out", "IDispatchable", "next")]),
                  ("block", [("expr", ("call", N("next"), "Dispatch", None, [("this",), N("controller")]))]), None):
            loop.append("QTryDequeueDispatch")
        elif st[0] == "expr" and st[1][0] == "call" and st[1][1] == N("Thread") and st[1][2] == "Sleep" and len(st[1][4]) == 1:
            loop.append("QSleep")
        elif st[0] == "expr" and st[1][0] == "call" and st[1][2] == "WaitOne" and st[1][4] == [] and st[1][1][0] == "name":
            fld = st[1][1][1]
            if not re.search(r"AutoResetEvent\s+%s\b" % re.escape(fld), iclean):
                raise Refuse("Dispatch(): WaitOne on %s, which is not declared as an AutoResetEvent" % fld)
            loop.append("QWaitOne")
        else:
            raise Refuse("Dispatch(): statement outside the modelled shapes: %r" % (st,))
    flat = re.sub(r"\s+", " ", clean)
    starts = "dispatchThread = new Thread(new ThreadStart(Dispatch)) { IsBackground = true }; dispatchThread.Start();" in flat
    if not starts:
        raise Refuse("constructor (threaded) does not start the dispatch thread on Dispatch")
    if "internal ConcurrentQueue<IDispatchable> dispatchQ = new ();" not in re.sub(r"\s+", " ", iclean):
        raise Refuse("dispatchQ is not a ConcurrentQueue<IDispatchable> created empty")
    return trig, loop, "true"


def trigger_shape(smtext):
    """Trigger<Event> in the non-threaded configuration: creates the event, (members), and calls the current state object's handler."""
    clean, _ = csmini.preprocess("\n".join(l for l in smtext.split("\n") if not l.strip().startswith("#define")), {"SM_THREAD_0"})
    m = re.search(r"public void Trigger<<<EVENTNAME>>>\(<<<SIGNATURE>>>\)\s*\{(.*?)\n        \}", clean, re.S)
    if not m:
        raise Refuse("Trigger<Event> not found")
    lines = [l.strip() for l in m.group(1).split("\n") if l.strip()]
    want = ["<<<EVENTNAME>>> evt = new ();", "<<<EVENTMEMBERSLITEINSTANTIATE=evt>>>", "state.Trigger<<<EVENTNAME>>>(controller, this, evt);"]
    if lines != want:
        raise Refuse("Trigger<Event> (non-threaded) has an unknown shape: %r" % lines)
    return "true"


if __name__ == "__main__":
    print(run())
