"""allplatforms/CPP/{MsgHeader.h, IConnection.h, IConnection.cpp, IMsgReceiver.h, IRawDataReceiver.h}  ->  Gen/CxxConn.v

Extracted (fail closed; strict textual patterns, anything else is refused):
  hdr_fields            struct sMsgHeader: (name, width in bytes) of every member in declaration order; every member must be
                        `uintN Name __attribute__ ((packed));`
  size_of_header_src    IConnection.cpp: `static constexpr uint16 SizeOfHeader = sizeof(sMsgHeader);` must be present
  count_bits            width of OnDataReceived's `count`, of m_fragment_buffer_bytes_required and of the local uint32 variables
  deliver_len_bits      width of IMsgReceiver::OnMessageReceived's / IRawDataReceiver::OnDataReceived's number_of_bytes
  send_len_bits         width of IConnection::SendData's number_of_bytes
  preamble_low_first    SetMsgReceiver: byte 0 = preamble & 0x00FF, byte 1 = preamble >> 8
  oversize_guard_bound  the literal B of `if (header->PayloadSize > B - SizeOfHeader) { ...discard...; return; }` that must stand in front
                        of `uint32 msgSize = SizeOfHeader + header->PayloadSize;` in HandleFragmentedData (ResetFragmentation();
                        OnDataReceived(data, count);) and in HandleUnfragmentedData (OnDataReceived(std::addressof(data[1]), count - 1);)
  asserts_compiled      the two assert(...) calls of HandleFragmentedData (outside DEBUG_CODE)
  fragment_buf_size ... arm_conn_fingerprint   the __arm__ branch (arm_facts): FRAGMENT_BUF_SIZE, the member types, PutIntoFragmentBuffer,
                        the three updates of the exceed flag, the capped largest message size, the two drop blocks
  conn_functions        names of the functions of the non-__arm__ branch, in source order (the hand-written model has one
                        definition per name; Model/Conn.v proves nothing about names, the harness compares the list)
  conn_fingerprint      sha256 of the comment/whitespace-normalised non-__arm__ text of these functions (a changed fingerprint
                        is not a refusal: the check multiplies its correspondence budget)
"""
import hashlib
import re

from .common import Refuse, coq_bs, src, write_gen

D = "kojen/allplatforms/CPP/"
SOURCES = [D + "MsgHeader.h", D + "IConnection.h", D + "IConnection.cpp", D + "IMsgReceiver.h", D + "IRawDataReceiver.h"]

WIDTH = {"uint8": 1, "uint16": 2, "uint32": 4, "uint64": 8}
MODELLED = ["ResetFragmentation", "FindPreamble", "PutIntoFragmentBuffer", "HandleFragmentedData", "HandleUnfragmentedData",
            "OnDataReceived"]


def text(rel):
    return src(rel).decode("utf-8")


def strip_comments(s):
    s = re.sub(r"/\*.*?\*/", " ", s, flags=re.S)
    return re.sub(r"//[^\n]*", "", s)


def header_fields():
    s = strip_comments(text(D + "MsgHeader.h"))
    m = re.search(r"struct\s+sMsgHeader\s*\{(.*?)\}\s*;", s, re.S)
    if not m:
        raise Refuse("MsgHeader.h: struct sMsgHeader not found")
    fields = []
    for line in m.group(1).split("\n"):
        line = line.strip()
        if not line:
            continue
        mm = re.fullmatch(r"(uint8|uint16|uint32|uint64)\s+(\w+)\s+__attribute__\s*\(\(packed\)\)\s*;", line)
        if not mm:
            raise Refuse("MsgHeader.h: unrecognised member line %r" % line)
        fields.append((mm.group(2), WIDTH[mm.group(1)]))
    if len(s.split("struct sMsgHeader")) != 2:
        raise Refuse("MsgHeader.h: sMsgHeader mentioned more than once")
    return fields


def non_arm(s):
    return select_branch(s, False)


def select_branch(s, arm, lenient=False):
    """Select the __arm__ (arm=True) or the non-__arm__ branch of every conditional on __arm__; any other conditional is refused."""
    out, stack = [], []   # stack of (keep_now, is_arm_conditional)
    for line in s.split("\n"):
        t = line.strip()
        if t.startswith("#"):
            d = re.sub(r"\s+", " ", t)
            d = re.sub(r"//.*", "", d).strip()
            if d in ("#if defined(__arm__)", "#ifdef __arm__"):
                stack.append(arm)
            elif d == "#if !defined(__arm__)":
                stack.append(not arm)
            elif lenient and d.startswith(("#if", "#ifdef", "#ifndef")):
                stack.append(None)          # a conditional on something else (headers only): both branches are kept
            elif d == "#else":
                if not stack:
                    raise Refuse("IConnection.cpp: #else without #if")
                if stack[-1] is not None:
                    stack[-1] = not stack[-1]
            elif d == "#endif":
                if not stack:
                    raise Refuse("IConnection.cpp: #endif without #if")
                stack.pop()
            elif d.startswith("#include") or (lenient and d.startswith(("#pragma", "#define"))):
                pass
            else:
                raise Refuse("IConnection.cpp: unrecognised preprocessor line %r" % t)
            continue
        if all(x is not False for x in stack):
            out.append(line)
    if stack:
        raise Refuse("IConnection.cpp: unbalanced conditionals")
    return "\n".join(out)


def functions(s):
    """[(name, normalised body text)] of the IConnection:: member functions, by brace matching."""
    res = []
    for m in re.finditer(r"\bIConnection::(~?\w+)\s*\(([^)]*)\)\s*(const)?\s*(:[^{]*)?\{", s):
        depth, i = 1, m.end()
        while depth and i < len(s):
            if s[i] == "{":
                depth += 1
            elif s[i] == "}":
                depth -= 1
            i += 1
        if depth:
            raise Refuse("IConnection.cpp: unbalanced braces in %s" % m.group(1))
        body = re.sub(r"\s+", " ", s[m.start():i]).strip()
        res.append((m.group(1), body))
    return res


def need(pattern, s, what):
    if not re.search(pattern, s):
        raise Refuse("%s not found" % what)


def arm_facts(cpp, hdr, rx):
    """The __arm__ branch: fixed fragment buffer, 16 bit counters, the exceed flag; every statement Model/ConnArm.v models differently
    from the non-__arm__ branch is matched textually (whitespace-normalised)."""
    h = re.sub(r"\s+", " ", select_branch(hdr, True, lenient=True))
    m = re.search(r"#define FRAGMENT_BUF_SIZE (\d+)", re.sub(r"[ \t]+", " ", hdr))
    if not m or len(re.findall(r"#define\s+FRAGMENT_BUF_SIZE", hdr)) != 1:
        raise Refuse("IConnection.h: #define FRAGMENT_BUF_SIZE <number> not found exactly once")
    cap = int(m.group(1))
    if cap < 8 or cap >= 65536:
        raise Refuse("FRAGMENT_BUF_SIZE %d outside 8..65535" % cap)
    for needed in ("uint16 m_largest_message_size;", "bool m_has_data_exceeding_fragment_buffer_size;",
                   "uint8 m_fragment_buffer[FRAGMENT_BUF_SIZE];", "uint16 m_fragment_buffer_cnt;", "uint32 m_fragment_buffer_bytes_required;"):
        if needed not in h:
            raise Refuse("IConnection.h (__arm__): member %r not found" % needed)
    if "std::vector" in h.split("class KOJEN_API IConnection")[1]:
        raise Refuse("IConnection.h (__arm__): a std::vector member in the __arm__ branch")
    need(r"virtual\s+uint16\s+LargestMessageSize\(\)\s*=\s*0\s*;", select_branch(rx, True, lenient=True), "IMsgReceiver::LargestMessageSize (__arm__)")
    body = select_branch(cpp, True)
    fns = dict((n, b) for n, b in functions(body))
    for n in MODELLED + ["SetMsgReceiver"]:
        if n not in fns:
            raise Refuse("IConnection.cpp (__arm__): function %s not found" % n)

    def has(fn, txt, what):
        if re.sub(r"\s+", " ", txt) not in fns[fn]:
            raise Refuse("IConnection.cpp (__arm__) %s: %s not found" % (fn, what))
    if ", m_has_data_exceeding_fragment_buffer_size{false} , m_largest_message_size{FRAGMENT_BUF_SIZE} , m_fragment_buffer_cnt{0}" \
            not in re.sub(r"\s+", " ", body) or ": m_fragment_buffer_bytes_required{0}" not in re.sub(r"\s+", " ", body):
        raise Refuse("IConnection.cpp (__arm__): initial values of the members in the constructor not found")
    has("SetMsgReceiver", "m_largest_message_size = receiver.LargestMessageSize(); if (m_largest_message_size > FRAGMENT_BUF_SIZE) m_largest_message_size = FRAGMENT_BUF_SIZE;",
        "largest message size capped at the buffer size")
    has("ResetFragmentation", "m_fragment_buffer_bytes_required = 0; m_fragment_buffer_cnt = 0; m_has_data_exceeding_fragment_buffer_size =false;", "reset of the three members")
    has("PutIntoFragmentBuffer", "auto fragmentLast = m_fragment_buffer_cnt; m_fragment_buffer_cnt += count; if (m_has_data_exceeding_fragment_buffer_size) return; "
        "std::copy(data, data + count, std::addressof(m_fragment_buffer[fragmentLast]));", "count, no copy when exceeding, copy at the old count")
    hf, hu, od = fns["HandleFragmentedData"], fns["HandleUnfragmentedData"], fns["OnDataReceived"]
    if not hf.startswith("IConnection::HandleFragmentedData(const uint8* data, const uint32 count) { uint32 totalFragmentedByteCount = count + m_fragment_buffer_cnt;"):
        raise Refuse("HandleFragmentedData (__arm__): does not start with uint32 totalFragmentedByteCount = count + m_fragment_buffer_cnt")
    exc = "m_has_data_exceeding_fragment_buffer_size = m_has_data_exceeding_fragment_buffer_size || "
    if hf.count(exc + "(totalFragmentedByteCount > FRAGMENT_BUF_SIZE);") != 1 or hf.count(exc + "(msgSize > m_largest_message_size);") != 1 \
            or hu.count(exc + "(msgSize > m_largest_message_size);") != 1 or (hf + hu + od).count("m_has_data_exceeding_fragment_buffer_size =") != 3:
        raise Refuse("(__arm__) the three updates of m_has_data_exceeding_fragment_buffer_size are not the modelled ones")
    drop = ("if (m_has_data_exceeding_fragment_buffer_size) { ResetFragmentation(); if (count > rxBytesParsed) { "
            "OnDataReceived(std::addressof(data[rxBytesParsed]), count - rxBytesParsed); } return; } assert(")
    if hf.count(drop) != 2:
        raise Refuse("HandleFragmentedData (__arm__): the two `parsed over -> drop` blocks in front of the asserts not found")
    if hf.count("m_msg_receiver->OnMessageReceived(std::addressof(m_fragment_buffer[0]), msgSize);") != 1 or \
            hf.count("m_msg_receiver->OnMessageReceived(std::addressof(m_fragment_buffer[0]), m_fragment_buffer_cnt);") != 1:
        raise Refuse("HandleFragmentedData (__arm__): the two deliveries from the fragment buffer not found")
    if "m_fragment_buffer_bytes_required = msgSize - m_fragment_buffer_cnt;" not in hf or "if (0 == m_fragment_buffer_cnt)" not in od \
            or "if (m_fragment_buffer_cnt > 0 || (actualCount < SizeOfHeader))" not in od:
        raise Refuse("(__arm__) uses of m_fragment_buffer_cnt differ from the modelled ones")
    fp = hashlib.sha256("\n".join(n + ":" + fns[n] for n in MODELLED + ["SetMsgReceiver"]).encode()).hexdigest()
    return {"cap": cap, "fp": fp}


def run():
    fields = header_fields()
    cpp = strip_comments(text(D + "IConnection.cpp"))
    hdr = strip_comments(text(D + "IConnection.h"))
    rx = strip_comments(text(D + "IMsgReceiver.h"))
    raw = strip_comments(text(D + "IRawDataReceiver.h"))
    need(r"static\s+constexpr\s+uint16\s+SizeOfHeader\s*=\s*sizeof\(sMsgHeader\)\s*;", cpp, "SizeOfHeader = sizeof(sMsgHeader)")
    need(r"void\s+OnDataReceived\(const\s+uint8\*\s*data,\s*const\s+uint32\s+count\)\s*;", hdr, "IConnection::OnDataReceived(const uint8*, const uint32)")
    need(r"uint32\s+m_fragment_buffer_bytes_required\s*;", hdr, "uint32 m_fragment_buffer_bytes_required")
    need(r"std::vector<\s*uint8\s*>\s*m_fragment_buffer\s*;", hdr, "std::vector<uint8> m_fragment_buffer")
    need(r"virtual\s+bool\s+SendData\(\s*const\s+uint8\*\s*data_buffer,\s*const\s+uint16&\s*number_of_bytes\s*\)\s*=\s*0\s*;", hdr,
         "IConnection::SendData(const uint8*, const uint16&)")
    need(r"virtual\s+void\s+OnMessageReceived\(\s*const\s+uint8\*\s*data_buffer,\s*const\s+uint32&\s*number_of_bytes\s*\)\s*=\s*0\s*;", rx,
         "IMsgReceiver::OnMessageReceived(const uint8*, const uint32&)")
    need(r"virtual\s+uint16\s+Preamble\(\)\s*const\s*=\s*0\s*;", rx, "IMsgReceiver::Preamble")
    need(r"virtual\s+void\s+OnDataReceived\(\s*const\s+uint8\*\s*data_buffer,\s*const\s+uint32&\s*number_of_bytes\s*\)\s*=\s*0\s*;", raw,
         "IRawDataReceiver::OnDataReceived(const uint8*, const uint32&)")
    need(r"m_receiver_preamble_0\s*=\s*m_receiver_preamble\s*&\s*0x00FF\s*;", cpp, "preamble byte 0 = preamble & 0x00FF")
    need(r"m_receiver_preamble_1\s*=\s*m_receiver_preamble\s*>>\s*8\s*;", cpp, "preamble byte 1 = preamble >> 8")
    need(r"m_rawdata_receiver\s*=\s*nullptr\s*;\s*m_msg_receiver\s*=\s*&receiver\s*;", cpp, "SetMsgReceiver clears the raw receiver")
    need(r"m_msg_receiver\s*=\s*nullptr\s*;\s*m_rawdata_receiver\s*=\s*&receiver\s*;", cpp, "SetRawDataReceiver clears the message receiver")
    body = non_arm(cpp)
    fns = functions(body)
    names = [n for n, _ in fns]
    for n in MODELLED:
        if names.count(n) != 1:
            raise Refuse("IConnection.cpp: function %s defined %d times in the non-__arm__ branch" % (n, names.count(n)))
    modelled = [(n, b) for n, b in fns if n in MODELLED]
    hf = dict(modelled)["HandleFragmentedData"]
    hu = dict(modelled)["HandleUnfragmentedData"]
    n_assert = len(re.findall(r"(?<!DEBUG_CODE\()\bassert\(", hf))
    if "DEBUG_CODE(assert" in hf.replace(" ", "") or n_assert != 2:
        raise Refuse("HandleFragmentedData: expected exactly two plain assert(...) calls, found %d" % n_assert)
    if len(re.findall(r"(?<!DEBUG_CODE\()\bassert\(", hu)) != 0:
        raise Refuse("HandleUnfragmentedData: assert outside DEBUG_CODE")
    # local variable widths the model writes as `mod 2^32`
    for v in ("totalFragmentedByteCount", "size_to_process", "msgSize", "rxBytesParsed"):
        if not re.search(r"uint32\s+%s\s*=" % v, hf):
            raise Refuse("HandleFragmentedData: local %s is not declared uint32" % v)
    if not re.search(r"uint32\s+msgSize\s*=\s*SizeOfHeader\s*\+\s*header->PayloadSize\s*;", hu):
        raise Refuse("HandleUnfragmentedData: msgSize is not uint32 SizeOfHeader + header->PayloadSize")
    # the guard against a PayloadSize that would wrap uint32 msgSize, in both paths, in front of the msgSize computation
    g = r"if \(header->PayloadSize > (0x[0-9A-Fa-f]+) - SizeOfHeader\) \{ %s return; \} uint32 msgSize = SizeOfHeader \+ header->PayloadSize;"
    mf = re.search(g % r"ResetFragmentation\(\); OnDataReceived\(data, count\);", hf)
    mu = re.search(g % r"OnDataReceived\(std::addressof\(data\[1\]\), count - 1\);", hu)
    if not mf:
        raise Refuse("HandleFragmentedData: oversize-PayloadSize guard (reset + rescan of the data) not found in front of msgSize")
    if not mu:
        raise Refuse("HandleUnfragmentedData: oversize-PayloadSize guard (skip one byte + rescan) not found in front of msgSize")
    if mf.group(1).lower() != mu.group(1).lower():
        raise Refuse("the two oversize-PayloadSize guards use different bounds")
    guard_bound = int(mf.group(1), 16)
    if hf.count("header->PayloadSize") != 2 or hu.count("header->PayloadSize") != 2:
        raise Refuse("header->PayloadSize is used in more places than the guard and the msgSize computation")
    arm = arm_facts(cpp, hdr, rx)
    fp = hashlib.sha256("\n".join(n + ":" + b for n, b in modelled).encode()).hexdigest()
    out = ["From Coq Require Import NArith.", ""]
    out.append("Definition hdr_fields : list (string * N) := [\n    %s\n  ]." % ";\n    ".join(
        "(%s, %d%%N)  (* %s *)" % (coq_bs(n), w, n) for n, w in fields))
    out.append("Definition count_bits : N := 32%N.        (* OnDataReceived(const uint8*, const uint32 count); uint32 locals; m_fragment_buffer_bytes_required *)")
    out.append("Definition deliver_len_bits : N := 32%N.  (* OnMessageReceived(const uint8*, const uint32& number_of_bytes) *)")
    out.append("Definition send_len_bits : N := 16%N.     (* SendData(const uint8*, const uint16& number_of_bytes) *)")
    out.append("Definition preamble_low_first : bool := true.  (* byte 0 = preamble & 0x00FF, byte 1 = preamble >> 8 *)")
    out.append("Definition asserts_in_fragmented_path : N := %d%%N." % n_assert)
    out.append("Definition oversize_guard_bound : N := %d%%N.   (* if (header->PayloadSize > 0x%X - SizeOfHeader) discard, in both paths *)" % (guard_bound, guard_bound))
    out.append("Definition conn_functions : list string := [\n    %s\n  ]." % ";\n    ".join(
        "%s  (* %s *)" % (coq_bs(n), n) for n, _ in modelled))
    out.append("(* ---- the __arm__ branch (Model/ConnArm.v) ---- *)")
    out.append("Definition fragment_buf_size : N := %d%%N.      (* #define FRAGMENT_BUF_SIZE; uint8 m_fragment_buffer[FRAGMENT_BUF_SIZE] *)" % arm["cap"])
    out.append("Definition arm_cnt_bits : N := 16%N.            (* uint16 m_fragment_buffer_cnt; m_fragment_buffer_cnt += count *)")
    out.append("Definition arm_largest_bits : N := 16%N.        (* uint16 m_largest_message_size = receiver.LargestMessageSize() *)")
    out.append("Definition arm_largest_capped : bool := true.   (* if (m_largest_message_size > FRAGMENT_BUF_SIZE) m_largest_message_size = FRAGMENT_BUF_SIZE; *)")
    out.append("Definition arm_drops_parsed_over : bool := true.  (* both delivery sites: if (m_has_data_exceeding_fragment_buffer_size) { reset; continue; return; } *)")
    out.append("Definition arm_conn_fingerprint : string := %s." % coq_bs(arm["fp"]))
    out.append("Definition conn_fingerprint : string := %s." % coq_bs(fp))
    return write_gen("CxxConn.v", "\n".join(out) + "\n", SOURCES)


if __name__ == "__main__":
    print(run())
