"""preservative.py / cgen.py / smgen.py  ->  Gen/Tags.v

Extracted (fail closed):
  tag_prefix        Preservative.__init__: self._TAG_PREFIX_ = <literal>
  clean_patterns    CleanUpLine: the ordered chain  line.replace(p1,'').replace(p2,'')...  (each p of 1..2 chars)
  lost_suffix       Emplace: Lost_Code_TXT_filename = outputfile + <literal>
  lost_sep          Emplace: the separator literal appended last
  tab_from/tab_to   createoutput: line.replace(<from>, <to>)
  tmp_suffix        cgen.__TMP_SUFFIX__ (if present, else "")
  collect_exts      Collect: the file.find(<ext>) > -1 literals
  cgen_tags/smgen_tags   every module level __TAG_*__ = <literal>, in source order
"""
import ast
import warnings

warnings.simplefilter('ignore')

from .common import Refuse, coq_bs, coq_str_list, const_str, find_def, module_consts, parse, write_gen

SOURCES = ["kojen/preservative.py", "kojen/cgen.py", "kojen/smgen.py"]


def clean_chain(fn):
    if len(fn.body) != 1 or not isinstance(fn.body[0], ast.Return):
        raise Refuse("CleanUpLine: body is not a single return")
    arg = fn.args.args[0].arg
    pats = []
    node = fn.body[0].value
    while True:
        if isinstance(node, ast.Name) and node.id == arg:
            break
        if not (isinstance(node, ast.Call) and isinstance(node.func, ast.Attribute) and node.func.attr == "replace"
                and len(node.args) == 2 and not node.keywords):
            raise Refuse("CleanUpLine: not a .replace(x, '') chain: " + ast.dump(node))
        p = const_str(node.args[0], "CleanUpLine pattern")
        r = const_str(node.args[1], "CleanUpLine replacement")
        if r != "":
            raise Refuse("CleanUpLine: replacement is not ''")
        if not (1 <= len(p.encode()) <= 2):
            raise Refuse("CleanUpLine: pattern %r is not 1..2 bytes" % p)
        pats.append(p)
        node = node.func.value
    pats.reverse()
    return pats


def tag_prefix(tree):
    init = find_def(tree, "__init__", "Preservative")
    for n in ast.walk(init):
        if isinstance(n, ast.Assign) and len(n.targets) == 1 and isinstance(n.targets[0], ast.Attribute) \
                and n.targets[0].attr == "_TAG_PREFIX_":
            return const_str(n.value, "_TAG_PREFIX_")
    raise Refuse("_TAG_PREFIX_ assignment not found")


def lost_consts(tree):
    em = find_def(tree, "Emplace", "Preservative")
    suffix = None
    for n in ast.walk(em):
        if isinstance(n, ast.Assign) and isinstance(n.targets[0], ast.Name) and n.targets[0].id == "Lost_Code_TXT_filename":
            v = n.value
            if not (isinstance(v, ast.BinOp) and isinstance(v.op, ast.Add) and isinstance(v.left, ast.Name)):
                raise Refuse("Lost_Code_TXT_filename: unexpected shape")
            suffix = const_str(v.right, "LostCode suffix")
    if suffix is None:
        raise Refuse("Lost_Code_TXT_filename not found")
    seps = [n.value for n in ast.walk(em) if isinstance(n, ast.Constant) and isinstance(n.value, str) and set(n.value) == {"-"}]
    if len(seps) != 1:
        raise Refuse("LostCode separator literal not found exactly once")
    return suffix, seps[0]


def tab_filter(tree):
    co = find_def(tree, "createoutput", "CGenerator")
    found = []
    for n in ast.walk(co):
        if isinstance(n, ast.Call) and isinstance(n.func, ast.Attribute) and n.func.attr == "replace" and len(n.args) == 2 \
                and not (isinstance(n.func.value, ast.Name) and n.func.value.id == "os"):
            found.append((const_str(n.args[0], "tab from"), const_str(n.args[1], "tab to")))
    if len(found) != 1:
        raise Refuse("createoutput: expected exactly one .replace filter, found %d" % len(found))
    return found[0]


def collect_exts(tree):
    co = find_def(tree, "Collect", "Preservative")
    res = []
    for n in ast.walk(co):
        if isinstance(n, ast.Call) and isinstance(n.func, ast.Attribute) and n.func.attr == "find" \
                and isinstance(n.func.value, ast.Name) and n.func.value.id == "file":
            res.append(const_str(n.args[0], "Collect extension"))
    return res


def all_tags(tree):
    res = []
    for n in tree.body:
        if isinstance(n, ast.Assign) and len(n.targets) == 1 and isinstance(n.targets[0], ast.Name):
            name = n.targets[0].id
            if name.startswith("__TAG_") and isinstance(n.value, ast.Constant) and isinstance(n.value.value, str):
                res.append((name, n.value.value))
    return res


def run():
    pres = parse("kojen/preservative.py")
    cg = parse("kojen/cgen.py")
    sm = parse("kojen/smgen.py")
    pats = clean_chain(find_def(pres, "CleanUpLine"))
    prefix = tag_prefix(pres)
    suffix, sep = lost_consts(pres)
    tf, tt = tab_filter(cg)
    tmp = module_consts(cg).get("__TMP_SUFFIX__", "")
    out = []
    out.append("Definition tag_prefix : string := %s.  (* %r *)" % (coq_bs(prefix), prefix))
    out.append("Definition clean_patterns : list string := %s." % coq_str_list(pats))
    out.append("Definition lost_suffix : string := %s.  (* %r *)" % (coq_bs(suffix), suffix))
    out.append("Definition lost_sep : string := %s." % coq_bs(sep))
    out.append("Definition tab_from : string := %s." % coq_bs(tf))
    out.append("Definition tab_to : string := %s." % coq_bs(tt))
    out.append("Definition tmp_suffix : string := %s.  (* %r *)" % (coq_bs(tmp), tmp))
    out.append("Definition collect_exts : list string := %s." % coq_str_list(collect_exts(pres)))
    for nm, tree in (("cgen_tags", cg), ("smgen_tags", sm)):
        tags = all_tags(tree)
        out.append("Definition %s : list (string * string) := [\n    %s\n  ]." % (
            nm, ";\n    ".join("(%s, %s)  (* %s = %r *)" % (coq_bs(k), coq_bs(v), k, v) for k, v in tags)))
    return write_gen("Tags.v", "\n".join(out) + "\n", SOURCES)


if __name__ == "__main__":
    print(run())
