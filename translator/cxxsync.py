"""allplatforms/CPP/threadsafe_queue.h + threaded_dispatcher.h -> Gen/CxxSync.v

Strict line-pattern translation (fail closed) of the two headers into
  * the declared kind of every data member (plain / atomic / mutex / condvar / sub-object / threads),
  * per method a small IR of synchronisation operations (Model/CxxSyncIR.v),
  * the LOCKSET TABLE: for every read/write of a data member, the method, the set of mutexes held at that point and the
    phase of the object's life the method belongs to (constructor / destructor before the joins / destructor after the
    joins / any time).
Any line that matches no known pattern raises Refuse.
"""
import re

from .common import Refuse, src, write_gen

QUEUE_H = "kojen/allplatforms/CPP/threadsafe_queue.h"
DISP_H = "kojen/allplatforms/CPP/threaded_dispatcher.h"


def strip_comments(text):
    text = re.sub(r"/\*.*?\*/", lambda m: "\n" * m.group(0).count("\n"), text, flags=re.S)
    return re.sub(r"//[^\n]*", "", text)


def class_body(text, name):
    m = re.search(r"class\s+%s\s*\{" % re.escape(name), text)
    if not m:
        raise Refuse("class %s not found" % name)
    i = m.end()
    depth = 1
    j = i
    while depth:
        if j >= len(text):
            raise Refuse("unbalanced braces in class " + name)
        if text[j] == "{":
            depth += 1
        elif text[j] == "}":
            depth -= 1
        j += 1
    return text[i:j - 1]


MEMBER = re.compile(r"^(mutable\s+)?([\w:<> ,]+?)\s+(m_\w+)\s*(=\s*[^;]+|\{[^}]*\})?;$")
METHOD_HEAD = re.compile(r"^(?:explicit\s+|virtual\s+)?(?:[\w:<>&\* ]+?\s+)?(~?\w+)\s*\(([^)]*)\)\s*(const)?\s*(?:override)?\s*(=\s*0\s*;)?$")


def kind_of(ty):
    ty = ty.replace(" ", "")
    if ty == "std::mutex":
        return "KMutex"
    if ty == "std::condition_variable":
        return "KCond"
    if ty.startswith("std::atomic<"):
        return "KAtomic"
    if ty.startswith("std::vector<std::thread>"):
        return "KThreads"
    if ty.startswith("threadsafe_queue<"):
        return "KSubobject"      # has its own synchronisation: accesses are method calls, analysed in its own class
    if ty.startswith("std::queue<"):
        return "KContainer"
    if ty in ("bool", "std::string"):
        return "KPlain"
    raise Refuse("data member of unknown type %r" % ty)


def split_members(body):
    """-> (members {name: kind}, methods [(name, params, [body lines], overload index)])."""
    lines = [l.strip() for l in body.split("\n")]
    lines = [l for l in lines if l]
    members, methods, defaults = {}, [], []
    i = 0
    counts = {}
    access = "private"           # default access of a `class`
    accesses, pure = [], []
    while i < len(lines):
        l = lines[i]
        if l in ("public:", "private:", "protected:"):
            access = l[:-1]
            i += 1
            continue
        if l.startswith("typedef ") and l.endswith(";"):
            i += 1
            continue
        m = MEMBER.match(l)
        if m and "(" not in l.split("=")[0]:
            members[m.group(3)] = kind_of(m.group(2))
            if m.group(4):
                defaults.append(m.group(3))
            i += 1
            continue
        h = METHOD_HEAD.match(l)
        if not h:
            raise Refuse("class member line of unknown shape: %r" % l)
        name = h.group(1)
        if (name, access) not in accesses:
            accesses.append((name, access))
        if h.group(4):          # pure virtual
            pure.append(name)
            i += 1
            continue
        # optional initialiser list, then the body in braces
        i += 1
        init = []
        while i < len(lines) and not lines[i].startswith("{"):
            if not re.match(r"^[:,]?\s*m_\w+\s*[\({].*[\)}],?$", lines[i]):
                raise Refuse("initialiser list line of unknown shape in %s: %r" % (name, lines[i]))
            init.append(lines[i])
            i += 1
        if i >= len(lines):
            raise Refuse("method %s has no body" % name)
        depth = 0
        bl = []
        if lines[i] == "{}":
            lines[i:i + 1] = ["{", "}"]
        while True:
            l2 = lines[i]
            depth += l2.count("{") - l2.count("}")
            bl.append(l2)
            i += 1
            if depth == 0:
                break
        k = counts.get(name, 0)
        counts[name] = k + 1
        methods.append((name, h.group(2).strip(), init, bl[1:-1], k))
    return members, methods, defaults, accesses, pure


# (regex, [ops]) -- op: ("Lock", m) ("WaitUntil", m, [reads]) ("R", v) ("W", v) ("NotifyOne", c) ("NotifyAll", c)
#                      ("PushBack",) ("PopFront",) ("Call", obj, method) ("JoinAll", v) ("Spawn", v) ("CallHandler",) ("Open", kind) ("Close",)
PATTERNS = [
    (r"^std::(?:unique_lock|lock_guard)<std::mutex>\s+lk\((m_\w+)\);$", lambda m: [("Lock", m.group(1))]),
    (r"^(m_\w+)\.wait\(lk,\s*\[this\]\s*\{\s*return\s+!m_data\.empty\(\)\s*\|\|\s*m_stopped;\s*\}\);$",
     lambda m: [("WaitUntil", m.group(1), ["m_data", "m_stopped"])]),
    (r"^if\s*\(\s*!m_data\.empty\(\)\s*\)\s*\{$", lambda m: [("R", "m_data"), ("Open", "if")]),
    (r"^if\s*\(\s*m_data\.empty\(\)\s*\)$", lambda m: [("R", "m_data")]),
    (r"^value = std::move\(\*m_data\.front\(\)\);$", lambda m: [("R", "m_data")]),
    (r"^res = std::move\(m_data\.front\(\)\);$", lambda m: [("W", "m_data")]),
    (r"^m_data\.pop\(\);$", lambda m: [("W", "m_data"), ("PopFront",)]),
    (r"^m_data\.push\(std::make_unique<T>\(std::move\(value\)\)\);$", lambda m: [("W", "m_data"), ("PushBack",)]),
    (r"^m_data\.push\(std::move\(value\)\);$", lambda m: [("W", "m_data"), ("PushBack",)]),
    (r"^(m_\w+)\.notify_one\(\);$", lambda m: [("NotifyOne", m.group(1))]),
    (r"^(m_\w+)\.notify_all\(\);$", lambda m: [("NotifyAll", m.group(1))]),
    (r"^(m_stopped|m_shutting_down) = true;$", lambda m: [("W", m.group(1))]),
    (r"^(m_stopped|m_shutting_down)\.store\(true\);$", lambda m: [("W", m.group(1))]),
    (r"^return m_data\.(size|empty)\(\);$", lambda m: [("R", "m_data")]),
    (r"^return (true|false|res);$", lambda m: []),
    (r"^ptr_type (res|item_to_dispatch);$", lambda m: []),
    (r"^\{$", lambda m: [("Open", "block")]),
    (r"^\}$", lambda m: [("Close",)]),
    (r"^m_queue\.wake_up\(\);$", lambda m: [("Call", "m_queue", "wake_up")]),
    (r"^shutdown\(\);$", lambda m: [("Call", "this", "shutdown")]),
    (r"^m_queue\.push\((std::move\(value\)|value)\);$", lambda m: [("Call", "m_queue", "push")]),
    (r"^for \(auto& thread : (m_threads)\)\s*\{$", lambda m: [("R", "m_threads"), ("Open", "for")]),
    (r"^if \(thread\.joinable\(\)\)\s*\{$", lambda m: [("Open", "if_joinable")]),
    (r"^thread\.join\(\);$", lambda m: [("JoinAll", "m_threads")]),
    (r"^while \(!(m_shutting_down)\)\s*\{$", lambda m: [("R", m.group(1)), ("Open", "while")]),
    (r"^if \(\(item_to_dispatch = m_queue\.wait_and_pop\(\)\) && \(!(m_shutting_down)\)\)\s*\{$",
     lambda m: [("Call", "m_queue", "wait_and_pop"), ("R", m.group(1)), ("Open", "if")]),
    (r"^handle_dispatch\(std::move\(item_to_dispatch\)\);$", lambda m: [("CallHandler",)]),
    (r"^for \(size_t i = 0; i < thread_cnt; i\+\+\)\s*\{$", lambda m: [("Open", "for")]),
    (r"^m_threads\[i\] = std::thread\(&threaded_dispatcher::handle_dispatch_internal, this\);$",
     lambda m: [("W", "m_threads"), ("Spawn", "m_threads")]),
]
PATTERNS = [(re.compile(p), f) for p, f in PATTERNS]


def method_ir(cls, name, init, lines):
    """-> (ops, accesses [(member, 'R'|'W', frozenset(locks), after_join)])."""
    ops, acc = [], []
    for l in init:
        mm = re.match(r"^[:,]?\s*(m_\w+)", l)
        ops.append(("W", mm.group(1)))
        acc.append((mm.group(1), "W", frozenset(), "init"))
    held = []            # stack of (depth, mutex)
    depth = 0
    blocks = []          # kinds of the open blocks
    joined = False
    for l in lines:
        for rx, f in PATTERNS:
            m = rx.match(l)
            if m:
                new = f(m)
                break
        else:
            raise Refuse("%s::%s: line of unknown shape: %r" % (cls, name, l))
        for o in new:
            if o[0] == "Open":
                depth += 1
                blocks.append(o[1])
                continue
            if o[0] == "Close":
                if depth == 0:
                    raise Refuse("%s::%s: unbalanced }" % (cls, name))
                while held and held[-1][0] == depth:
                    ops.append(("Unlock", held.pop()[1]))
                depth -= 1
                blocks.pop()
                continue
            locks = frozenset(mx for (_d, mx) in held)
            if o[0] in ("NotifyOne", "NotifyAll") and any(b != "block" for b in blocks):
                # the IR is straight-line: a notification under a condition must not be flattened into an unconditional one
                raise Refuse("%s::%s: conditional notification (inside %s)" % (cls, name, "/".join(blocks)))
            if o[0] == "Lock":
                if o[1] in locks:
                    raise Refuse("%s::%s: recursive lock" % (cls, name))
                held.append((depth, o[1]))
            elif o[0] == "WaitUntil":
                if o[1] == "" or not locks:
                    raise Refuse("%s::%s: wait without the lock" % (cls, name))
                for v in o[2]:
                    acc.append((v, "R", locks, joined))
            elif o[0] in ("R", "W"):
                acc.append((o[1], o[0], locks, joined))
            elif o[0] == "JoinAll":
                if not blocks or blocks[-1] != "if_joinable":
                    # an unguarded join() throws on the second call: shutdown() would not be idempotent
                    raise Refuse("%s::%s: thread.join() is not guarded by `if (thread.joinable())`" % (cls, name))
                joined = True
            ops.append(o)
    while held:
        ops.append(("Unlock", held.pop()[1]))
    if depth != 0:
        raise Refuse("%s::%s: unbalanced {" % (cls, name))
    return ops, acc


def phase_of(cls, name, after_join, init=False):
    """Phase of the object's life an access belongs to.  threadsafe_queue is analysed as the sub-object it is in the
    dispatcher: constructed before any thread is spawned (member order is checked in Coq), destroyed after the owner's
    destructor body has joined every worker."""
    if cls == "threadsafe_queue":
        if name == cls:
            return "PInit"
        if name == "~" + cls:
            return "PDtorJoined"
        return "PAny"
    if name == cls:
        return "PInit" if init else "PCtorBody"
    if name in ("~" + cls, "shutdown"):      # shutdown() is the body of the destructor (also callable by a derived destructor)
        return "PDtorJoined" if after_join else "PDtor"
    if name == "handle_dispatch_internal":
        return "PWorker"
    return "PAny"


def analyse():
    res = {}
    for rel, cls in ((QUEUE_H, "threadsafe_queue"), (DISP_H, "threaded_dispatcher")):
        text = strip_comments(src(rel).decode("utf-8"))
        body = class_body(text, cls)
        members, methods, defaults, accesses, pure = split_members(body)
        ms = []
        for (name, params, init, lines, k) in methods:
            ops, acc = method_ir(cls, name, init, lines)
            ms.append({"name": name, "overload": k, "ops": ops, "acc": acc})
        res[cls] = {"members": members, "methods": ms, "defaults": defaults, "accesses": accesses, "pure": pure}
    return res


def coq_op(o):
    k = o[0]
    if k in ("Lock", "Unlock", "NotifyOne", "NotifyAll", "JoinAll", "Spawn"):
        return '%s "%s"' % (k, o[1])
    if k == "WaitUntil":
        return 'WaitUntil "%s" [%s]' % (o[1], "; ".join('"%s"' % v for v in o[2]))
    if k == "R":
        return 'Read "%s"' % o[1]
    if k == "W":
        return 'Write "%s"' % o[1]
    if k == "Call":
        return 'Call "%s" "%s"' % (o[1], o[2])
    return k


def run():
    a = analyse()
    out = ["From KV Require Import Model.CxxSyncIR.\n"]
    table = []
    for cls in ("threadsafe_queue", "threaded_dispatcher"):
        c = a[cls]
        out.append("(* ---- class %s *)" % cls)
        out.append("Definition members_%s : list (string * mkind) := [%s]." % (
            cls, "; ".join('("%s", %s)' % (n, k) for n, k in c["members"].items())))
        names = []
        for v in c["defaults"]:
            table.append('mkAcc "%s" "%s" "%s" AWrite [] PInit' % (cls, "(default member initialiser)", v))
        for m in c["methods"]:
            ident = "%s_%s%s" % (cls, m["name"].replace("~", "dtor_"), ("_%d" % m["overload"]) if m["overload"] else "")
            names.append((m["name"], ident))
            out.append("Definition ir_%s : list cop :=\n  [%s]." % (ident, "; ".join(coq_op(o) for o in m["ops"])))
            for (v, rw, locks, joined) in m["acc"]:
                table.append('mkAcc "%s" "%s" "%s" %s [%s] %s' % (
                    cls, m["name"] + (("#%d" % m["overload"]) if m["overload"] else ""), v, "AWrite" if rw == "W" else "ARead",
                    "; ".join('"%s"' % x for x in sorted(locks)), phase_of(cls, m["name"], joined is True, joined == "init")))
        out.append("Definition access_%s : list (string * access_spec) := [%s]." % (
            cls, "; ".join('("%s", %s)' % (n, {"public": "APublic", "protected": "AProtected", "private": "APrivate"}[a]) for n, a in c["accesses"])))
        out.append("Definition pure_virtual_%s : list string := [%s]." % (cls, "; ".join('"%s"' % n for n in c["pure"])))
        out.append("Definition methods_%s : list (string * list cop) := [%s].\n" % (
            cls, "; ".join('("%s", ir_%s)' % (n, i) for n, i in names)))
    out.append("(* every thread.join() of the dispatcher is guarded by `if (thread.joinable())` (else the translator refuses): a second\n"
               "   shutdown() joins nothing *)\nDefinition joins_guarded_by_joinable : bool := true.\n"
               "(* no notify_one/notify_all sits under an if/for/while (else the translator refuses): the straight-line IR is exact *)\n"
               "Definition notifications_unconditional : bool := true.\n")
    out.append("(* the LOCKSET TABLE: every read / write of a data member, with the mutexes held and the phase *)")
    out.append("Definition lockset_table : list access :=\n  [" + ";\n   ".join(table) + "].")
    write_gen("CxxSync.v", "\n".join(out) + "\n", [QUEUE_H, DISP_H])
    return a
