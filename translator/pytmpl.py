"""statemachine_templates_py/TEMPLATEStateMachine.py  ->  Gen/PyTmpl.v

The SHAPE of the behaviour-deciding part of the Python state-machine template, fail closed:
  py_init     the lines of  def __init__  that touch the controller or the current state (def line, entry callback of
              <<<STATE_0>>>, assignment of the initial state), in order, with their indentation
  py_process  every line from  def process(self, event)  to the end of the file as (indentation, statement kind)
Every line of the file that calls a controller method (self.context.<x>) or assigns self.currentState must lie in one
of the two regions and match one of the known statement shapes exactly; anything else -> Refuse.
"""
import ast
import re

from .common import Refuse, coq_bs, src, write_gen

SOURCE = "kojen/statemachine_templates_py/TEMPLATEStateMachine.py"
SM = r"<<<STATEMACHINENAME>>>"

SHAPES = [
    (r"<<<PER_STATETRANSITION_BEGIN>>>", "KBegin 1"), (r"<<<PER_STATETRANSITION_END>>>", "KEnd 1"),
    (r"<<<PER_EVENTTRANSITION_BEGIN>>>", "KBegin 2"), (r"<<<PER_EVENTTRANSITION_END>>>", "KEnd 2"),
    (r"<<<PER_GUARDTRANSITION_BEGIN>>>", "KBegin 3"), (r"<<<PER_GUARDTRANSITION_END>>>", "KEnd 3"),
    (r"def __init__\(self, controller\):", "KDefInit"),
    (r"self\.context\.On<<<STATE_0>>>Entry\(EventStartup\(\)\)", "KInitEntry"),
    (r"self\.currentState = " + SM + r"StateId\.c<<<STATE_0>>>", "KInitState"),
    (r"def process\(self, event\) -> None:", "KDefProcess"),
    (r"def process<<<STATENAME>>>\(self, event\) -> None:", "KDefProcessState"),
    (r"if self\.currentState == " + SM + r"StateId\.c<<<STATENAME>>>:", "KIfState"),
    (r"self\.process<<<STATENAME>>>\(event\)", "KCallState"),
    (r"return", "KReturn"),
    (r"if isinstance\(event, <<<EVENTNAME>>>\):", "KIfEvent"),
    (r"if self\.context\.<<<GUARDNAME>>>\(event\):", "(KIfGuard false)"),
    (r"if self\.context\.<<<GUARDNAME=if True:>>>\(event\):", "(KIfGuard true)"),
    (r"self\.context\.On<<<STATENAMEIFNEXTSTATE>>>Exit\(event\)", "KExit"),
    (r"self\.context\.<<<ACTIONNAME>>>\(event\)", "KAction"),
    (r"self\.context\.On<<<NEXTSTATENAME>>>Entry\(event\)", "KEntry"),
    (r"self\.currentState = " + SM + r"StateId\.c<<<NEXTSTATENAME>>>", "KSetState"),
    (r"self\.context\.NoTransition\(event\)", "KNoTrans"),
]
RELEVANT = re.compile(r"self\.context\.|currentState\s*=[^=]|\breturn\b|\braise\b")
ALLOWED_TAGS_IN_PRINT = {"<<<STATEMACHINENAME>>>", "<<<STATENAME>>>"}


def indent_of(line, no):
    body = line.lstrip(" ")
    if body.startswith("\t"):
        raise Refuse("line %d: tab indentation" % no)
    return len(line) - len(body)


def is_print(text):
    tags = set(re.findall(r"<<<[^<>]*>>>", text))
    if not tags <= ALLOWED_TAGS_IN_PRINT:
        return False
    plain = re.sub(r"<<<[^<>]*>>>", "X", text)
    try:
        mod = ast.parse(plain)
    except SyntaxError:
        return False
    return (len(mod.body) == 1 and isinstance(mod.body[0], ast.Expr) and isinstance(mod.body[0].value, ast.Call)
            and isinstance(mod.body[0].value.func, ast.Name) and mod.body[0].value.func.id == "print")


def classify(text, no, strict):
    for rx, kind in SHAPES:
        if re.fullmatch(rx, text):
            return kind
    if text == "" or text.startswith("#") or is_print(text):
        return "KSkip"
    if strict or RELEVANT.search(text) or "<<<PER_" in text and "TRANSITION" in text:
        raise Refuse("line %d: unknown statement shape %r" % (no, text))
    return None


def run():
    lines = src(SOURCE).decode("utf-8").split("\n")
    if lines and lines[-1] == "":
        lines.pop()
    init, proc = [], []
    region = None  # None | "init" | "process"
    init_indent = None
    for no, raw in enumerate(lines, 1):
        line = raw.rstrip("\r")
        text = line.strip(" ")
        ind = indent_of(line, no)
        if region != "process" and re.fullmatch(r"def process\(self, event\) -> None:", text):
            region = "process"
        elif region != "process" and text.startswith("def "):
            region = "init" if re.fullmatch(r"def __init__\(self, controller\):", text) else None
            init_indent = ind
        if region == "process":
            proc.append((ind, classify(text, no, True)))
        elif region == "init":
            k = classify(text, no, False)
            if k is not None and k != "KSkip":
                init.append((ind, k))
        elif re.search(r"self\.context\.|currentState\s*=[^=]", text):
            # outside the two regions nothing may call the controller or assign the state
            raise Refuse("line %d: controller call / state assignment outside the modelled regions: %r" % (no, text))
    if [k for _i, k in init] != ["KDefInit", "KInitEntry", "KInitState"]:
        raise Refuse("__init__: expected def, entry callback of the initial state, assignment of the initial state; got %r" % (init,))
    if not proc:
        raise Refuse("def process(self, event) not found")

    def coq(lst):
        return "[\n    " + ";\n    ".join("(%d, %s)" % (i, k) for i, k in lst) + "\n  ]"
    text = "From KV Require Import Model.PyShape.\n\n"
    text += "Definition py_init : list (nat * pk) := %s.\n\n" % coq(init)
    text += "Definition py_process : list (nat * pk) := %s.\n" % coq(proc)
    reserved, suffixes = module_names(src(SOURCE).decode("utf-8"))
    text += "\n(* bare module-level names the template binds or relies on: a state / event / action / guard of that name collides *)\n"
    text += "Definition py_reserved_names : list string := [%s].\n" % "; ".join(coq_bs(n) for n in reserved)
    text += "(* names the template forms from the state machine's name: <Name> ++ suffix *)\n"
    text += "Definition py_reserved_suffixes : list string := [%s].\n" % "; ".join(coq_bs(n) for n in suffixes)
    return write_gen("PyTmpl.v", text, [SOURCE])


def scan_names(template):
    """Obligations on the module's name space (fail closed) and the list of reserved bare names.
      * the star import of the controller module is the FIRST import: whatever the template imports afterwards re-binds its
        own names, so a controller name (an event class) can never replace a library name the machine relies on;
      * library modules are either imported as modules (qualified use) or their imported names are listed here;
      * every bare name the template loads is a builtin, a local/parameter, a tag, or listed."""
    import ast
    import builtins
    detag = []
    for line in template.split("\n"):
        if re.fullmatch(r"\s*<<<PER_\w+_(BEGIN|END)>>>\s*", line):
            continue
        detag.append(re.sub(r"<<<(\w+)(=[^<>]*)?>>>", lambda m: "TAG_" + m.group(1), line))
    problems = []
    try:
        mod = ast.parse("\n".join(detag))
    except SyntaxError as e:
        return [], [], ["template does not parse after removing the tags: %s" % e]
    imports = [n for n in mod.body if isinstance(n, (ast.Import, ast.ImportFrom))]
    if any(isinstance(n, (ast.Import, ast.ImportFrom)) for n in ast.walk(mod) if n not in imports):
        problems.append("import statement below module level")
    if not imports or not (isinstance(imports[0], ast.ImportFrom) and imports[0].module == "TAG_STATEMACHINENAMEController"
                           and [a.name for a in imports[0].names] == ["*"]):
        problems.append("the star import of the controller module is not the first import of the template: a controller name "
                        "(event class) could replace a name imported before it")
    bound = []
    for n in imports:
        if isinstance(n, ast.ImportFrom) and any(a.name == "*" for a in n.names):
            if n.module != "TAG_STATEMACHINENAMEController":
                problems.append("star import of " + str(n.module))
            continue
        for a in n.names:
            bound.append(a.asname or a.name.split(".")[0])
    suffixes = []
    for n in mod.body:
        if isinstance(n, ast.ClassDef):
            if n.name.startswith("TAG_STATEMACHINENAME"):
                suffixes.append(n.name[len("TAG_STATEMACHINENAME"):])
            else:
                bound.append(n.name)
        elif isinstance(n, (ast.FunctionDef, ast.Assign)):
            problems.append("module-level definition of unknown kind at line %d" % n.lineno)
    local = {"self", "event", "controller"}
    loaded = []
    for fn in ast.walk(mod):
        if isinstance(fn, ast.FunctionDef):
            local |= {a.arg for a in fn.args.args}
    for n in ast.walk(mod):
        if isinstance(n, ast.Name) and isinstance(n.ctx, ast.Store):
            local.add(n.id)
    for n in ast.walk(mod):
        if isinstance(n, ast.Name) and isinstance(n.ctx, ast.Load):
            if n.id in local or n.id.startswith("TAG_") or hasattr(builtins, n.id) or n.id in bound:
                continue
            if n.id not in loaded:
                loaded.append(n.id)
    return sorted(set(bound + loaded)), sorted(suffixes), problems





def module_names(template):
    reserved, suffixes, problems = scan_names(template)
    if problems:
        raise Refuse("; ".join(problems))
    return reserved, suffixes


if __name__ == "__main__":
    print(run())
