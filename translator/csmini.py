"""A small C# reader for the subset the generated state machine uses (shared by translator/cstmpl.py and the C10 check).

parse_program(texts, defines) -> {class name: Class}: preprocessor (#define / #if X / #else / #endif on symbols), namespaces,
(partial) classes with base list, fields, methods (generic parameter, parameter list, body), constructors.
Statements:  { ... } | if (e) s [else s] | return [e]; | T x = e; | e = e; | e;
Expressions: new T() | new () | x | this | a.b | f(args) | a.f<T>(args) | e is T | e as T | e == e | e != e | !e | (e) | literals
Interp executes that subset (objects with fields, virtual dispatch through the base chain, generic type parameters, enum
members, external objects whose method calls go to a Python callback).  Anything outside the subset raises CsError: the
callers fail closed.
"""
import re


class CsError(Exception):
    pass


TOKEN = re.compile(r"\s*(?:(//[^\n]*|/\*.*?\*/)|([A-Za-z_]\w*)|(\d+(?:\.\d+)?)|(\"[^\"]*\")|(==|!=|&&|\|\||[{}()\[\];,.<>=!:?+\-*/]))", re.S)
KEYWORDS = {"if", "else", "return", "new", "is", "as", "this", "true", "false", "null", "while", "out", "lock"}
MODIFIERS = {"public", "internal", "private", "protected", "virtual", "override", "static", "partial", "abstract", "sealed", "readonly"}


def preprocess(text, defines):
    """Line based #define / #if SYMBOL / #else / #endif."""
    out, stack = [], []
    defines = set(defines)
    for line in text.split("\n"):
        s = line.strip()
        if s.startswith("#define"):
            if all(stack):
                defines.add(s.split()[1])
            continue
        if s.startswith("#if"):
            sym = s[3:].strip()
            if not re.fullmatch(r"\w+", sym):
                raise CsError("preprocessor condition not a symbol: %r" % s)
            stack.append(sym in defines)
            continue
        if s.startswith("#else"):
            if not stack:
                raise CsError("#else without #if")
            stack[-1] = not stack[-1]
            continue
        if s.startswith("#endif"):
            if not stack:
                raise CsError("#endif without #if")
            stack.pop()
            continue
        if s.startswith("#"):
            raise CsError("unknown preprocessor line %r" % s)
        if all(stack):
            out.append(line)
    if stack:
        raise CsError("unterminated #if")
    return "\n".join(out), defines


def tokenize(text):
    toks, pos = [], 0
    while pos < len(text):
        m = TOKEN.match(text, pos)
        if not m:
            if text[pos:].strip() == "":
                break
            raise CsError("cannot tokenize at %r" % text[pos:pos + 30])
        pos = m.end()
        if m.group(1):
            continue
        toks.append(m.group(2) or m.group(3) or m.group(4) or m.group(5))
    return toks


class Method:
    def __init__(self, name, generic, params, body, cls):
        self.name, self.generic, self.params, self.body, self.cls = name, generic, params, body, cls


class Class:
    def __init__(self, name):
        self.name, self.bases, self.fields, self.methods, self.ctor, self.is_enum, self.members = name, [], {}, {}, None, False, []
        self.field_types = {}


class Parser:
    def __init__(self, toks):
        self.t, self.i = toks, 0

    def peek(self, k=0):
        return self.t[self.i + k] if self.i + k < len(self.t) else None

    def next(self):
        tok = self.peek()
        if tok is None:
            raise CsError("unexpected end of input")
        self.i += 1
        return tok

    def expect(self, tok):
        got = self.next()
        if got != tok:
            raise CsError("expected %r, got %r (near %s)" % (tok, got, " ".join(self.t[max(0, self.i - 6):self.i + 3])))

    # ---- declarations
    def program(self, classes):
        while self.peek() is not None:
            self.decl(classes)

    def decl(self, classes):
        tok = self.peek()
        if tok == "using":
            while self.next() != ";":
                pass
        elif tok == "namespace":
            self.next()
            while self.peek() != "{":
                self.next()
            self.expect("{")
            while self.peek() != "}":
                self.decl(classes)
            self.expect("}")
        elif tok == ";":
            self.next()
        else:
            self.type_decl(classes)

    def type_decl(self, classes):
        while self.peek() in MODIFIERS:
            self.next()
        kind = self.next()
        if kind not in ("class", "interface", "enum"):
            raise CsError("expected a type declaration, got %r" % kind)
        name = self.next()
        c = classes.setdefault(name, Class(name))
        if self.peek() == ":":
            self.next()
            while self.peek() != "{":
                b = self.next()
                if b != ",":
                    c.bases.append(b)
        self.expect("{")
        if kind == "enum":
            c.is_enum = True
            while self.peek() != "}":
                tok = self.next()
                if tok != ",":
                    c.members.append(tok)
            self.expect("}")
            return
        while self.peek() != "}":
            self.member(c, kind == "interface")
        self.expect("}")

    def type_name(self):
        name = self.next()
        if not re.fullmatch(r"[A-Za-z_]\w*", name):
            raise CsError("expected a type name, got %r" % name)
        if self.peek() == "<":
            depth = 0
            while True:
                tok = self.next()
                depth += tok == "<"
                depth -= tok == ">"
                if depth == 0:
                    break
        return name

    def member(self, c, in_interface):
        if self.peek() == ";":
            self.next()
            return
        while self.peek() in MODIFIERS:
            self.next()
        if self.peek() == c.name and self.peek(1) == "(":       # constructor
            self.next()
            params = self.params()
            body = self.block()
            c.ctor = Method(c.name, None, params, body, c)
            return
        ftype = self.type_name()                                 # return / field type
        name = self.next()
        while self.peek() == ".":                                # explicit interface implementation  I.M
            self.next()
            name = name + "." + self.next()
        generic = None
        if self.peek() == "<":
            self.next()
            generic = self.next()
            self.expect(">")
        if self.peek() == "(":
            params = self.params()
            if self.peek() == "where":
                while self.peek() not in ("{", ";"):
                    self.next()
            if self.peek() == ";":
                self.next()
                body = None
            else:
                body = self.block()
            c.methods[name] = Method(name, generic, params, body, c)
            return
        init = None
        if self.peek() == "=":
            self.next()
            init = self.expr()
        self.expect(";")
        c.fields[name] = init
        c.field_types[name] = ftype

    def params(self):
        self.expect("(")
        res = []
        while self.peek() != ")":
            ty = self.type_name()
            res.append((ty, self.next()))
            if self.peek() == ",":
                self.next()
        self.expect(")")
        return res

    # ---- statements
    def block(self):
        self.expect("{")
        body = []
        while self.peek() != "}":
            body.append(self.stmt())
        self.expect("}")
        return ("block", body)

    def stmt(self):
        tok = self.peek()
        if tok == "{":
            return self.block()
        if tok == ";":
            self.next()
            return ("block", [])
        if tok == "if":
            self.next()
            self.expect("(")
            c = self.expr()
            self.expect(")")
            a = self.stmt()
            b = None
            if self.peek() == "else":
                self.next()
                b = self.stmt()
            return ("if", c, a, b)
        if tok == "return":
            self.next()
            e = None if self.peek() == ";" else self.expr()
            self.expect(";")
            return ("return", e)
        if tok in ("while", "lock"):
            self.next()
            self.expect("(")
            c = self.expr()
            self.expect(")")
            return (tok, c, self.stmt())
        # local declaration  T x = e;   (two identifiers in a row)
        if re.fullmatch(r"[A-Za-z_]\w*", tok or "") and tok not in KEYWORDS and re.fullmatch(r"[A-Za-z_]\w*", self.peek(1) or "") \
                and self.peek(1) not in KEYWORDS and self.peek(2) == "=":
            ty = self.next()
            name = self.next()
            self.expect("=")
            e = self.expr()
            self.expect(";")
            return ("local", ty, name, e)
        e = self.expr()
        if self.peek() == "=":
            self.next()
            r = self.expr()
            self.expect(";")
            return ("assign", e, r)
        self.expect(";")
        return ("expr", e)

    # ---- expressions
    def expr(self):
        e = self.unary()
        while self.peek() in ("==", "!=", "is", "as"):
            op = self.next()
            if op in ("is", "as"):
                e = (op, e, self.type_name())
            else:
                e = (op, e, self.unary())
        return e

    def unary(self):
        if self.peek() == "!":
            self.next()
            return ("not", self.unary())
        return self.postfix(self.primary())

    def primary(self):
        tok = self.next()
        if tok == "(":
            e = self.expr()
            self.expect(")")
            return e
        if tok == "new":
            ty = None
            if self.peek() != "(":
                ty = self.type_name()
            args = self.args()
            inits = []
            if self.peek() == "{":                               # object initialiser { Name = e, ... }
                self.next()
                while self.peek() != "}":
                    nm = self.next()
                    self.expect("=")
                    inits.append((nm, self.expr()))
                    if self.peek() == ",":
                        self.next()
                self.expect("}")
            if not args and not inits:
                return ("new", ty)
            return ("newx", ty, args, inits)
        if tok in ("true", "false"):
            return ("lit", tok == "true")
        if tok == "null":
            return ("lit", None)
        if tok == "this":
            return ("this",)
        if re.fullmatch(r"\d+(\.\d+)?", tok):
            return ("lit", float(tok) if "." in tok else int(tok))
        if tok.startswith('"'):
            return ("lit", tok[1:-1])
        if re.fullmatch(r"[A-Za-z_]\w*", tok) and tok not in KEYWORDS:
            return ("name", tok)
        raise CsError("unexpected token %r in an expression" % tok)

    def generic_call_ahead(self):
        return self.peek() == "<" and re.fullmatch(r"[A-Za-z_]\w*", self.peek(1) or "") and self.peek(2) == ">" and self.peek(3) == "("

    def args(self):
        self.expect("(")
        res = []
        while self.peek() != ")":
            if self.peek() == "out":                             # out T name : declares a local that the callee sets
                self.next()
                ty = self.type_name()
                res.append(("out", ty, self.next()))
            else:
                res.append(self.expr())
            if self.peek() == ",":
                self.next()
        self.expect(")")
        return res

    def postfix(self, e):
        while True:
            if self.peek() == ".":
                self.next()
                name = self.next()
                if self.generic_call_ahead():
                    self.next()
                    g = self.next()
                    self.next()
                    e = ("call", e, name, g, self.args())
                elif self.peek() == "(":
                    e = ("call", e, name, None, self.args())
                else:
                    e = ("member", e, name)
            elif e[0] == "name" and self.generic_call_ahead():
                self.next()
                g = self.next()
                self.next()
                e = ("call", ("this",), e[1], g, self.args())
            elif e[0] == "name" and self.peek() == "(":
                e = ("call", ("this",), e[1], None, self.args())
            else:
                return e


def parse_program(texts, defines=()):
    classes = {}
    defs = set(defines)
    for text in texts:
        clean, defs2 = preprocess(text, defs)
        Parser(tokenize(clean)).program(classes)
    return classes


def parse_method_text(text, cname="_"):
    """One method/ctor member given as text (used by the translator on template fragments)."""
    c = Class(cname)
    p = Parser(tokenize(text))
    p.member(c, False)
    if p.peek() is not None:
        raise CsError("trailing text after the member")
    return c.ctor or list(c.methods.values())[0]


# ------------------------------------------------------------------ interpreter
class Obj:
    def __init__(self, cls):
        self.cls, self.fields = cls, {}


class External:
    """An object outside the program (the user's context): every method call goes to `callback(name, args)`."""
    def __init__(self, callback):
        self.callback = callback


class _Return(Exception):
    def __init__(self, value):
        self.value = value


class Interp:
    def __init__(self, classes, max_steps=100000, sched=None):
        self.classes, self.steps, self.max_steps, self.sched = classes, 0, max_steps, sched

    def bases(self, cname):
        seen, todo = [], [cname]
        while todo:
            c = todo.pop(0)
            if c in seen:
                continue
            seen.append(c)
            if c in self.classes:
                todo += self.classes[c].bases
        return seen

    def find_method(self, cname, name):
        for c in self.bases(cname):
            if c in self.classes and name in self.classes[c].methods and self.classes[c].methods[name].body is not None:
                return self.classes[c].methods[name]
        for c in self.bases(cname):                              # explicit interface implementation  void I.M(...)
            if c in self.classes:
                for mn, m in self.classes[c].methods.items():
                    if mn.endswith("." + name) and m.body is not None:
                        return m
        return None

    def instance_of(self, v, tname):
        return isinstance(v, Obj) and tname in self.bases(v.cls)

    def new(self, cname, args=()):
        if cname not in self.classes:
            raise CsError("new of unknown class %s" % cname)
        o = Obj(cname)
        for c in reversed(self.bases(cname)):
            if c in self.classes:
                for f, init in self.classes[c].fields.items():
                    o.fields[f] = None if init is None else self.eval(
                        init, {"this": o, "$types": {}, "$decl": self.classes[c].field_types.get(f)})
        ctor = self.classes[cname].ctor
        if ctor is not None:
            self.invoke(ctor, o, None, list(args))
        elif args:
            raise CsError("%s has no constructor taking arguments" % cname)
        return o

    def invoke(self, m, this, gtype, args):
        if len(args) != len(m.params):
            raise CsError("%s.%s called with %d arguments" % (m.cls.name, m.name, len(args)))
        env = {"this": this, "$types": {}, "$decl": None}
        if m.generic:
            if gtype is None:
                raise CsError("generic method %s called without a type argument" % m.name)
            env["$types"][m.generic] = gtype
        for (_ty, p), a in zip(m.params, args):
            env[p] = a
        try:
            self.exec(m.body, env)
        except _Return as r:
            return r.value
        return None

    def resolve_type(self, name, env):
        return env["$types"].get(name, name)

    def exec(self, s, env):
        self.steps += 1
        if self.steps > self.max_steps:
            raise CsError("step limit exceeded")
        k = s[0]
        if k == "block":
            for x in s[1]:
                self.exec(x, env)
        elif k == "if":
            if self.truth(self.eval(s[1], env)):
                self.exec(s[2], env)
            elif s[3] is not None:
                self.exec(s[3], env)
        elif k == "return":
            raise _Return(None if s[1] is None else self.eval(s[1], env))
        elif k == "while":
            while self.truth(self.eval(s[1], env)):
                self.exec(s[2], env)
        elif k == "lock":
            o = self.eval(s[1], env)
            static_call(self, "Monitor", "Enter", [o], env)
            try:
                self.exec(s[2], env)
            finally:
                if not (self.sched and self.sched.aborting):
                    static_call(self, "Monitor", "Exit", [o], env)
        elif k == "local":
            env2 = dict(env)
            env2["$decl"] = s[1]
            env[s[2]] = self.eval(s[3], env2)
        elif k == "assign":
            v = self.eval(s[2], env)
            t = s[1]
            if t[0] == "name":
                if t[1] in env and not t[1].startswith("$") and t[1] != "this":
                    env[t[1]] = v
                elif isinstance(env["this"], Obj) and t[1] in env["this"].fields:
                    env["this"].fields[t[1]] = v
                else:
                    raise CsError("assignment to unknown name %s" % t[1])
            elif t[0] == "member":
                o = self.eval(t[1], env)
                if not isinstance(o, Obj):
                    raise CsError("NullReferenceException: assignment to member %s of %r" % (t[2], o))
                if t[2] not in o.fields:
                    raise CsError("%s has no field %s" % (o.cls, t[2]))
                o.fields[t[2]] = v
            else:
                raise CsError("unsupported assignment target")
        elif k == "expr":
            self.eval(s[1], env)
        else:
            raise CsError("unknown statement " + k)

    @staticmethod
    def truth(v):
        if not isinstance(v, bool):
            raise CsError("condition is not a bool: %r" % (v,))
        return v

    def eval(self, e, env):
        k = e[0]
        if k == "lit":
            return e[1]
        if k == "this":
            return env["this"]
        if k == "name":
            n = e[1]
            if n in env and not n.startswith("$"):
                return env[n]
            if isinstance(env["this"], Obj) and n in env["this"].fields:
                return env["this"].fields[n]
            if n in self.classes or n in BUILTIN_TYPES:
                return ("type", n)
            if isinstance(env["this"], Obj) and self.find_method(env["this"].cls, n) is not None:
                return ("methodgroup", env["this"], n)
            raise CsError("unknown name %s" % n)
        if k == "newx":
            ty = e[1] if e[1] is not None else env.get("$decl")
            if ty is None:
                raise CsError("target-typed new without a declared type")
            ty = self.resolve_type(ty, env)
            args = [self.eval(a, env) for a in e[2]]
            o = make_builtin(self, ty, args) if ty in BUILTIN_TYPES else self.new(ty, args)
            for nm, ie in e[3]:
                v = self.eval(ie, env)
                if isinstance(o, Builtin):
                    o.set_prop(nm, v)
                elif nm in o.fields:
                    o.fields[nm] = v
                else:
                    raise CsError("%s has no field %s" % (o.cls, nm))
            return o
        if k == "new":
            ty = e[1] if e[1] is not None else env.get("$decl")
            if ty is not None and self.resolve_type(ty, env) in BUILTIN_TYPES:
                return make_builtin(self, self.resolve_type(ty, env), [])
            if ty is None:
                raise CsError("target-typed new without a declared type")
            return self.new(self.resolve_type(ty, env))
        if k == "member":
            o = self.eval(e[1], env)
            if isinstance(o, tuple) and o[0] == "type":
                c = self.classes[o[1]]
                if c.is_enum and e[2] in c.members:
                    return ("enum", o[1], e[2])
                raise CsError("%s has no member %s" % (o[1], e[2]))
            if isinstance(o, Obj):
                if e[2] not in o.fields:
                    raise CsError("%s has no field %s" % (o.cls, e[2]))
                return o.fields[e[2]]
            raise CsError("NullReferenceException: member %s of %r" % (e[2], o))
        if k == "call":
            o = self.eval(e[1], env)
            args = [a if a[0] == "out" else self.eval(a, env) for a in e[4]]
            if isinstance(o, External):
                return o.callback(e[2], args)
            if isinstance(o, Builtin):
                return o.call(self, e[2], args, env)
            if isinstance(o, tuple) and o[0] == "type" and o[1] in BUILTIN_TYPES:
                return static_call(self, o[1], e[2], args, env)
            if any(isinstance(a, tuple) and a and a[0] == "out" for a in args):
                raise CsError("out argument to a user method is outside the modelled subset")
            if not isinstance(o, Obj):
                raise CsError("NullReferenceException: call of %s on %r" % (e[2], o))
            m = self.find_method(o.cls, e[2])
            if m is None:
                raise CsError("%s has no method %s" % (o.cls, e[2]))
            g = None if e[3] is None else self.resolve_type(e[3], env)
            return self.invoke(m, o, g, args)
        if k == "is":
            return self.instance_of(self.eval(e[1], env), self.resolve_type(e[2], env))
        if k == "as":
            v = self.eval(e[1], env)
            return v if self.instance_of(v, self.resolve_type(e[2], env)) else None
        if k in ("==", "!="):
            a, b = self.eval(e[1], env), self.eval(e[2], env)
            same = (a is b) if isinstance(a, Obj) or isinstance(b, Obj) else (a == b)
            return same if k == "==" else not same
        if k == "not":
            return not self.truth(self.eval(e[1], env))
        raise CsError("unknown expression " + k)


# ------------------------------------------------------------------ threads, queues and synchronisation primitives
# The generated THREADED configuration uses System.Threading / System.Collections.Concurrent.  They are modelled as
# scheduled primitives: every operation is one atomic step preceded by a yield point at which an explicit cooperative
# scheduler (Sched) decides which thread runs next; blocking operations are enabled only when their condition holds.
# Types or members that are not listed raise CsError (fail closed).
BUILTIN_TYPES = {"Thread", "ThreadStart", "ConcurrentQueue", "Queue", "AutoResetEvent", "ManualResetEvent", "ManualResetEventSlim",
                 "SemaphoreSlim", "Monitor", "BlockingCollection", "Action", "Object", "object"}


class _Abort(BaseException):
    pass


class Sched:
    """Cooperative scheduler: exactly one C# thread runs at a time; control changes hands only at yield points.
    choose(runnable names, step) -> name decides; the sequence of decisions is the schedule."""
    def __init__(self, choose, max_yields=4000):
        import threading
        self.threading = threading
        self.choose, self.max_yields = choose, max_yields
        self.threads = []          # dicts: name, sem, state ('ready'|'blocked'|'done'), pred, error, what
        self.ctl = threading.Semaphore(0)
        self.current = None
        self.aborting = False
        self.log = []              # (thread name, yield point) in execution order
        self.yields = 0

    def spawn(self, name, fn):
        t = {"name": name, "sem": self.threading.Semaphore(0), "state": "ready", "pred": None, "error": None, "what": "start"}

        def body():
            t["sem"].acquire()
            try:
                if not self.aborting:
                    fn()
            except _Abort:
                pass
            except CsError as e:
                t["error"] = str(e)
            except BaseException as e:   # noqa
                t["error"] = "%s: %s" % (type(e).__name__, e)
            t["state"] = "done"
            self.ctl.release()
        t["py"] = self.threading.Thread(target=body, daemon=True)
        self.threads.append(t)
        t["py"].start()
        return t

    def me(self):
        return self.current

    def point(self, what, pred=None):
        """Yield point of the running thread; with pred the thread is blocked until pred() holds."""
        t = self.current
        if t is None:
            if pred is not None and not pred():
                raise CsError("blocking operation %s outside a scheduled thread" % what)
            return
        t["what"], t["pred"] = what, pred
        t["state"] = "ready" if pred is None else "blocked"
        self.ctl.release()
        t["sem"].acquire()
        if self.aborting:
            raise _Abort()

    def runnable(self):
        return [t for t in self.threads if t["state"] == "ready" or (t["state"] == "blocked" and t["pred"]())]

    def step(self):
        """Let the scheduler's choice run up to its next yield point. Returns the thread's name or None if none can run."""
        r = self.runnable()
        if not r:
            return None
        self.yields += 1
        if self.yields > self.max_yields:
            raise CsError("schedule longer than %d steps" % self.max_yields)
        name = self.choose([t["name"] for t in r], len(self.log))
        t = next(x for x in r if x["name"] == name)
        self.log.append((t["name"], t["what"]))
        t["state"], t["pred"] = "running", None
        self.current = t
        t["sem"].release()
        self.ctl.acquire()
        self.current = None
        if t["error"]:
            raise CsError("thread %s: %s" % (t["name"], t["error"]))
        return name

    def shutdown(self):
        self.aborting = True
        for t in self.threads:
            if t["state"] != "done":
                t["sem"].release()
        for t in self.threads:
            t["py"].join(timeout=2)


class Builtin:
    def __init__(self, interp, ty, args):
        self.interp, self.ty = interp, ty
        self.items, self.flag, self.count, self.owner, self.depth, self.waiters = [], False, 0, None, 0, []
        self.target, self.thread, self.background = None, None, False
        if ty in ("AutoResetEvent", "ManualResetEvent", "ManualResetEventSlim"):
            self.flag = bool(args[0]) if args else False
        elif ty == "SemaphoreSlim":
            self.count = int(args[0]) if args else 0
        elif ty in ("Thread", "ThreadStart", "Action"):
            if len(args) != 1:
                raise CsError("new %s needs one argument" % ty)
            self.target = args[0].target if isinstance(args[0], Builtin) else args[0]
            if not (isinstance(self.target, tuple) and self.target[0] == "methodgroup"):
                raise CsError("new %s: argument is not a method" % ty)
        elif args:
            raise CsError("new %s with arguments is outside the modelled subset" % ty)

    def set_prop(self, name, v):
        if self.ty == "Thread" and name in ("IsBackground", "Name", "Priority"):
            self.background = v if name == "IsBackground" else self.background
        else:
            raise CsError("%s has no settable property %s" % (self.ty, name))

    def _pt(self, what, pred=None):
        if self.interp.sched is not None:
            self.interp.sched.point("%s.%s" % (self.ty, what), pred)
        elif pred is not None and not pred():
            raise CsError("%s.%s would block and there is no scheduler" % (self.ty, what))

    def call(self, it, name, args, env):
        ty = self.ty
        if ty in ("ConcurrentQueue", "Queue", "BlockingCollection"):
            if name in ("Enqueue", "Add") and len(args) == 1:
                self._pt(name)
                self.items.append(args[0])
                return None
            if name in ("TryDequeue", "TryTake") and len(args) == 1 and args[0][0] == "out":
                self._pt(name)
                ok = bool(self.items)
                env[args[0][2]] = self.items.pop(0) if ok else None
                return ok
            if name == "TryPeek" and len(args) == 1 and args[0][0] == "out":
                self._pt(name)
                env[args[0][2]] = self.items[0] if self.items else None
                return bool(self.items)
            if name in ("Count", "IsEmpty"):
                raise CsError("%s.%s is a property, not a method" % (ty, name))
            if name in ("Dequeue",) and not args and ty == "Queue":
                self._pt(name)
                if not self.items:
                    raise CsError("InvalidOperationException: Dequeue on an empty Queue")
                return self.items.pop(0)
            if name == "Take" and not args and ty == "BlockingCollection":
                self._pt(name, lambda: bool(self.items))
                return self.items.pop(0)
        if ty in ("AutoResetEvent", "ManualResetEvent", "ManualResetEventSlim"):
            if name == "Set" and not args:
                self._pt(name)
                self.flag = True
                return True
            if name == "Reset" and not args:
                self._pt(name)
                self.flag = False
                return True
            if name in ("WaitOne", "Wait") and not args:
                self._pt(name, lambda: self.flag)
                if ty == "AutoResetEvent":
                    self.flag = False
                return True
        if ty == "SemaphoreSlim":
            if name == "Release" and not args:
                self._pt(name)
                self.count += 1
                return None
            if name == "Wait" and not args:
                self._pt(name, lambda: self.count > 0)
                self.count -= 1
                return None
        if ty == "Thread":
            if name == "Start" and not args:
                if it.sched is None:
                    raise CsError("Thread.Start without a scheduler")
                self._pt("Start")
                _mg, obj, mname = self.target
                m = it.find_method(obj.cls, mname)
                self.thread = it.sched.spawn("T%d" % len(it.sched.threads), lambda: it.invoke(m, obj, None, []))
                return None
            if name == "Join" and not args:
                self._pt("Join", lambda: self.thread is not None and self.thread["state"] == "done")
                return None
        raise CsError("%s.%s(%d args) is outside the modelled primitives" % (ty, name, len(args)))


def make_builtin(interp, ty, args):
    if ty == "Monitor":
        raise CsError("Monitor cannot be instantiated")
    return Builtin(interp, ty, args)


_MONITORS = {}


def static_call(it, ty, name, args, env):
    sch = it.sched
    if ty == "Thread" and name in ("Sleep", "Yield", "SpinWait"):
        if sch is not None:
            sch.point("Thread." + name)
        return None
    if ty == "Monitor" and args:
        key = id(args[0])
        mon = _MONITORS.setdefault(key, {"owner": None, "depth": 0, "pulses": 0, "obj": args[0]})
        me = sch.me()["name"] if (sch and sch.me()) else "main"
        if name == "Enter":
            if sch is not None:
                sch.point("Monitor.Enter", lambda: mon["owner"] in (None, me))
            mon["owner"], mon["depth"] = me, mon["depth"] + 1
            return None
        if name == "Exit":
            if mon["owner"] != me:
                raise CsError("SynchronizationLockException: Monitor.Exit by a thread that does not own the lock")
            mon["depth"] -= 1
            if mon["depth"] == 0:
                mon["owner"] = None
            return None
        if name in ("Pulse", "PulseAll"):
            if mon["owner"] != me:
                raise CsError("SynchronizationLockException: Monitor.%s without the lock" % name)
            mon["pulses"] = mon["pulses"] + 1 if name == "Pulse" else 1 << 20
            return None
        if name == "Wait" and len(args) == 1:
            if mon["owner"] != me:
                raise CsError("SynchronizationLockException: Monitor.Wait without the lock")
            depth, mon["owner"], mon["depth"] = mon["depth"], None, 0
            if sch is None:
                raise CsError("Monitor.Wait without a scheduler")
            sch.point("Monitor.Wait", lambda: mon["pulses"] > 0 and mon["owner"] is None)
            mon["pulses"] -= 1
            mon["owner"], mon["depth"] = me, depth
            return True
    raise CsError("%s.%s is outside the modelled primitives" % (ty, name))
