"""kojen/vppfs.py + kojen/test/blob.xml  ->  Gen/VppSrc.v (source constants)  and  Gen/VppShipped.v (the shipped project)

Gen/VppSrc.v (fail closed, from the AST of vppfs.py):
  mass_pats         mass_replace: the ordered chain string.replace(p1,'').replace(p2,'')... (each p of 1..2 characters)
  parse_keys        Transition.Parse: for i in self.BLOB_STRING.split(';'): the ordered list of
                    `if i.find(KW) > -1: x = mass_replace(i.replace(KW, '')); self.ATTR = GetLastIDFromColonList(x)`  -> (KW, ATTR)
  seg_sep/id_sep    the split characters of Transition.Parse / GetLastIDFromColonList
  guard_key         Guard.Parse: `if i.find(KW) > -1: self.NAME = mass_replace(i.replace(KW, '')); return`, else raise
  type_dispatch     StateDiagram.LoadAndTest: the if/elif chain on vppmodelelement.MODEL_TYPE -> (type, init|transition|state|pass), else raise
  diagram_type_state  VPPDiagrams.LoadAndTest: entry[...DIAGRAM_TYPE] == <literal> feeding state_diagrams
  none_str          GetTransitionTable: the literal used for self loops / missing guard / missing effect

Gen/VppShipped.v (from the SQLite file kojen/test/blob.xml):
  shipped_db        every DIAGRAM row, every DIAGRAM_ELEMENT row (id, shape, diagram id, model element id), the MODEL_ELEMENT rows that
                    the state diagrams reach (elements, guards, effects) between a few unrelated rows
  shipped_D         the abstract diagram (Model/VppWriter.v) read off the shipped blobs; Coq re-checks that the assumed writer
                    encode_diagram reproduces the shipped rows byte for byte (Proofs/VppCalib.v), so this reading is not trusted
"""
import ast
import os
import re
import sqlite3
import warnings

warnings.simplefilter('ignore')

from .common import REPO, Refuse, coq_bs, coq_str_list, const_str, find_def, parse, write_gen

SRC = "kojen/vppfs.py"
BLOB = "kojen/test/blob.xml"


def replace_chain(fn, what):
    if len(fn.body) != 1 or not isinstance(fn.body[0], ast.Return):
        raise Refuse("%s: body is not a single return" % what)
    arg = fn.args.args[0].arg
    pats = []
    node = fn.body[0].value
    while not (isinstance(node, ast.Name) and node.id == arg):
        if not (isinstance(node, ast.Call) and isinstance(node.func, ast.Attribute) and node.func.attr == "replace"
                and len(node.args) == 2 and not node.keywords):
            raise Refuse("%s: not a .replace(x, '') chain: %s" % (what, ast.dump(node)))
        p = const_str(node.args[0], what + " pattern")
        if const_str(node.args[1], what + " replacement") != "":
            raise Refuse("%s: replacement is not ''" % what)
        if not (1 <= len(p.encode()) <= 2):
            raise Refuse("%s: pattern %r is not 1..2 bytes" % (what, p))
        pats.append(p)
        node = node.func.value
    pats.reverse()
    return pats


def is_call(node, fname, nargs):
    return isinstance(node, ast.Call) and isinstance(node.func, ast.Name) and node.func.id == fname and len(node.args) == nargs \
        and not node.keywords


def find_test(test, var):
    """`var.find(KW) > -1` -> KW"""
    if not (isinstance(test, ast.Compare) and len(test.ops) == 1 and isinstance(test.ops[0], ast.Gt)
            and isinstance(test.comparators[0], ast.UnaryOp) and isinstance(test.comparators[0].op, ast.USub)
            and isinstance(test.comparators[0].operand, ast.Constant) and test.comparators[0].operand.value == 1):
        raise Refuse("Parse: test is not `x.find(k) > -1`: " + ast.dump(test))
    c = test.left
    if not (isinstance(c, ast.Call) and isinstance(c.func, ast.Attribute) and c.func.attr == "find"
            and isinstance(c.func.value, ast.Name) and c.func.value.id == var and len(c.args) == 1):
        raise Refuse("Parse: test is not `%s.find(k) > -1`" % var)
    return const_str(c.args[0], "keyword")


def removed_and_cleaned(node, var, kw):
    """mass_replace(var.replace(kw, ''))"""
    if not is_call(node, "mass_replace", 1):
        raise Refuse("Parse: value is not mass_replace(...)")
    r = node.args[0]
    if not (isinstance(r, ast.Call) and isinstance(r.func, ast.Attribute) and r.func.attr == "replace"
            and isinstance(r.func.value, ast.Name) and r.func.value.id == var and len(r.args) == 2
            and const_str(r.args[0], "kw") == kw and const_str(r.args[1], "repl") == ""):
        raise Refuse("Parse: argument is not %s.replace(%r, '')" % (var, kw))


def split_loop(fn, what):
    """the single `for i in self.BLOB_STRING.split(<c>)` of fn -> (loop node, var, c)"""
    loops = [n for n in fn.body if isinstance(n, ast.For)]
    if len(loops) != 1:
        raise Refuse("%s: expected exactly one for loop" % what)
    lp = loops[0]
    it = lp.iter
    if not (isinstance(lp.target, ast.Name) and isinstance(it, ast.Call) and isinstance(it.func, ast.Attribute)
            and it.func.attr == "split" and len(it.args) == 1 and isinstance(it.func.value, ast.Attribute)
            and it.func.value.attr == "BLOB_STRING"):
        raise Refuse("%s: loop is not over self.BLOB_STRING.split(c)" % what)
    if lp.orelse:
        raise Refuse("%s: for/else" % what)
    return lp, lp.target.id, const_str(it.args[0], "split char")


def transition_keys(tree):
    fn = find_def(tree, "Parse", "Transition")
    if len(fn.body) != 1:
        raise Refuse("Transition.Parse: body is not a single loop")
    lp, var, sep = split_loop(fn, "Transition.Parse")
    keys = []
    for st in lp.body:
        if not (isinstance(st, ast.If) and not st.orelse and len(st.body) == 2):
            raise Refuse("Transition.Parse: unexpected statement " + ast.dump(st)[:200])
        kw = find_test(st.test, var)
        a1, a2 = st.body
        if not (isinstance(a1, ast.Assign) and len(a1.targets) == 1 and isinstance(a1.targets[0], ast.Name)):
            raise Refuse("Transition.Parse: first statement of the branch is not `x = ...`")
        removed_and_cleaned(a1.value, var, kw)
        tmp = a1.targets[0].id
        if not (isinstance(a2, ast.Assign) and len(a2.targets) == 1 and isinstance(a2.targets[0], ast.Attribute)
                and isinstance(a2.targets[0].value, ast.Name) and a2.targets[0].value.id == "self"
                and is_call(a2.value, "GetLastIDFromColonList", 1) and isinstance(a2.value.args[0], ast.Name)
                and a2.value.args[0].id == tmp):
            raise Refuse("Transition.Parse: second statement is not self.ATTR = GetLastIDFromColonList(x)")
        keys.append((kw, a2.targets[0].attr))
    return keys, sep


def last_id_sep(tree):
    fn = find_def(tree, "GetLastIDFromColonList")
    body = [s for s in fn.body if not (isinstance(s, ast.Expr) and isinstance(s.value, ast.Constant))]
    if len(body) != 2:
        raise Refuse("GetLastIDFromColonList: unexpected body")
    a, r = body
    if not (isinstance(a, ast.Assign) and isinstance(a.value, ast.Call) and isinstance(a.value.func, ast.Attribute)
            and a.value.func.attr == "split" and len(a.value.args) == 1):
        raise Refuse("GetLastIDFromColonList: not x = item.split(c)")
    want = "return %s[len(%s) - 1]" % (a.targets[0].id, a.targets[0].id)
    if ast.unparse(r) != want:
        raise Refuse("GetLastIDFromColonList: return is not the last element: " + ast.unparse(r))
    return const_str(a.value.args[0], "id separator")


def guard_key(tree):
    fn = find_def(tree, "Parse", "Guard")
    if len(fn.body) != 2 or not isinstance(fn.body[1], ast.Raise):
        raise Refuse("Guard.Parse: body is not loop; raise")
    lp, var, sep = split_loop(fn, "Guard.Parse")
    if len(lp.body) != 1 or not isinstance(lp.body[0], ast.If) or lp.body[0].orelse or len(lp.body[0].body) != 2:
        raise Refuse("Guard.Parse: unexpected loop body")
    st = lp.body[0]
    kw = find_test(st.test, var)
    a, r = st.body
    if not (isinstance(a, ast.Assign) and ast.unparse(a.targets[0]) == "self.NAME" and isinstance(r, ast.Return) and r.value is None):
        raise Refuse("Guard.Parse: branch is not self.NAME = ...; return")
    removed_and_cleaned(a.value, var, kw)
    return kw, sep


def type_dispatch(tree):
    fn = find_def(tree, "LoadAndTest", "StateDiagram")
    if len(fn.body) != 2 or not all(isinstance(s, ast.For) for s in fn.body):
        raise Refuse("StateDiagram.LoadAndTest: body is not two loops")
    lp = fn.body[0]
    if len(lp.body) != 2 or not isinstance(lp.body[1], ast.If):
        raise Refuse("StateDiagram.LoadAndTest: first loop is not lookup; if-chain")
    if ast.unparse(lp.body[0]) != "vppmodelelement = self.table_vppmodelelements.GetModelElement(%s.MODEL_ELEMENT_ID)" % lp.target.id:
        raise Refuse("StateDiagram.LoadAndTest: lookup statement changed: " + ast.unparse(lp.body[0]))
    res = []
    node = lp.body[1]
    while True:
        t = node.test
        if not (isinstance(t, ast.Compare) and len(t.ops) == 1 and isinstance(t.ops[0], ast.Eq)
                and ast.unparse(t.left) == "vppmodelelement.MODEL_TYPE"):
            raise Refuse("StateDiagram.LoadAndTest: test is not MODEL_TYPE == literal")
        ty = const_str(t.comparators[0], "model type")
        if len(node.body) != 1:
            raise Refuse("StateDiagram.LoadAndTest: branch with several statements")
        b = ast.unparse(node.body[0])
        acts = {"self.initialpseudostate = vppmodelelement": "init",
                "self.transitions[vppmodelelement.ID] = Transition(vppmodelelement)": "transition",
                "self.states[vppmodelelement.ID] = vppmodelelement": "state",
                "pass": "pass"}
        if b not in acts:
            raise Refuse("StateDiagram.LoadAndTest: unknown branch action: " + b)
        res.append((ty, acts[b]))
        if len(node.orelse) == 1 and isinstance(node.orelse[0], ast.If):
            node = node.orelse[0]
            continue
        if len(node.orelse) == 1 and isinstance(node.orelse[0], ast.Raise):
            break
        raise Refuse("StateDiagram.LoadAndTest: chain does not end in raise")
    return res


def diagram_type(tree):
    fn = find_def(tree, "LoadAndTest", "VPPDiagrams")
    found = []
    for n in ast.walk(fn):
        if isinstance(n, ast.If) and isinstance(n.test, ast.Compare) and "index_DIAGRAM_TYPE" in ast.unparse(n.test.left) \
                and any("self.state_diagrams[" in ast.unparse(s) for s in n.body):
            found.append(const_str(n.test.comparators[0], "diagram type"))
    if len(found) != 1:
        raise Refuse("VPPDiagrams.LoadAndTest: state diagram type test not found exactly once")
    return found[0]


def none_literal(tree):
    fn = find_def(tree, "GetTransitionTable", "StateDiagram")
    lits = {n.value for n in ast.walk(fn) if isinstance(n, ast.Constant) and isinstance(n.value, str) and "\n" not in n.value}
    if lits != {"None"}:
        raise Refuse("GetTransitionTable: string literals are %r, expected only 'None'" % sorted(lits))
    return "None"


# ------------------------------------------------------------------ shipped project

def opt(b):
    return "None" if b is None else "(Some %s)" % coq_bs(b)


def tob(x):
    if x is None:
        return None
    return x if isinstance(x, bytes) else str(x).encode("utf-8")


HEAD = re.compile(rb'^([^:{};]*):(NULL|"[^"]*"):(\w+) \{', re.S)
KEYF = re.compile(rb'^\r\n\t(toModel|fromModel|guard|effect)=<([^<>]*)>$', re.S)
KEYC = {b"toModel": "KTo", b"fromModel": "KFrom", b"guard": "KGuard", b"effect": "KEffect"}


def qname(tok):
    return None if tok == b"NULL" else tok[1:-1]


def coq_list(items):
    return "[" + "; ".join(items) + "]"


def read_transition(row):
    mid, _ty, parent, name, blob = row
    m = HEAD.match(blob)
    if not m or m.group(1) != mid or m.group(3) != b"Transition2" or qname(m.group(2)) != name or not blob.endswith(b";\r\n}"):
        raise Refuse("shipped transition blob %r has an unknown shape" % mid)
    pieces = blob[m.end():-len(b"\r\n}")].split(b";")
    if pieces[-1] != b"" or len(pieces) < 2:
        raise Refuse("shipped transition blob %r: fields do not end in ';'" % mid)
    head, rest = pieces[0], pieces[1:-1]
    vals = {"KTo": (None, []), "KFrom": (None, []), "KGuard": (None, []), "KEffect": (None, [])}
    layout = []
    for p in rest:
        k = KEYF.match(p)
        if k:
            ids = k.group(2).split(b":")
            vals[KEYC[k.group(1)]] = (ids[-1], ids[:-1])
            layout.append("FKey %s" % KEYC[k.group(1)])
        else:
            layout.append("FNoise %s" % coq_bs(p))
    if vals["KTo"][0] is None or vals["KFrom"][0] is None:
        raise Refuse("shipped transition %r lacks toModel/fromModel" % mid)
    paths = "; ".join("%s := %s" % (f, coq_list([coq_bs(x) for x in vals[k][1]])) for f, k in
                      (("t_pto", "KTo"), ("t_pfrom", "KFrom"), ("t_pguard", "KGuard"), ("t_peffect", "KEffect")))
    return ("{| t_id := %s; t_name := %s; t_parent := %s; t_from := %s; t_to := %s; t_guard := %s; t_effect := %s; %s;\n"
            "       t_head := %s;\n       t_layout := %s |}" % (
                coq_bs(mid), opt(name), opt(parent), coq_bs(vals["KFrom"][0]), coq_bs(vals["KTo"][0]), opt(vals["KGuard"][0]),
                opt(vals["KEffect"][0]), paths, coq_bs(head), coq_list(layout))), vals


def read_guard(row):
    mid, _ty, parent, name, blob = row
    m = HEAD.match(blob)
    if not m or m.group(1) != mid or qname(m.group(2)) != name:
        raise Refuse("shipped guard blob %r has an unknown shape" % mid)
    gtype = m.group(3)
    body = blob[m.end():]
    mk = re.search(rb'\r\n\t\tvalue_string="([^"]*)";', body, re.S)
    if not mk:
        raise Refuse("shipped guard blob %r: value_string field not found" % mid)
    pieces = body[:mk.start()].split(b";")
    if pieces[-1] != b"" or len(pieces) < 2:
        raise Refuse("shipped guard blob %r: value_string is the first field" % mid)
    return "{| g_id := %s; g_type := %s; g_name := %s; g_parent := %s; g_head := %s; g_pre := %s; g_text := %s; g_post := %s |}" % (
        coq_bs(mid), coq_bs(gtype), opt(name), opt(parent), coq_bs(pieces[0]), coq_list([coq_bs(p) for p in pieces[1:-1]]),
        coq_bs(mk.group(1)), coq_bs(body[mk.end():]))


def plain_elem(row):
    mid, ty, parent, name, blob = row
    return "{| p_id := %s; p_type := %s; p_name := %s; p_parent := %s; p_blob := %s |}" % (
        coq_bs(mid), coq_bs(ty), opt(name), opt(parent), coq_bs(blob))


def shipped(dispatch, state_type):
    path = os.path.join(REPO, BLOB)
    con = sqlite3.connect("file:%s?mode=ro" % path, uri=True)
    try:
        diagrams = [(tob(a), tob(b), tob(c)) for a, b, c in con.execute("SELECT ID, DIAGRAM_TYPE, NAME FROM DIAGRAM")]
        delems = [tuple(tob(x) for x in r) for r in con.execute("SELECT ID, SHAPE_TYPE, DIAGRAM_ID, MODEL_ELEMENT_ID FROM DIAGRAM_ELEMENT")]
        melems = {}
        order = []
        for r in con.execute("SELECT ID, MODEL_TYPE, PARENT_ID, NAME, DEFINITION FROM MODEL_ELEMENT"):
            r = tuple(tob(x) for x in r)
            melems[r[0]] = r
            order.append(r[0])
    finally:
        con.close()
    sds = [d for d in diagrams if d[1] == state_type.encode()]
    if len(sds) != 1:
        raise Refuse("the shipped project has %d state diagrams, expected 1" % len(sds))
    did, _t, dname = sds[0]
    kinds = dict(dispatch)
    elems, used, guards, acts = [], [], [], []
    for (eid, shape, dg, mid) in delems:
        if dg != did:
            continue
        if mid is None or mid not in melems:
            raise Refuse("shipped diagram element %r has no model element" % eid)
        row = melems[mid]
        kind = kinds.get(row[1].decode())
        used.append(mid)
        if shape != row[1]:
            raise Refuse("shipped diagram element %r: SHAPE_TYPE differs from MODEL_TYPE" % eid)
        if kind == "transition":
            rec, vals = read_transition(row)
            elems.append("ETrans %s\n    %s" % (coq_bs(eid), rec))
            for key, lst in (("KGuard", guards), ("KEffect", acts)):
                x = vals[key][0]
                if x is not None and x not in lst:
                    if x not in melems:
                        raise Refuse("shipped transition %r references a missing element" % mid)
                    lst.append(x)
        elif kind in ("init", "state", "pass"):
            elems.append("%s %s %s" % ({"init": "EInit", "state": "EState", "pass": "EOther"}[kind], coq_bs(eid), plain_elem(row)))
        else:
            raise Refuse("shipped state diagram holds an element of unhandled type %r" % row[1])
    used += guards + acts
    others = [i for i in order if i not in used]
    pick = others[:3] + others[len(others) // 2: len(others) // 2 + 2]   # unrelated rows before / between / after
    rows = pick[:3] + [i for i in order if i in used] + pick[3:]
    out = ["From KV Require Import Model.Vpp Model.VppWriter.\n"]
    out.append("Definition shipped_db : db := {|\n  db_diagrams := [\n    %s];\n  db_delems := [\n    %s];\n  db_melems := [\n    %s] |}." % (
        ";\n    ".join("{| dg_id := %s; dg_type := %s; dg_name := %s |}" % (coq_bs(a), coq_bs(b), coq_bs(c)) for a, b, c in diagrams),
        ";\n    ".join("{| de_id := %s; de_shape := %s; de_diagram := %s; de_model := %s |}" % (coq_bs(a), coq_bs(b), coq_bs(c), opt(d))
                       for a, b, c, d in delems),
        ";\n    ".join("{| me_id := %s; me_type := %s; me_parent := %s; me_name := %s; me_blob := %s |}" % (
            coq_bs(melems[i][0]), coq_bs(melems[i][1]), opt(melems[i][2]), opt(melems[i][3]), coq_bs(melems[i][4])) for i in rows)))
    out.append("Definition shipped_name : string := %s.  (* %r *)" % (coq_bs(dname), dname))
    out.append("Definition shipped_D : diagram := {|\n  d_id := %s; d_name := %s;\n  d_elems := [\n    %s];\n  d_guards := [\n    %s];\n  d_acts := [\n    %s] |}." % (
        coq_bs(did), coq_bs(dname), ";\n    ".join(elems), ";\n    ".join(read_guard(melems[g]) for g in guards),
        ";\n    ".join(plain_elem(melems[a]) for a in acts)))
    return "\n".join(out) + "\n"


def run():
    tree = parse(SRC)
    pats = replace_chain(find_def(tree, "mass_replace"), "mass_replace")
    keys, seg_sep = transition_keys(tree)
    gkey, gsep = guard_key(tree)
    idsep = last_id_sep(tree)
    if gsep != seg_sep or len(seg_sep) != 1 or len(idsep) != 1:
        raise Refuse("split characters changed: %r %r %r" % (seg_sep, gsep, idsep))
    disp = type_dispatch(tree)
    dty = diagram_type(tree)
    out = []
    out.append("Definition mass_pats : list string := %s." % coq_str_list(pats))
    out.append("Definition parse_keys : list (string * string) := [\n    %s\n  ]." % ";\n    ".join(
        "(%s, %s)  (* %r -> %s *)" % (coq_bs(k), coq_bs(a), k, a) for k, a in keys))
    out.append("Definition seg_sep : string := %s.  (* %r *)" % (coq_bs(seg_sep), seg_sep))
    out.append("Definition id_sep : string := %s.  (* %r *)" % (coq_bs(idsep), idsep))
    out.append("Definition guard_key : string := %s.  (* %r *)" % (coq_bs(gkey), gkey))
    out.append("Definition type_dispatch : list (string * string) := [\n    %s\n  ]." % ";\n    ".join(
        "(%s, %s)  (* %r -> %s *)" % (coq_bs(k), coq_bs(a), k, a) for k, a in disp))
    out.append("Definition diagram_type_state : string := %s.  (* %r *)" % (coq_bs(dty), dty))
    out.append("Definition none_str : string := %s.  (* %r *)" % (coq_bs(none_literal(tree)), "None"))
    write_gen("VppSrc.v", "\n".join(out) + "\n", [SRC])
    return write_gen("VppShipped.v", shipped(disp, dty), [BLOB, SRC])


if __name__ == "__main__":
    print(run())
