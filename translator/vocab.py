"""umlgen.py / LanguageCPP.py / LanguageCsharp.py / smgen.py  ->  Gen/Vocab.v

The tag vocabulary each generator can expand: every string literal of the form <<<...>>> that occurs in the generator
modules (keys of the replacement dictionaries and the expander tags).  C07's obligation: every tag that occurs in a shipped
template is in the vocabulary of the generator that loads it, or carries an inline default (then do_user_tags consumes it).
"""
import ast
import re
import warnings

from .common import coq_str_list, parse, write_gen

warnings.simplefilter("ignore")
PAT = re.compile(r"<<<([^<>]*)>>>")


def literals(rel):
    res = []
    for n in ast.walk(parse(rel)):
        if isinstance(n, ast.Constant) and isinstance(n.value, str):
            for m in PAT.finditer(n.value):
                if m.group(1) not in res:
                    res.append(m.group(1))
    return res


def run():
    sm = literals("kojen/cgen.py") + [x for x in literals("kojen/smgen.py")]
    uml = literals("kojen/cgen.py") + literals("kojen/umlgen.py") + literals("kojen/LanguageCPP.py") + literals("kojen/LanguageCsharp.py")
    text = "Definition vocab_sm : list string := %s.\n\nDefinition vocab_uml : list string := %s.\n" % (
        coq_str_list(sorted(set(sm))), coq_str_list(sorted(set(uml))))
    return write_gen("Vocab.v", text, ["kojen/cgen.py", "kojen/smgen.py", "kojen/umlgen.py", "kojen/LanguageCPP.py", "kojen/LanguageCsharp.py"])


if __name__ == "__main__":
    print(run())
