"""kojen/umlgen.py + the shipped class-diagram template directories  ->  Gen/UmlSrc.v

Extracted (fail closed) from CUMLGenerator.loadtemplates_firstfiltering: the if/elif chain inside
`for class_uid, classobj in classdiagram.classes.items()`:
  kind_tests      the source text of the branch conditions, in order (Proofs/UmlProofs.v pins them to the ones kind_of models)
  kind_filters    the file-name filter passed to CGenerator.loadtemplates_firstfiltering in each branch
  filename_dicts  dict_to_replace_filenames of each branch, in insertion order; the value `classobj.NAME` is emitted as ""
  template_files / template_files_cs   the file names of classdiagram_templates/CPP and classdiagram_templates/C#
"""
import ast
import os
import warnings

warnings.simplefilter('ignore')

from .common import REPO, Refuse, coq_bs, coq_str_list, const_str, find_def, parse, write_gen

SRC = "kojen/umlgen.py"
TDIRS = [("template_files", "kojen/classdiagram_templates/CPP"), ("template_files_cs", "kojen/classdiagram_templates/C#")]


def branches(tree):
    fn = find_def(tree, "loadtemplates_firstfiltering", "CUMLGenerator")
    loops = [n for n in ast.walk(fn) if isinstance(n, ast.For) and ast.unparse(n.iter) == "classdiagram.classes.items()"]
    if len(loops) != 1:
        raise Refuse("loop over classdiagram.classes.items() not found exactly once")
    lp = loops[0]
    if ast.unparse(lp.target) != "(class_uid, classobj)" or len(lp.body) != 1 or not isinstance(lp.body[0], ast.If):
        raise Refuse("class loop body is not a single if-chain")
    res = []
    node = lp.body[0]
    while True:
        test = ast.unparse(node.test)
        d, flt, placed, merged = [], None, False, False
        for st in node.body:
            src = ast.unparse(st)
            if isinstance(st, ast.Assign) and isinstance(st.targets[0], ast.Subscript) and ast.unparse(st.targets[0].value) == "dict_to_replace_filenames":
                k = const_str(st.targets[0].slice, "file name tag")
                v = "" if ast.unparse(st.value) == "classobj.NAME" else const_str(st.value, "file name text")
                if ast.unparse(st.value) == "classobj.NAME" and d:
                    raise Refuse("classobj.NAME is not the first file name replacement")
                d.append((k, v))
            elif src.startswith("tmp_res = CGenerator.loadtemplates_firstfiltering("):
                c = st.value
                if len(c.args) != 4 or ast.unparse(c.args[2]) != "dict_to_replace_filenames":
                    raise Refuse("unexpected call of CGenerator.loadtemplates_firstfiltering")
                flt = const_str(c.args[3], "template filter")
            elif src == "tmp_res = self.update_filename_path_from_namespace(classobj.NAMESPACE, tmp_res)":
                placed = True
            elif src == "result.filenames_to_lines.update(tmp_res.filenames_to_lines)":
                merged = True
        if not d or d[0][1] != "" or flt is None or not placed or not merged:
            raise Refuse("branch %r: file name dictionary / loader call / placement / merge not recognised" % test)
        res.append((test, flt, d))
        if len(node.orelse) == 1 and isinstance(node.orelse[0], ast.If):
            node = node.orelse[0]
        elif not node.orelse:
            break
        else:
            raise Refuse("class if-chain has an else branch")
    return res


def run():
    tree = parse(SRC)
    br = branches(tree)
    out = []
    out.append("Definition kind_tests : list string := %s." % coq_str_list([b[0] for b in br]))
    out.append("Definition kind_filters : list string := %s." % coq_str_list([b[1] for b in br]))
    out.append("Definition filename_dicts : list (list (string * string)) := [\n    %s\n  ]." % ";\n    ".join(
        "[" + "; ".join("(%s, %s)" % (coq_bs(k), coq_bs(v)) for k, v in b[2]) + "]" for b in br))
    srcs = [SRC]
    for name, rel in TDIRS:
        files = sorted(os.listdir(os.path.join(REPO, rel)))
        out.append("Definition %s : list string := %s." % (name, coq_str_list(files)))
        srcs += [rel + "/" + f for f in files]
    return write_gen("UmlSrc.v", "\n".join(out) + "\n", srcs)


if __name__ == "__main__":
    print(run())
