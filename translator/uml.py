"""kojen/umlgen.py + the shipped class-diagram template directories  ->  Gen/UmlSrc.v

Extracted (fail closed) from CUMLGenerator.loadtemplates_firstfiltering: the if/elif chain inside
`for class_uid, classobj in classdiagram.classes.items()`:
  kind_tests      the source text of the branch conditions, in order (Proofs/UmlProofs.v pins them to the ones kind_of models)
  kind_filters    the file-name filter passed to CGenerator.loadtemplates_firstfiltering in each branch
  filename_dicts  dict_to_replace_filenames of each branch, in insertion order; the value `classobj.NAME` is emitted as ""
  template_files / template_files_cs   the file names of classdiagram_templates/CPP and classdiagram_templates/C#
"""
import ast
import os
import warnings

warnings.simplefilter('ignore')

from .common import REPO, Refuse, coq_bs, coq_str_list, const_str, find_def, parse, write_gen

SRC = "kojen/umlgen.py"
TDIRS = [("template_files", "kojen/classdiagram_templates/CPP"), ("template_files_cs", "kojen/classdiagram_templates/C#")]


def branches(tree):
    fn = find_def(tree, "loadtemplates_firstfiltering", "CUMLGenerator")
    loops = [n for n in ast.walk(fn) if isinstance(n, ast.For) and ast.unparse(n.iter) == "classdiagram.classes.items()"]
    if len(loops) != 1:
        raise Refuse("loop over classdiagram.classes.items() not found exactly once")
    lp = loops[0]
    if ast.unparse(lp.target) != "(class_uid, classobj)" or len(lp.body) != 1 or not isinstance(lp.body[0], ast.If):
        raise Refuse("class loop body is not a single if-chain")
    res = []
    node = lp.body[0]
    while True:
        test = ast.unparse(node.test)
        d, flt, placed, merged = [], None, False, False
        for st in node.body:
            src = ast.unparse(st)
            if isinstance(st, ast.Assign) and isinstance(st.targets[0], ast.Subscript) and ast.unparse(st.targets[0].value) == "dict_to_replace_filenames":
                k = const_str(st.targets[0].slice, "file name tag")
                v = "" if ast.unparse(st.value) == "classobj.NAME" else const_str(st.value, "file name text")
                if ast.unparse(st.value) == "classobj.NAME" and d:
                    raise Refuse("classobj.NAME is not the first file name replacement")
                d.append((k, v))
            elif src.startswith("tmp_res = CGenerator.loadtemplates_firstfiltering("):
                c = st.value
                if len(c.args) != 4 or ast.unparse(c.args[2]) != "dict_to_replace_filenames":
                    raise Refuse("unexpected call of CGenerator.loadtemplates_firstfiltering")
                flt = const_str(c.args[3], "template filter")
            elif src == "tmp_res = self.update_filename_path_from_namespace(classobj.NAMESPACE, tmp_res)":
                placed = True
            elif src == "result.filenames_to_lines.update(tmp_res.filenames_to_lines)":
                merged = True
        if not d or d[0][1] != "" or flt is None or not placed or not merged:
            raise Refuse("branch %r: file name dictionary / loader call / placement / merge not recognised" % test)
        res.append((test, flt, d))
        if len(node.orelse) == 1 and isinstance(node.orelse[0], ast.If):
            node = node.orelse[0]
        elif not node.orelse:
            break
        else:
            raise Refuse("class if-chain has an else branch")
    return res


# ---------------------------------------------------------------- the two language back ends (Gen/UmlCsSrc.v)

LANGS = [("cpp", "kojen/LanguageCPP.py", "LanguageCPP"), ("cs", "kojen/LanguageCsharp.py", "LanguageCsharp")]
OPS_TAGS = ["<<<PUBLIC_OPERATIONS_DECLARE>>>", "<<<PROTECTED_OPERATIONS_DECLARE>>>", "<<<PRIVATE_OPERATIONS_DECLARE>>>", "<<<OPERATIONS_IMPLEMENTATION>>>"]


def no_doc(fn):
    body = fn.body[1:] if (fn.body and isinstance(fn.body[0], ast.Expr) and isinstance(fn.body[0].value, ast.Constant)
                           and isinstance(fn.body[0].value.value, str)) else fn.body
    return "\n".join(ast.unparse(st) for st in body)


def tests_of(fn):
    """the conditions of every if / elif / conditional expression / loop of a function, in source order"""
    nodes = [n for n in ast.walk(fn) if isinstance(n, (ast.If, ast.IfExp, ast.For, ast.While))]
    nodes.sort(key=lambda n: (n.lineno, n.col_offset))
    return [("for " + ast.unparse(n.target) + " in " + ast.unparse(n.iter)) if isinstance(n, ast.For) else ast.unparse(n.test) for n in nodes]


def calls_of(fn, name):
    """source text of the calls self.<name>(...) inside fn, in source order"""
    cs = [n for n in ast.walk(fn) if isinstance(n, ast.Call) and ast.unparse(n.func) == "self." + name]
    cs.sort(key=lambda n: (n.lineno, n.col_offset))
    return [ast.unparse(c) for c in cs]


def language_facts():
    out, srcs = [], []
    for tag, rel, cls in LANGS:
        tree = parse(rel)
        srcs.append(rel)
        ops = find_def(tree, "GetOperationPerVisibility", cls)
        out.append("Definition ops_tests_%s : list string := %s." % (tag, coq_str_list(tests_of(ops))))
        out.append("Definition ops_first_statement_%s : string := %s." % (tag, coq_bs(ast.unparse(
            ops.body[1] if isinstance(ops.body[0], ast.Expr) and isinstance(ops.body[0].value, ast.Constant) else ops.body[0]))))
        out.append("Definition ops_declare_calls_%s : list string := %s." % (tag, coq_str_list(calls_of(ops, "DeclareFunction"))))
        out.append("Definition ops_recursive_calls_%s : list string := %s." % (tag, coq_str_list(calls_of(ops, "GetOperationPerVisibility"))))
        sig = find_def(tree, "GetOperationSignature", cls)
        rets = [ast.unparse(n.value) for n in ast.walk(sig) if isinstance(n, ast.Return)]
        if len(rets) != 1:
            raise Refuse("GetOperationSignature of %s: not exactly one return" % cls)
        out.append("Definition sig_return_%s : string := %s." % (tag, coq_bs(rets[0])))
        out.append("Definition declare_function_%s : string := %s." % (tag, coq_bs(no_doc(find_def(tree, "DeclareFunction", cls)))))
        out.append("Definition parameter_string_%s : string := %s." % (tag, coq_bs(no_doc(find_def(tree, "ParameterString", cls)))))
        out.append("Definition ns_functions_%s : list string := %s." % (tag, coq_str_list(
            [no_doc(find_def(tree, "GetFormatNestedNamespaceBegin", cls)), no_doc(find_def(tree, "GetFormatNestedNamespaceEnd", cls))])))
    # the templates: where the namespace wrap and the operation sections sit
    for name, rel in TDIRS:
        rows = []
        for f in sorted(os.listdir(os.path.join(REPO, rel))):
            text = open(os.path.join(REPO, rel, f), encoding="utf-8", errors="replace").read()
            b, e = text.count("<<<NESTED_NAMESPACE_BEGIN>>>"), text.count("<<<NESTED_NAMESPACE_END>>>")
            wrapped = b == 1 and e == 1 and text.index("<<<NESTED_NAMESPACE_BEGIN>>>") < text.index("<<<NESTED_NAMESPACE_END>>>")
            if (b or e) and not wrapped:
                raise Refuse("template %s: namespace tags not exactly once, in order" % f)
            inner = text[text.index("<<<NESTED_NAMESPACE_BEGIN>>>"):text.index("<<<NESTED_NAMESPACE_END>>>")] if wrapped else ""
            tags = [t for t in OPS_TAGS if t in text]
            if any(t not in inner for t in tags):
                raise Refuse("template %s: an operation section lies outside the namespace wrap" % f)
            if any(text.count(t) != 1 for t in tags):
                raise Refuse("template %s: an operation section occurs twice" % f)
            tags.sort(key=text.index)
            kw = [k for k in ("public class", "public interface", "public enum", "public struct") if k in inner]
            rows.append("(%s, (%s, (%s, %s)))" % (coq_bs(f), "true" if wrapped else "false", coq_str_list(tags).replace("\n", " "), coq_str_list(kw).replace("\n", " ")))
        out.append("Definition %s_layout : list (string * (bool * (list string * list string))) := [\n    %s\n  ]." % (name, ";\n    ".join(rows)))
    # the project-file block of umlgen
    gen = find_def(parse(SRC), "loadtemplates_firstfiltering", "CUMLGenerator")
    proj = [ast.unparse(n) for n in ast.walk(gen) if isinstance(n, ast.Assign) and ast.unparse(n.targets[0]).startswith("dict_to_replace_filenames['Project']")]
    projcall = [ast.unparse(n) for n in ast.walk(gen) if isinstance(n, ast.Call) and ast.unparse(n.func) == "CGenerator.loadtemplates_firstfiltering"
                and isinstance(n.args[-1], ast.Constant) and n.args[-1].value == "Project"]
    names = [ast.unparse(n) for n in ast.walk(gen) if isinstance(n, ast.Assign) and ast.unparse(n.targets[0]).startswith("namespaces_in_project")]
    out.append("Definition project_block : list string := %s." % coq_str_list(proj + projcall + names))
    return write_gen("UmlCsSrc.v", "\n".join(out) + "\n", srcs + [SRC])


# ---------------------------------------------------------------- includes and forward declarations (Gen/UmlInclSrc.v)

INCL_CLASS = [("Class", "GetNotForwardDeclarableNonPrimitiveTypesLinkedToThis"), ("Class", "GetForwardDeclarableNonPrimitiveTypesLinkedToThis"),
              ("Class", "DoAttributesAssociationsReturnTypesOrFunctionParametersRequireVector"), ("Class", "GetAssociationsAsListOfAttributesPerVisibility"),
              ("ClassDiagram", "GetNamespaceDependencies")]
INCL_LANG = [("LanguageCPP", "GetNotForwardDeclarableHeaderIncludes"), ("LanguageCPP", "GetForwardDeclarableHeaderIncludes"), ("LanguageCPP", "GetForwardDeclarations"),
             (None, "_getNamespaceToClassesFromFullyQualifiedNames"), (None, "_filterOutTypesNotInModel"), (None, "_getIncludeStringFromNamespaceToClassMap")]
INCL_TAGS = ["<<<NOT_FORWARD_DECLARABLE_HEADER_INCLUDES>>>", "<<<FORWARD_DECLARABLE_HEADER_INCLUDES>>>", "<<<FORWARD_DECLARATIONS>>>"]


def include_facts():
    vcd = parse("kojen/vppclassdiagram.py")
    cpp = parse("kojen/LanguageCPP.py")
    out = []
    prim = None
    for n in vcd.body:
        if isinstance(n, ast.Assign) and ast.unparse(n.targets[0]) == "PRIMITIVES":
            if not isinstance(n.value, ast.Set):
                raise Refuse("PRIMITIVES is not a set literal")
            prim = sorted({const_str(e, "primitive type") for e in n.value.elts})
    if prim is None:
        raise Refuse("PRIMITIVES not found")
    out.append("Definition primitives : list string := %s." % coq_str_list(prim))
    for cls, fn in ("", "IsTypePrimitive"), ("", "IsTypePointerOrRef"), ("", "CleanModifiersFromType"):
        out.append("Definition src_%s : string := %s." % (fn, coq_bs(no_doc(find_def(vcd, fn)))))
    rows = []
    for cls, fn in INCL_CLASS:
        rows.append("(%s, %s)" % (coq_bs(cls + "." + fn), coq_str_list(tests_of(find_def(vcd, fn, cls))).replace("\n", " ")))
    for cls, fn in INCL_LANG:
        rows.append("(%s, %s)" % (coq_bs((cls + "." if cls else "") + fn), coq_str_list(tests_of(find_def(cpp, fn, cls))).replace("\n", " ")))
    out.append("Definition include_tests : list (string * list string) := [\n    %s\n  ]." % ";\n    ".join(rows))
    # which template has which include section, and the arguments umlgen passes
    lay = []
    for f in sorted(os.listdir(os.path.join(REPO, TDIRS[0][1]))):
        text = open(os.path.join(REPO, TDIRS[0][1], f), encoding="utf-8", errors="replace").read()
        tags = [t for t in INCL_TAGS if t in text]
        if any(text.count(t) != 1 for t in tags):
            raise Refuse("template %s: an include section occurs twice" % f)
        lay.append("(%s, %s)" % (coq_bs(f), coq_str_list(tags).replace("\n", " ")))
    out.append("Definition include_sections : list (string * list string) := [\n    %s\n  ]." % ";\n    ".join(lay))
    gen = find_def(parse(SRC), "loadtemplates_firstfiltering", "CUMLGenerator")
    calls = sorted({ast.unparse(n.value) for n in ast.walk(gen) if isinstance(n, ast.Assign) and isinstance(n.targets[0], ast.Subscript)
                    and isinstance(n.targets[0].slice, ast.Constant) and n.targets[0].slice.value in INCL_TAGS})
    out.append("Definition include_calls : list string := %s." % coq_str_list(calls))
    return write_gen("UmlInclSrc.v", "\n".join(out) + "\n", ["kojen/vppclassdiagram.py", "kojen/LanguageCPP.py", SRC])


def run():
    include_facts()
    language_facts()
    tree = parse(SRC)
    br = branches(tree)
    out = []
    out.append("Definition kind_tests : list string := %s." % coq_str_list([b[0] for b in br]))
    out.append("Definition kind_filters : list string := %s." % coq_str_list([b[1] for b in br]))
    out.append("Definition filename_dicts : list (list (string * string)) := [\n    %s\n  ]." % ";\n    ".join(
        "[" + "; ".join("(%s, %s)" % (coq_bs(k), coq_bs(v)) for k, v in b[2]) + "]" for b in br))
    srcs = [SRC]
    for name, rel in TDIRS:
        files = sorted(os.listdir(os.path.join(REPO, rel)))
        out.append("Definition %s : list string := %s." % (name, coq_str_list(files)))
        srcs += [rel + "/" + f for f in files]
    return write_gen("UmlSrc.v", "\n".join(out) + "\n", srcs)


if __name__ == "__main__":
    print(run())
