"""smgen.py / cgen.py  ->  Gen/Pipeline.v

Extracted (fail closed):
  second_stages        smgen.CStateMachineGenerator.expand_secondfiltering: the ordered expander stages applied to every file,
                       as tuples (kind, begin tag, end tag, inner function, collection / extra arguments)
                         kind "Init"   : filterInitialState
                         kind "Single" : SingleExpander(tag).Expand(lines, self.<inner>, smmodel, extra...)
                         kind "Pair"   : PairExpander(begin, end).Expand(lines, self.<inner>, <collection>)
  second_stages_iface  the stages inside `if self.events_interface:` (collections are methods of the interface)
  generate_phases      smgen.CStateMachineGenerator.Generate: the ordered phases
                         model, events_from_structs, load, expand, usertags, for, preserve, write, copy, return
  for_stage            cgen.CGenerator.do_for: (begin tag, end tag, inner function)
  init_state_tags      smgen.filterInitialState: the (tag, variant) chain of .replace calls
"""
import ast

from .common import Refuse, coq_bs, find_def, module_consts, parse, write_gen

SOURCES = ["kojen/smgen.py", "kojen/cgen.py"]


def tagval(node, consts, what):
    if isinstance(node, ast.Name) and node.id in consts:
        return consts[node.id]
    raise Refuse("%s: expected a __TAG_*__ constant, got %s" % (what, ast.dump(node)))


def expander_call(value, consts):
    """<Kind>Expander(tags...).Expand(all_lines_expanded, self.<inner>, args...) -> (kind, tags, inner, args)"""
    if not (isinstance(value, ast.Call) and isinstance(value.func, ast.Attribute) and value.func.attr == "Expand"
            and isinstance(value.func.value, ast.Call) and isinstance(value.func.value.func, ast.Name)):
        raise Refuse("expand_secondfiltering: unrecognised stage " + ast.dump(value)[:200])
    ctor = value.func.value
    kind = {"SingleExpander": "Single", "PairExpander": "Pair"}.get(ctor.func.id)
    if kind is None or ctor.keywords or value.keywords:
        raise Refuse("expand_secondfiltering: unknown expander " + ctor.func.id)
    tags = [tagval(a, consts, "expander tag") for a in ctor.args]
    if len(tags) != (1 if kind == "Single" else 2):
        raise Refuse("expand_secondfiltering: wrong number of tags for " + ctor.func.id)
    args = value.args
    if len(args) < 3 or not (isinstance(args[0], ast.Name) and args[0].id == "all_lines_expanded"):
        raise Refuse("expand_secondfiltering: stage does not consume all_lines_expanded")
    if not (isinstance(args[1], ast.Attribute) and isinstance(args[1].value, ast.Name) and args[1].value.id == "self"):
        raise Refuse("expand_secondfiltering: inner function is not a method of self")
    inner = args[1].attr
    rest = []
    for a in args[2:]:
        if isinstance(a, ast.Name):
            rest.append(a.id)
        elif isinstance(a, ast.Constant):
            rest.append(repr(a.value))
        elif isinstance(a, ast.Attribute) and isinstance(a.value, ast.Name):
            rest.append(a.value.id + "." + a.attr)
        elif isinstance(a, ast.Call) and not a.args and isinstance(a.func, ast.Attribute) and isinstance(a.func.value, ast.Attribute):
            rest.append(a.func.value.attr + "." + a.func.attr + "()")
        else:
            raise Refuse("expand_secondfiltering: unrecognised argument " + ast.dump(a)[:200])
    return kind, tags, inner, rest


def stage_of(stmt, consts):
    if not (isinstance(stmt, ast.Assign) and len(stmt.targets) == 1 and isinstance(stmt.targets[0], ast.Name)
            and stmt.targets[0].id == "all_lines_expanded"):
        raise Refuse("expand_secondfiltering: unrecognised statement " + ast.dump(stmt)[:200])
    v = stmt.value
    if isinstance(v, ast.Call) and isinstance(v.func, ast.Attribute) and v.func.attr == "filterInitialState":
        return ("Init", "", "", "filterInitialState", "")
    kind, tags, inner, rest = expander_call(v, consts)
    return (kind, tags[0], tags[1] if kind == "Pair" else "", inner, ",".join(rest))


def second_stages(sm, consts):
    fn = find_def(sm, "expand_secondfiltering", "CStateMachineGenerator")
    if len(fn.body) != 1 or not isinstance(fn.body[0], ast.For):
        raise Refuse("expand_secondfiltering: body is not a single for loop")
    main, iface = [], []
    body = fn.body[0].body
    for i, st in enumerate(body):
        if isinstance(st, ast.If):
            if ast.unparse(st.test) != "self.events_interface" or st.orelse:
                raise Refuse("expand_secondfiltering: unrecognised condition " + ast.unparse(st.test))
            if iface:
                raise Refuse("expand_secondfiltering: two interface sections")
            iface = [stage_of(s, consts) for s in st.body]
        elif i == len(body) - 1:
            if ast.unparse(st) != "cmmodel.filenames_to_lines[file] = all_lines_expanded":
                raise Refuse("expand_secondfiltering: last statement is not the store")
        else:
            if iface:
                raise Refuse("expand_secondfiltering: stage after the interface section")
            main.append(stage_of(st, consts))
    return main, iface


PHASE_PATTERNS = [
    ("model", "sm = CTransitionTableModel(transitiontable, namespacenname, statemachinename, dclspc)"),
    ("load", "cm = self.loadtemplates_firstfiltering(sm)"),
    ("expand", "self.expand_secondfiltering(sm, cm)"),
    ("for", "self.do_for(cm)"),
    ("preserve", "self.preserve_usercode_in_files(cm)"),
    ("write", "res = self.createoutput(cm.filenames_to_lines)"),
    ("return", "return res"),
]


def generate_phases(sm):
    fn = find_def(sm, "Generate", "CStateMachineGenerator")
    phases = []
    for st in fn.body:
        src = ast.unparse(st)
        if isinstance(st, ast.Expr) and isinstance(st.value, ast.Constant):
            continue  # string used as comment
        if isinstance(st, ast.Expr) and isinstance(st.value, ast.Call) and isinstance(st.value.func, ast.Name) and st.value.func.id == "print":
            continue
        hit = [n for n, p in PHASE_PATTERNS if src == p]
        if hit:
            phases.append(hit[0])
        elif isinstance(st, ast.For) and ast.unparse(st.iter) == "self.events_interface.Structs()" \
                and ast.unparse(st.body[0]) == "if not e.Name in sm.events:\n    sm.events.append(e.Name)" and len(st.body) == 1:
            phases.append("events_from_structs")
        elif isinstance(st, ast.If) and ast.unparse(st.test) == "self.events_interface != None" and len(st.body) == 1 \
                and ast.unparse(st.body[0]) == "self.do_user_tags(cm, self.events_interface.UserTags())" and not st.orelse:
            phases.append("usertags")
        elif isinstance(st, ast.If) and ast.unparse(st.test) == "isinstance(self.language, LanguageCPP) and copyotherfiles":
            phases.append("copy")
        else:
            raise Refuse("Generate: unrecognised statement: " + src[:200])
    return phases


def for_stage(cg, consts):
    fn = find_def(cg, "do_for", "CGenerator")
    for n in ast.walk(fn):
        if isinstance(n, ast.Assign) and isinstance(n.targets[0], ast.Name) and n.targets[0].id == "new_lines":
            v = n.value
            if not (isinstance(v, ast.Call) and isinstance(v.func, ast.Attribute) and v.func.attr == "Expand"
                    and isinstance(v.func.value, ast.Call) and ast.unparse(v.func.value.func) == "PairExpander"
                    and len(v.args) == 2 and ast.unparse(v.args[0]) == "lines"):
                raise Refuse("do_for: unrecognised expansion " + ast.unparse(v))
            tags = [tagval(a, consts, "do_for tag") for a in v.func.value.args]
            if len(tags) != 2 or not ast.unparse(v.args[1]).startswith("self."):
                raise Refuse("do_for: unrecognised expansion " + ast.unparse(v))
            return tags[0], tags[1], ast.unparse(v.args[1])[5:]
    raise Refuse("do_for: no PairExpander stage found")


def init_state_tags(sm, consts):
    fn = find_def(sm, "filterInitialState", "CStateMachineGenerator")
    res = []
    for n in ast.walk(fn):
        if isinstance(n, ast.Call) and isinstance(n.func, ast.Attribute) and n.func.attr == "replace" and len(n.args) == 2:
            tag = tagval(n.args[0], consts, "filterInitialState tag")
            variant = ast.unparse(n.args[1])
            v = {"smmodel.getfirststate()": "asis", "camel_case_small(smmodel.getfirststate())": "camel"}.get(variant)
            if v is None:
                raise Refuse("filterInitialState: unrecognised replacement " + variant)
            res.append((tag, v))
    res.reverse()  # ast.walk meets the outer call first; source order is inner first
    return res


def tuple5(t):
    return "(%s, %s, %s, %s, %s)" % tuple(coq_bs(x) for x in t)


def stage_list(name, stages):
    if not stages:
        return "Definition %s : list (string * string * string * string * string) := []." % name
    return "Definition %s : list (string * string * string * string * string) := [\n    %s\n  ]." % (
        name, ";\n    ".join("%s  (* %s *)" % (tuple5(s), " | ".join(s)) for s in stages))


def run():
    sm = parse("kojen/smgen.py")
    cg = parse("kojen/cgen.py")
    sm_consts = dict(module_consts(cg))
    sm_consts.update(module_consts(sm))
    main, iface = second_stages(sm, sm_consts)
    phases = generate_phases(sm)
    fb, fe, finner = for_stage(cg, module_consts(cg))
    out = [stage_list("second_stages", main), stage_list("second_stages_iface", iface)]
    out.append("Definition generate_phases : list string := [%s].  (* %s *)" % ("; ".join(coq_bs(p) for p in phases), " ".join(phases)))
    out.append("Definition for_stage : string * string * string := (%s, %s, %s).  (* %s %s %s *)" % (
        coq_bs(fb), coq_bs(fe), coq_bs(finner), fb, fe, finner))
    ist = init_state_tags(sm, sm_consts)
    out.append("Definition init_state_tags : list (string * string) := [%s]." % "; ".join("(%s, %s)" % (coq_bs(a), coq_bs(b)) for a, b in ist))
    return write_gen("Pipeline.v", "\n".join(out) + "\n", SOURCES)


if __name__ == "__main__":
    print(run())
