"""kojentypes.py / allplatforms/CPP/basetypes.h  ->  Gen/LayoutSrc.v   (C12)

Extracted (fail closed):
  src_hdr_name      class MessageHeader:  Name = <literal>
  src_hdr_fields    MessageHeader.__init__:  self[self.<Getter>()] = <type literal>   in source order, the getter resolved to
                    the literal it returns
  src_hdr_member    Message.HeaderName: return <literal>
  src_typedefs      basetypes.h, the `#elif defined(__GNUC__) || defined(__clang__)` block of the non-boost branch:
                    typedef <C type> <name>;   (the __LP64__ alternative for int64/uint64)
"""
import ast
import re

from .common import Refuse, coq_bs, const_str, find_def, parse, src, write_gen

SOURCES = ["kojen/kojentypes.py", "kojen/allplatforms/CPP/basetypes.h"]


def getter_literal(tree, cls, name):
    fn = find_def(tree, name, cls)
    if len(fn.body) != 1 or not isinstance(fn.body[0], ast.Return):
        raise Refuse("%s.%s is not a single return" % (cls, name))
    return const_str(fn.body[0].value, "%s.%s" % (cls, name))


def class_attr(tree, cls, attr):
    for n in tree.body:
        if isinstance(n, ast.ClassDef) and n.name == cls:
            for s in n.body:
                if isinstance(s, ast.Assign) and len(s.targets) == 1 and isinstance(s.targets[0], ast.Name) and s.targets[0].id == attr:
                    return const_str(s.value, "%s.%s" % (cls, attr))
    raise Refuse("%s.%s not found" % (cls, attr))


def header_fields(tree):
    init = find_def(tree, "__init__", "MessageHeader")
    res = []
    for s in init.body:
        if isinstance(s, ast.Assign) and len(s.targets) == 1 and isinstance(s.targets[0], ast.Subscript) \
                and isinstance(s.targets[0].value, ast.Name) and s.targets[0].value.id == "self":
            key = s.targets[0].slice
            if not (isinstance(key, ast.Call) and isinstance(key.func, ast.Attribute) and isinstance(key.func.value, ast.Name)
                    and key.func.value.id == "self" and not key.args):
                raise Refuse("MessageHeader.__init__: unexpected key " + ast.dump(key))
            res.append((getter_literal(tree, "MessageHeader", key.func.attr), const_str(s.value, "header field type")))
    if not res:
        raise Refuse("MessageHeader.__init__: no field assignments found")
    return res


def typedefs(text):
    m = re.search(r"#elif defined\(__GNUC__\) \|\| defined\(__clang__\)\s*\n(.*?)#endif // defined\(_MSC_VER\)", text, re.S)
    if not m:
        raise Refuse("basetypes.h: GCC typedef block not found")
    res, state = [], "all"
    for line in m.group(1).split("\n"):
        l = line.strip()
        if not l or l.startswith("//"):
            continue
        if l.startswith("#if defined(__LP64__)"):
            state = "lp64"
        elif l.startswith("#else"):
            state = "skip"
        elif l.startswith("#endif"):
            state = "all"
        elif l.startswith("#"):
            raise Refuse("basetypes.h: unexpected directive %r" % l)
        else:
            mm = re.match(r"^typedef\s+([a-z ]+?)\s+(\w+);$", l)
            if not mm:
                raise Refuse("basetypes.h: unexpected line %r" % l)
            if state != "skip":
                res.append((mm.group(2), " ".join(mm.group(1).split())))
    return res


def run():
    kt = parse("kojen/kojentypes.py")
    fields = header_fields(kt)
    tds = typedefs(src("kojen/allplatforms/CPP/basetypes.h").decode("utf-8"))
    out = []
    out.append("Definition src_hdr_name : string := %s.  (* %r *)" % (coq_bs(class_attr(kt, "MessageHeader", "Name")), class_attr(kt, "MessageHeader", "Name")))
    hm = getter_literal(kt, "Message", "HeaderName")
    out.append("Definition src_hdr_member : string := %s.  (* %r *)" % (coq_bs(hm), hm))
    out.append("Definition src_hdr_fields : list (string * string) := [\n    %s\n  ]." % ";\n    ".join(
        "(%s, %s)  (* %s : %s *)" % (coq_bs(n), coq_bs(t), n, t) for n, t in fields))
    out.append("Definition src_typedefs : list (string * string) := [\n    %s\n  ]." % ";\n    ".join(
        "(%s, %s)  (* %s = %s *)" % (coq_bs(n), coq_bs(t), n, t) for n, t in tds))
    return write_gen("LayoutSrc.v", "\n".join(out) + "\n", SOURCES)


if __name__ == "__main__":
    print(run())
