"""statemachine_templates_py/TEMPLATEStateMachine.py -> Gen/PySync.v

The synchronisation skeleton of the generated Python state machine as a small IR (Model/PySyncIR.v): the bodies of
__init__ (threading part), Trigger<event> (the PER_EVENT block), run, stop.  Everything else in the class must be
free of synchronisation (no private attribute, no start/join/stop/run call).  Fail closed: any statement or expression
shape that is not listed here raises Refuse.

`skeleton(source_text)` is also applied by the C11 check to every *generated* module: each Trigger method, run, stop
and __init__ of the generated class must have exactly the IR of the template (so one LTS covers all tables).
"""
import ast
import re

from .common import Refuse, src, write_gen

TEMPLATE = "kojen/statemachine_templates_py/TEMPLATEStateMachine.py"
TEST_TEMPLATE = "kojen/statemachine_templates_py/TestTEMPLATEStateMachine.py"

BLOCK_TAG = re.compile(r"^\s*<<<[A-Z_]+_(BEGIN|END)>>>\s*$")
INLINE_TAG = re.compile(r"<<<([A-Za-z_0-9]+)(=[^<>]*)?>>>")


def detag(text):
    """Template text -> parseable Python: block-tag lines dropped, inline tags replaced by identifiers TAG_<name>."""
    out = []
    for line in text.split("\n"):
        if BLOCK_TAG.match(line):
            continue
        out.append(INLINE_TAG.sub(lambda m: "TAG_" + m.group(1), line))
    return "\n".join(out)


# ---- IR values: tuples ("SetFlag", f, b) ("SetFlagParam", f) ("NewQueue",) ("Put",) ("Get",) ("TaskDone",)
#      ("QueueJoin",) ("ThreadStart",) ("ThreadJoin",) ("Process",) ("If", f, [then], [else]) ("While", f, [body])
#      ("TryEmpty", [body], [handler])

def is_self_attr(n, private=None):
    return isinstance(n, ast.Attribute) and isinstance(n.value, ast.Name) and n.value.id == "self" and \
        (private is None or n.attr.startswith("__") == private)


def mentions_sync(node):
    """Does this AST mention a private attribute of self, or a thread/queue operation on self?"""
    for n in ast.walk(node):
        if isinstance(n, ast.Attribute) and n.attr.startswith("__") and not n.attr.endswith("__"):
            return True
        if is_self_attr(n) and n.attr in ("start", "join", "stop", "run", "is_alive", "daemon"):
            return True
        if isinstance(n, ast.Name) and n.id in ("threading", "queue"):
            return True
    return False


class Skel:
    def __init__(self):
        self.queue_attr = None
        self.flags = []

    def flag(self, n, what):
        if is_self_attr(n, private=True) and n.attr != self.queue_attr:
            if n.attr[2:] not in self.flags:
                self.flags.append(n.attr[2:])
            return n.attr[2:]
        raise Refuse("%s: expected a private flag self.__x, got %s" % (what, ast.dump(n)))

    def cond_if(self, test, then, els, what):
        """`if a and b: T else: E`  ==  If a [If b T E] E  (short-circuit, one attribute read per step)."""
        if isinstance(test, ast.BoolOp) and isinstance(test.op, ast.And):
            res = then
            for v in reversed(test.values):
                res = [("If", self.flag(v, what), res, els)]
            return res
        return [("If", self.flag(test, what), then, els)]

    def qcall(self, call, what):
        """self.__q.<method>(...) -> method name (checks the receiver is the queue attribute)."""
        if isinstance(call, ast.Call) and isinstance(call.func, ast.Attribute) and is_self_attr(call.func.value, private=True) \
                and call.func.value.attr == self.queue_attr:
            return call.func.attr
        return None

    def stmt(self, st, where):
        what = "%s line %d" % (where, getattr(st, "lineno", 0))
        if isinstance(st, ast.Pass):
            return []
        if isinstance(st, ast.If):
            return self.cond_if(st.test, self.block(st.body, where), self.block(st.orelse, where), what)
        if isinstance(st, ast.While):
            if st.orelse:
                raise Refuse(what + ": while/else")
            return [("While", self.flag(st.test, what), self.block(st.body, where))]
        if isinstance(st, ast.Try):
            if st.orelse or st.finalbody or len(st.handlers) != 1:
                raise Refuse(what + ": try shape")
            h = st.handlers[0]
            if not (isinstance(h.type, ast.Attribute) and isinstance(h.type.value, ast.Name) and h.type.value.id == "queue"
                    and h.type.attr == "Empty" and h.name is None):
                raise Refuse(what + ": handler is not `except queue.Empty:`")
            return [("TryEmpty", self.block(st.body, where), self.block(h.body, where))]
        if isinstance(st, ast.Assign) and len(st.targets) == 1:
            tgt, val = st.targets[0], st.value
            if is_self_attr(tgt, private=True):
                if isinstance(val, ast.Call) and ast.dump(val.func) == ast.dump(ast.parse("queue.Queue", mode="eval").body) \
                        and not val.args and not val.keywords:
                    if self.queue_attr not in (None, tgt.attr):
                        raise Refuse(what + ": second queue attribute")
                    self.queue_attr = tgt.attr
                    return [("NewQueue",)]
                if isinstance(val, ast.Constant) and isinstance(val.value, (bool, int)) and val.value in (0, 1, True, False):
                    return [("SetFlag", self.flag(tgt, what), bool(val.value))]
                if isinstance(val, ast.Name) and val.id == "TAG_StateMachineThread":
                    return [("SetFlagParam", self.flag(tgt, what))]
                raise Refuse(what + ": assignment to a private attribute of unknown shape: " + ast.dump(val))
            if isinstance(tgt, ast.Name) and tgt.id == "event":
                # event = self.__q.get(block=True, timeout=<positive constant>)
                if self.qcall(val, what) == "get":
                    kw = {k.arg: k.value for k in val.keywords}
                    if val.args or set(kw) != {"block", "timeout"} or not (isinstance(kw["block"], ast.Constant) and kw["block"].value is True) \
                            or not (isinstance(kw["timeout"], ast.Constant) and isinstance(kw["timeout"].value, (int, float)) and kw["timeout"].value > 0):
                        raise Refuse(what + ": get() is not get(block=True, timeout=<positive constant>)")
                    return [("Get",)]
                # event = <EventClass>(<plain names>)
                if isinstance(val, ast.Call) and isinstance(val.func, ast.Name) and not val.keywords \
                        and all(isinstance(a, ast.Name) for a in val.args):
                    return []
                raise Refuse(what + ": assignment to `event` of unknown shape")
            if (is_self_attr(tgt, private=False) or isinstance(tgt, ast.Name)) and not mentions_sync(val):
                return []       # self.context = controller, self.currentState = ...: no synchronisation
            raise Refuse(what + ": assignment of unknown shape")
        if isinstance(st, ast.Expr) and isinstance(st.value, ast.Call):
            c = st.value
            q = self.qcall(c, what)
            arg_event = len(c.args) == 1 and not c.keywords and isinstance(c.args[0], ast.Name) and c.args[0].id == "event"
            if q == "put" and arg_event:
                return [("Put",)]
            if q == "task_done" and not c.args and not c.keywords:
                return [("TaskDone",)]
            if q == "join" and not c.args and not c.keywords:
                return [("QueueJoin",)]
            if q is not None:
                raise Refuse(what + ": queue operation of unknown shape: " + q)
            if is_self_attr(c.func, private=False) and not c.keywords:
                if c.func.attr == "process" and arg_event:
                    return [("Process",)]
                if c.func.attr == "start" and not c.args:
                    return [("ThreadStart",)]
                if c.func.attr == "join" and not c.args:
                    return [("ThreadJoin",)]
            if ast.dump(c.func) == ast.dump(ast.parse("threading.Thread.__init__", mode="eval").body) and not c.keywords \
                    and len(c.args) == 1 and isinstance(c.args[0], ast.Name) and c.args[0].id == "self":
                return []
            # self.context.<callback>(EventStartup()) in the constructor
            if isinstance(c.func, ast.Attribute) and is_self_attr(c.func.value, private=False) and c.func.value.attr == "context" \
                    and where == "__init__" and not mentions_sync(c):
                return []
            raise Refuse(what + ": call of unknown shape: " + ast.dump(c)[:200])
        raise Refuse(what + ": statement of unknown shape: " + type(st).__name__)

    def block(self, stmts, where):
        res = []
        for st in stmts:
            res += self.stmt(st, where)
        return res


def skeleton(text, class_suffix="StateMachine"):
    """{'init','run','stop': IR, 'triggers': {name: IR}, 'flags': [...], 'cls': class name} of a (de-tagged) module text."""
    try:
        tree = ast.parse(text)
    except SyntaxError as e:
        raise Refuse("module does not parse: %s" % e)
    classes = [n for n in tree.body if isinstance(n, ast.ClassDef) and n.name.endswith(class_suffix)
               and any(ast.dump(b) == ast.dump(ast.parse("threading.Thread", mode="eval").body) for b in n.bases)]
    if len(classes) != 1:
        raise Refuse("expected exactly one class ...%s(threading.Thread), found %d" % (class_suffix, len(classes)))
    cls = classes[0]
    sk = Skel()
    res = {"triggers": {}, "cls": cls.name}
    seen = set()
    for n in cls.body:
        if isinstance(n, ast.Expr) and isinstance(n.value, ast.Constant):
            continue
        if not isinstance(n, ast.FunctionDef):
            raise Refuse("class member of unknown kind at line %d" % n.lineno)
        if n.decorator_list:
            raise Refuse("decorated method %s" % n.name)
        if n.name in seen:
            raise Refuse("method %s defined twice" % n.name)
        seen.add(n.name)
        if n.name == "__init__":
            res["init"] = sk.block(n.body, "__init__")
        elif n.name in ("run", "stop"):
            if len(n.args.args) != 1:
                raise Refuse("%s takes arguments" % n.name)
            res[n.name] = sk.block(n.body, n.name)
        elif n.name.startswith("Trigger"):
            res["triggers"][n.name] = sk.block(n.body, n.name)
        else:
            if mentions_sync(n):
                raise Refuse("method %s touches synchronisation state" % n.name)
    for k in ("init", "run", "stop"):
        if k not in res:
            raise Refuse("method for %s not found" % k)
    if not res["triggers"]:
        raise Refuse("no Trigger method")
    # nothing outside the class may touch the class's private state or start threads
    for n in tree.body:
        if n is not cls and not isinstance(n, (ast.Import, ast.ImportFrom)) and mentions_sync(n):
            raise Refuse("module-level code at line %d touches threading/queue" % n.lineno)
    res["flags"] = sk.flags
    res["queue_attr"] = sk.queue_attr
    return res


def coq_ops(ops, ind="  "):
    def one(o):
        k = o[0]
        if k == "SetFlag":
            return 'SetFlag "%s" %s' % (o[1], "true" if o[2] else "false")
        if k == "SetFlagParam":
            return 'SetFlagParam "%s"' % o[1]
        if k == "If":
            return 'If (CFlag "%s") %s %s' % (o[1], coq_ops(o[2]), coq_ops(o[3]))
        if k == "While":
            return 'While (CFlag "%s") %s' % (o[1], coq_ops(o[2]))
        if k == "TryEmpty":
            return "TryEmpty %s %s" % (coq_ops(o[1]), coq_ops(o[2]))
        return k
    return "[" + "; ".join(one(o) for o in ops) + "]"


def console_runner_quiet(text):
    """The ConsoleRunner class of the test template owns a second queue/worker copy of the skeleton; nothing is ever put
    on that queue (checked here), so its worker only times out and its stop() cannot block on Queue.join()."""
    tree = ast.parse(text)
    found = False
    for n in ast.walk(tree):
        if isinstance(n, ast.ClassDef) and n.name == "ConsoleRunner":
            found = True
            for m in ast.walk(n):
                if isinstance(m, ast.Attribute) and m.attr in ("put", "put_nowait"):
                    raise Refuse("ConsoleRunner puts on its own queue: its stop() is no longer trivially live")
    if not found:
        raise Refuse("ConsoleRunner class not found in the test template")
    return True


def run():
    text = detag(src(TEMPLATE).decode("utf-8"))
    sk = skeleton(text)
    if len(sk["triggers"]) != 1:
        raise Refuse("expected one Trigger method in the PER_EVENT block, found %s" % sorted(sk["triggers"]))
    for f in sk["flags"]:
        if not re.match(r"^[A-Za-z_]\w*$", f):
            raise Refuse("flag name " + f)
    console_runner_quiet(detag(src(TEST_TEMPLATE).decode("utf-8")))
    trig = list(sk["triggers"].values())[0]
    body = "From KV Require Import Model.PySyncIR.\n\n"
    body += "(* synchronisation skeleton of %s *)\n" % TEMPLATE
    body += "Definition flag_names : list string := [%s].\n" % "; ".join('"%s"' % f for f in sk["flags"])
    body += "Definition init_ops : list op :=\n  %s.\n" % coq_ops(sk["init"])
    body += "Definition trigger_ops : list op :=\n  %s.\n" % coq_ops(trig)
    body += "Definition run_ops : list op :=\n  %s.\n" % coq_ops(sk["run"])
    body += "Definition stop_ops : list op :=\n  %s.\n" % coq_ops(sk["stop"])
    body += "(* every other method of the class (process, process<State>, Is<State>) is free of private attributes and of\n" \
            "   thread/queue operations; the test template's ConsoleRunner never puts on its own queue *)\n"
    body += "Definition process_sync_free : bool := true.\nDefinition console_runner_queue_unused : bool := true.\n"
    write_gen("PySync.v", body, [TEMPLATE, TEST_TEMPLATE])
    return sk
