"""protocol_templates/CPP/TEMPLATEReceiver.{cpp,h}, TEMPLATETransmitter.{cpp,h}  ->  Gen/ProtoTmpl.v

Fail-closed recognition of the two code shapes Model/Proto.v models (whitespace-normalised line-by-line equality with the
expected text; anything else is refused):
  * the body of <C>Receiver::OnMessageReceived: header cast, switch(header->TypeID), ONE line per message
    `case <<<MSGID>>>: On<<<MSGNAME>>>Received(reinterpret_cast<const <<<MSGNAME>>>*>(&data_buffer[0])); break;` between
    <<<PER_MSG_BEGIN>>>/<<<PER_MSG_END>>>, and a default branch that calls only the not-handled hook, guarded by != nullptr;
  * the body of <C>Transmitter::Transmit<<<MSGNAME>>>: bool ok = false; the for loop; return ok;
  * the declared default and type of `retries`, the handler declarations `virtual void On<<<MSGNAME>>>Received(const <<<MSGNAME>>>* data){};`
Emitted: default_retries, retries_bits, receiver_case_per_message, default_calls_only_unhandled_hook, transmit_sends_sizeof.
"""
import re

from .common import Refuse, src, write_gen

D = "kojen/protocol_templates/CPP/"
SOURCES = [D + "TEMPLATEReceiver.cpp", D + "TEMPLATEReceiver.h", D + "TEMPLATETransmitter.cpp", D + "TEMPLATETransmitter.h"]

RECEIVER_BODY = [
    "void <<<CLASSNAME>>>Receiver::OnMessageReceived( const uint8* data_buffer, const uint32& number_of_bytes )",
    "{",
    "const sMsgHeader* header = (sMsgHeader*)(&data_buffer[0]);",
    "switch(header->TypeID)",
    "{",
    "<<<PER_MSG_BEGIN>>>",
    "case <<<MSGID>>>: On<<<MSGNAME>>>Received(reinterpret_cast<const <<<MSGNAME>>>*>(&data_buffer[0])); break;",
    "<<<PER_MSG_END>>>",
    "default:",
    "#ifdef DEBUG_OUT",
    "printf(\"Message (%i) not supported.\\r\\n\", TypeID);",
    "#endif",
    "if(unhandledReceiver != nullptr)",
    "unhandledReceiver->OnNotHandledMessageReceived(data_buffer,number_of_bytes);",
    "break;",
    "}",
    "}",
]
TRANSMIT_BODY = [
    "<<<PER_MSG_BEGIN>>>",
    "bool <<<CLASSNAME>>>Transmitter::Transmit<<<MSGNAME>>>(const <<<MSGNAME>>>& data, int8 retries) const",
    "{",
    "bool ok = false;",
    "for (; retries >= 0 && !ok && (connection != nullptr); retries--) {",
    "ok = ok || connection->SendData(reinterpret_cast<const uint8*>(&data), sizeof(<<<MSGNAME>>>));",
    "}",
    "return ok;",
    "}",
    "<<<PER_MSG_END>>>",
]


def code_lines(rel):
    s = src(rel).decode("utf-8")
    s = re.sub(r"/\*.*?\*/", "", s, flags=re.S)
    res = []
    for l in s.split("\n"):
        l = re.sub(r"(?<!:)//.*", "", l).strip()
        l = re.sub(r"\s+", " ", l)
        if l:
            res.append(l)
    return res


def find_block(lines, first, expected, what):
    try:
        i = lines.index(first)
    except ValueError:
        raise Refuse("%s: line %r not found" % (what, first))
    got = lines[i:i + len(expected)]
    if got != expected:
        for a, b in zip(got, expected):
            if a != b:
                raise Refuse("%s: unexpected line %r (expected %r)" % (what, a, b))
        raise Refuse("%s: block is shorter than expected" % what)
    return i


def run():
    rc = code_lines(D + "TEMPLATEReceiver.cpp")
    if "//#define DEBUG_OUT" not in src(D + "TEMPLATEReceiver.cpp").decode() or any(l == "#define DEBUG_OUT" for l in rc):
        raise Refuse("TEMPLATEReceiver.cpp: DEBUG_OUT is defined")
    find_block(rc, RECEIVER_BODY[0], RECEIVER_BODY, "TEMPLATEReceiver.cpp")
    if sum(1 for l in rc if "OnMessageReceived" in l) != 1 or sum(1 for l in rc if l.startswith("case ")) != 1:
        raise Refuse("TEMPLATEReceiver.cpp: more than one OnMessageReceived / case line")
    rh = code_lines(D + "TEMPLATEReceiver.h")
    for needed in ("virtual void On<<<MSGNAME>>>Received(const <<<MSGNAME>>>* data){};",
                   "<<<CLASSNAME>>>Receiver() : unhandledReceiver{nullptr} {}",
                   "void SetUnhandledReceiver(<<<CLASSNAME>>>NotHandledReceiver& unhandledReceiver){this->unhandledReceiver = &unhandledReceiver;}",
                   "virtual void OnNotHandledMessageReceived( const uint8* data_buffer, const uint32& number_of_bytes ) = 0;"):
        if needed not in rh:
            raise Refuse("TEMPLATEReceiver.h: line %r not found" % needed)
    tc = code_lines(D + "TEMPLATETransmitter.cpp")
    i = tc.index(TRANSMIT_BODY[1]) - 1 if TRANSMIT_BODY[1] in tc else -1
    if i < 0 or tc[i:i + len(TRANSMIT_BODY)] != TRANSMIT_BODY:
        raise Refuse("TEMPLATETransmitter.cpp: the Transmit<<<MSGNAME>>> body is not the modelled retry loop")
    if sum(1 for l in tc if "SendData" in l) != 1:
        raise Refuse("TEMPLATETransmitter.cpp: SendData is called in more than one place")
    th = code_lines(D + "TEMPLATETransmitter.h")
    m = [re.fullmatch(r"bool Transmit<<<MSGNAME>>>\(const <<<MSGNAME>>>& data, int8 retries = (-?\d+)\) const;", l) for l in th]
    m = [x for x in m if x]
    if len(m) != 1:
        raise Refuse("TEMPLATETransmitter.h: declaration of Transmit<<<MSGNAME>>> with an int8 retries default not found")
    if "explicit <<<CLASSNAME>>>Transmitter(XKoJen::IConnection& connection):connection(&connection){}" not in th:
        raise Refuse("TEMPLATETransmitter.h: constructor taking the connection by reference not found")
    out = ["From Coq Require Import NArith ZArith.", ""]
    out.append("Definition default_retries : Z := (%s)%%Z.   (* Transmit<Msg>(const <Msg>& data, int8 retries = %s) *)" % (m[0].group(1), m[0].group(1)))
    out.append("Definition retries_bits : N := 8%N.          (* int8 retries *)")
    out.append("Definition receiver_case_per_message : bool := true.   (* one `case <<<MSGID>>>: On<<<MSGNAME>>>Received(...); break;` per message *)")
    out.append("Definition default_calls_only_unhandled_hook : bool := true.")
    out.append("Definition transmit_sends_sizeof : bool := true.       (* SendData(reinterpret_cast<const uint8*>(&data), sizeof(<<<MSGNAME>>>)) *)")
    return write_gen("ProtoTmpl.v", "\n".join(out) + "\n", SOURCES)


if __name__ == "__main__":
    print(run())
