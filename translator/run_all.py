"""Run every translator; returns the list of refusal messages (empty = all Gen files regenerated)."""
import importlib
import traceback

from .common import Refuse

TRANSLATORS = ["tags"]


def run():
    refusals = []
    for name in TRANSLATORS:
        try:
            importlib.import_module("translator." + name).run()
        except Refuse as e:
            refusals.append("%s: %s" % (name, e))
        except Exception as e:  # noqa -- fail closed
            refusals.append("%s: crashed: %r\n%s" % (name, e, traceback.format_exc()))
    return refusals


if __name__ == "__main__":
    for r in run():
        print("REFUSED", r)
