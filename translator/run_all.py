"""Run every translator module of this package (any module with a run() function, except common/run_all);
returns the list of refusal messages (empty = all Gen files regenerated)."""
import importlib
import os
import traceback

from .common import Refuse


def modules():
    here = os.path.dirname(os.path.abspath(__file__))
    return sorted(f[:-3] for f in os.listdir(here) if f.endswith(".py") and f not in ("__init__.py", "common.py", "run_all.py"))


def run():
    refusals = []
    for name in modules():
        try:
            m = importlib.import_module("translator." + name)
            if hasattr(m, "run"):
                m.run()
        except Refuse as e:
            refusals.append("%s: %s" % (name, e))
        except Exception as e:  # noqa -- fail closed
            refusals.append("%s: crashed: %r\n%s" % (name, e, traceback.format_exc()))
    return refusals


if __name__ == "__main__":
    for r in run():
        print("REFUSED", r)
