"""C++ and C# state-machine templates  ->  Gen/DeclTmpl.v

For every template file, in file order: each line inside a per-element block (PER_STATE / PER_EVENT / PER_ACTION /
PER_ACTION_SIGNATURE / PER_GUARD, for the C# internals also PER_STATETRANSITION) that DECLARES something, as
(block, declaration kind).  Fail closed: inside such a block every line that carries an element name tag must match
either one declaration shape of that file (and then sit in the block that shape belongs to) or one of the file's known
non-declaring shapes (uses: calls, prints, user tags, initialisers); anything else -> Refuse.  A block whose
declaration takes the event's parameter list must carry the parameter tag the kind names (<<<MEMBERSDECLARE>>> in the
block of the event struct/class, <<<SIGNATURE>>> inside the parentheses of Trigger).
"""
import re

from .common import Refuse, src, write_gen

SM = r"<<<STATEMACHINENAME>>>"
S, E, A, G = r"<<<STATENAME>>>", r"<<<EVENTNAME>>>", r"<<<ACTIONNAME>>>", r"<<<GUARDNAME>>>"
s_, a_, g_ = r"<<<stateName>>>", r"<<<actionName>>>", r"<<<guardName>>>"
BLOCKS = {"PER_STATE": "BState", "PER_EVENT": "BEvent", "PER_ACTION": "BAction", "PER_ACTION_SIGNATURE": "BSig",
          "PER_GUARD": "BGuard", "PER_STATETRANSITION": "BTps"}
NAME_TAG = re.compile(r"<<<(STATENAME|stateName|STATE_NAME|EVENTNAME|eventName|EVENT_NAME|ACTIONNAME|actionName|ACTION_NAME|GUARDNAME|guardName|GUARD_NAME|"
                      r"SIGNATURE|SIGNATUREWITHDEFAULTS|MEMBERSDECLARE|MEMBERSINSTANTIATE|MEMBERSLITEINSTANTIATE|EVENTMEMBERSLITEINSTANTIATE[^<>]*|ALPH|NUM)>>>")

FILES = {
    "decl_ctl_h": ("kojen/statemachine_templates_embedded_arm/ITEMPLATEController.h", [
        ("BEvent", r"struct %s : public Event" % E, "KEventStruct"),
        ("BEvent", r"typedef std::unique_ptr<%s> %s_ptr;" % (E, E), "KEventPtrTypedef"),
        ("BGuard", r"virtual bool %s\(\)" % G, "KCtlGuard"),
        ("BGuard", r"bool m_%s;" % G, "KCtlGuardMember"),
        ("BState", r"virtual void %s_on_entry\(\)" % S, "KCtlEntry"),
        ("BState", r"virtual void %s_on_exit\(\)" % S, "KCtlExit"),
        ("BSig", r"virtual void %s\(%s const& data\)" % (A, E), "KCtlAction"),
    ], [r"%s\(\)\{\};" % E, r"MOVE_ONLY\(%s\)" % E, r"<<<MEMBERSDECLARE>>>", r"/// \{\{\{USER_.*\}\}\}", r"printf\(.*\);", r"return m_%s;" % G,
        r"m_%s = false;" % G]),
    "decl_sm_h": ("kojen/statemachine_templates_embedded_arm/TEMPLATEStateMachine.h", [
        ("BState", r"virtual bool Is%s\(\) const = 0;" % S, "KIfcIs"),
        ("BEvent", r"virtual void Trigger%s\(<<<SIGNATURE>>>\) = 0;" % E, "KIfcTrigger"),
    ], []),
    "decl_impl_cpp": ("kojen/statemachine_templates_embedded_arm/TEMPLATEStateMachineImpl_SML.cpp", [
        ("BState", r"struct %s;" % S, "KFwdState"),
        ("BGuard", r"struct %s" % G, "KGuardFunctor"),
        ("BState", r"struct %sOnEntry\{" % S, "KEntryFunctor"),
        ("BState", r"struct %sOnExit\{" % S, "KExitFunctor"),
        ("BAction", r"struct %s" % A, "KActionFunctor"),
        ("BState", r"%sOnEntry\t+%sOnEntry;" % (S, s_), "KInstEntry"),
        ("BState", r"%sOnExit\t+%sOnExit;" % (S, s_), "KInstExit"),
        ("BAction", r"%s\t+%s;" % (A, a_), "KInstAction"),
        ("BGuard", r"%s\t+%s;" % (G, g_), "KInstGuard"),
        ("BEvent", r"void %s::Dispatch\(void\* sm\)\{" % E, "KDispatchDef"),
        ("BState", r"virtual bool Is%s\(\) const override \{" % S, "KImplIs"),
        ("BEvent", r"virtual void Trigger%s\(<<<SIGNATURE>>>\) override \{" % E, "KImplTrigger"),
    ], [r"return ctrl\.%s\(\);" % G, r"ctrl\.%s_on_entry\(\);" % S, r"ctrl\.%s_on_exit\(\);" % S, r"ctrl\.%s\(e\);" % A,
        r"IMPLEMENT_ALLOCATOR\(%s, 0, 0\)" % E, r"return _sm\.is\(boost::sml::state<%s>\);" % S,
        r"auto data = std::make_unique<%s>\(%s\(\)\);" % (E, E), r"<<<MEMBERSINSTANTIATE>>>"]),
    "decl_test_cpp": ("kojen/statemachine_templates_embedded_arm/Test.TEMPLATEStateMachine.cpp", [
        ("BGuard", r"virtual bool %s\(\) override" % G, "KTestGuard"),
        ("BState", r"virtual void %s_on_entry\(\) override" % S, "KTestEntry"),
        ("BState", r"virtual void %s_on_exit\(\) override" % S, "KTestExit"),
        ("BSig", r"virtual void %s\(%s const& data\) override" % (A, E), "KTestAction"),
    ], [r"/// \{\{\{USER_.*\}\}\}", r"return I%sController::%s\(\);" % (SM, G), r"I%sController::%s_on_entry\(\);" % (SM, S),
        r"I%sController::%s_on_exit\(\);" % (SM, S), r"I%sController::%s\(data\);" % (SM, A)]),
    "decl_cs_context": ("kojen/statemachine_templates_cs_winlinmac/TEMPLATEContext.cs", [
        ("BEvent", r"public partial class %s : IDispatchable \{" % E, "KCsEventClass"),
        ("BGuard", r"bool %s\(\);" % G, "KCsGuard"),
        ("BSig", r"void %s\(%s data\);" % (A, E), "KCsAction"),
        ("BState", r"void On%sEntry\(\);" % S, "KCsEntry"),
        ("BState", r"void On%sExit\(\);" % S, "KCsExit"),
    ], [r"<<<MEMBERSDECLARE>>>", r"///.*"]),
    "decl_cs_sm": ("kojen/statemachine_templates_cs_winlinmac/TEMPLATEStateMachine.cs", [
        ("BState", r"public bool Is%s\(\)" % S, "KCsIs"),
        ("BEvent", r"public void Trigger%s\(<<<SIGNATURE>>>\)" % E, "KCsTrigger"),
    ], [r"///.*", r"return \(estate == E%sState\.%s\);" % (SM, S), r"%s evt = new \(\);" % E, r"<<<EVENTMEMBERSLITEINSTANTIATE=evt>>>",
        r"state\.Trigger%s\(controller, this, evt\);" % E]),
    "decl_cs_internals": ("kojen/statemachine_templates_cs_winlinmac/TEMPLATEInternals.cs", [
        ("BState", r"%s," % S, "KCsEnum"),
        ("BEvent", r"internal virtual void Trigger%s\(I%sContext context, %sStateMachine sm, %s data\)\{\}" % (E, SM, SM, E), "KCsBaseHandler"),
        ("BEvent", r"public partial class %s : IDispatchable \{" % E, "KCsDispatchPart"),
        ("BTps", r"internal class %s : %sState" % (S, SM), "KCsStateClass"),
    ], [r"///.*", r"sm\.state\.Trigger%s\(controller, sm, this\);" % E, r"context\.On%sEntry\(\);" % S, r"context\.On%sExit\(\);" % S,
        r"internal override void Trigger%s\(I%sContext context, %sStateMachine sm, %s data\)" % (E, SM, SM, E),
        r"<<<PER_(EVENT|GUARD)TRANSITION_(BEGIN|END)>>>", r"if \(context\.%s\(\)\)" % G, r"sm\.Exit<<<<STATENAMEIFNEXTSTATE>>>>\(\);",
        r"context\.%s\(data\);" % A, r"sm\.Enter<<<<NEXTSTATENAME>>>>\(\);", r"sm\.estate = E%sState\.<<<NEXTSTATENAME>>>;" % SM]),
}
NEEDS_PARAM_TAG = {"KEventStruct": "<<<MEMBERSDECLARE>>>", "KCsEventClass": "<<<MEMBERSDECLARE>>>"}


def scan(rel, decls, uses):
    text = src(rel).decode("utf-8")
    shape = []
    cur = None
    block_lines = []
    pending = []   # (kind, block index) needing a parameter tag inside the same block instance
    for no, raw in enumerate(text.split("\n"), 1):
        t = raw.strip(" ").rstrip("\r")
        m = re.fullmatch(r"<<<(PER_\w+?)_(BEGIN|END)>>>", t)
        if m and m.group(1) in BLOCKS:
            if m.group(2) == "BEGIN":
                if cur is not None and not (cur == "BTps"):
                    raise Refuse("%s:%d: nested per-element blocks" % (rel, no))
                if cur is None:
                    cur, block_lines, pending = BLOCKS[m.group(1)], [], []
                else:
                    raise Refuse("%s:%d: per-element block inside PER_STATETRANSITION" % (rel, no))
            else:
                for kind in pending:
                    if NEEDS_PARAM_TAG[kind] not in block_lines:
                        raise Refuse("%s: block of %s lacks %s" % (rel, kind, NEEDS_PARAM_TAG[kind]))
                cur = None
            continue
        if cur is None:
            continue
        block_lines.append(t)
        if not NAME_TAG.search(t) and not (cur == "BTps"):
            continue
        hit = None
        for blk, rx, kind in decls:
            if re.fullmatch(rx, t):
                hit = (blk, kind)
                break
        if hit:
            if hit[0] != cur:
                raise Refuse("%s:%d: declaration %s sits in a %s block, expected %s" % (rel, no, hit[1], cur, hit[0]))
            shape.append(hit)
            if hit[1] in NEEDS_PARAM_TAG:
                pending.append(hit[1])
            continue
        if not NAME_TAG.search(t) and not re.search(r"<<<(STATENAMEIFNEXTSTATE|NEXTSTATENAME)>>>", t):
            continue
        if not any(re.fullmatch(rx, t) for rx in uses):
            raise Refuse("%s:%d: line with an element tag of unknown shape inside a %s block: %r" % (rel, no, cur, t))
    if cur is not None:
        raise Refuse("%s: unterminated per-element block" % rel)
    return shape


def run():
    out = ["From KV Require Import Model.DeclShape.\n"]
    sources = []
    for name, (rel, decls, uses) in FILES.items():
        shape = scan(rel, decls, uses)
        if not shape:
            raise Refuse("%s: no declaration found" % rel)
        sources.append(rel)
        out.append("Definition %s : list (blk * dk) := [\n    %s\n  ].\n" % (name, ";\n    ".join("(%s, %s)" % bk for bk in shape)))
    return write_gen("DeclTmpl.v", "\n".join(out), sources)


if __name__ == "__main__":
    print(run())
