"""smgen.CStateMachineModel / CTransitionTableModel  ->  Gen/TTModelSrc.v

Obligations on the source of the table model (fail closed), and the facts Model/TTable.v depends on:
  * tstate / taction / tevent / tguard are created as OrderedDict() or dict() (insertion ordered), filled ONLY by
    subscript assignment  t[<row field>] = <const>  inside the one loop over self.transition_table, and copied to
    self.states / events / actions / guards by  for x in t: self.<list>.append(x);  self.<list> start as [] ;
    self.actionsignatures / self.transitionsperstate are OrderedDict() or dict().  No set / frozenset / sorted / reversed
    anywhere in the two classes.
  * tt_state_fields : the row fields that feed tstate, in source order (START_STATE then NEXT_STATE)
  * tt_sig_key_pair : the key of actionsignatures is the tuple (ACTION, EVENT) (true) or the concatenation ACTION+EVENT (false)
  * tt_tps_all_states : set_transitions_per_state ends with the loop that lists states without outgoing rows
"""
import ast

from .common import Refuse, find_def, parse, write_gen

SOURCE = "kojen/smgen.py"
FIELDS = ("START_STATE", "EVENT", "NEXT_STATE", "ACTION", "GUARD")


def cls(tree, name):
    for n in tree.body:
        if isinstance(n, ast.ClassDef) and n.name == name:
            return n
    raise Refuse("class %s not found" % name)


def is_ordered_ctor(v):
    return isinstance(v, ast.Call) and isinstance(v.func, ast.Name) and v.func.id in ("OrderedDict", "dict") and not v.args and not v.keywords


def field_of(node):
    """tableline[self.FIELD] -> FIELD"""
    if (isinstance(node, ast.Subscript) and isinstance(node.value, ast.Name) and node.value.id == "tableline"
            and isinstance(node.slice, ast.Attribute) and isinstance(node.slice.value, ast.Name) and node.slice.value.id == "self"
            and node.slice.attr in FIELDS):
        return node.slice.attr
    return None


def run():
    tree = parse(SOURCE)
    base, tt = cls(tree, "CStateMachineModel"), cls(tree, "CTransitionTableModel")
    for c in (base, tt):
        for n in ast.walk(c):
            if isinstance(n, ast.Name) and n.id in ("set", "frozenset", "sorted", "reversed"):
                raise Refuse("%s uses %s: the first-appearance order of the model is no longer evident" % (c.name, n.id))
            if isinstance(n, (ast.Set, ast.SetComp)):
                raise Refuse("%s builds a set" % c.name)
    binit = find_def(tree, "__init__", "CStateMachineModel")
    kinds = {}
    for n in binit.body:
        if isinstance(n, ast.Assign) and isinstance(n.targets[0], ast.Attribute):
            kinds[n.targets[0].attr] = n.value
    for lst in ("states", "actions", "events", "guards"):
        if not (lst in kinds and isinstance(kinds[lst], ast.List) and not kinds[lst].elts):
            raise Refuse("CStateMachineModel.%s is not initialised as []" % lst)
    for d in ("actionsignatures", "transitionsperstate"):
        if not (d in kinds and is_ordered_ctor(kinds[d])):
            raise Refuse("CStateMachineModel.%s is not an OrderedDict()/dict()" % d)
    init = find_def(tree, "__init__", "CTransitionTableModel")
    temps = {}
    for n in init.body:
        if isinstance(n, ast.Assign) and isinstance(n.targets[0], ast.Name) and n.targets[0].id in ("tstate", "taction", "tevent", "tguard"):
            if not is_ordered_ctor(n.value):
                raise Refuse("%s is not an OrderedDict()/dict()" % n.targets[0].id)
            temps[n.targets[0].id] = []
    if set(temps) != {"tstate", "taction", "tevent", "tguard"}:
        raise Refuse("tstate/taction/tevent/tguard not all found")
    loops = [n for n in init.body if isinstance(n, ast.For)]
    if not loops or ast.unparse(loops[0].iter) != "self.transition_table":
        raise Refuse("first loop of __init__ is not over self.transition_table")
    sig_key = None
    for n in ast.walk(init):
        # every mention of a temp dict other than creation / `for x in t` must be t[tableline[self.F]] = const inside the row loop
        if isinstance(n, ast.Assign) and isinstance(n.targets[0], ast.Subscript) and isinstance(n.targets[0].value, ast.Name) \
                and n.targets[0].value.id in temps:
            f = field_of(n.targets[0].slice)
            if f is None or not isinstance(n.value, ast.Constant):
                raise Refuse("unrecognised assignment into %s: %s" % (n.targets[0].value.id, ast.unparse(n)))
            temps[n.targets[0].value.id].append(f)
        if isinstance(n, ast.Assign) and isinstance(n.targets[0], ast.Subscript) and ast.unparse(n.targets[0].value) == "self.actionsignatures":
            k = n.targets[0].slice
            if isinstance(k, ast.Tuple) and [field_of(e) for e in k.elts] == ["ACTION", "EVENT"]:
                sig_key = True
            elif isinstance(k, ast.BinOp) and isinstance(k.op, ast.Add) and [field_of(k.left), field_of(k.right)] == ["ACTION", "EVENT"]:
                sig_key = False
            else:
                raise Refuse("key of actionsignatures not recognised: " + ast.unparse(k))
            if ast.unparse(n.value) != "(tableline[self.ACTION], tableline[self.EVENT])":
                raise Refuse("value of actionsignatures is not (action, event)")
    uses = [n for n in ast.walk(init) if isinstance(n, ast.Name) and n.id in temps]
    expected_uses = sum(len(v) for v in temps.values()) + 2 * len(temps)   # subscript stores + creation + `for x in t`
    if len(uses) != expected_uses:
        raise Refuse("tstate/taction/tevent/tguard are used in a way the translator does not know (%d uses, %d expected)" % (len(uses), expected_uses))
    if temps != {"tstate": ["START_STATE", "NEXT_STATE"], "taction": ["ACTION"], "tevent": ["EVENT"], "tguard": ["GUARD"]}:
        raise Refuse("fields feeding the first-appearance dictionaries changed: %r" % temps)
    copies = {}
    for n in loops[1:]:
        if isinstance(n.iter, ast.Name) and n.iter.id in temps and len(n.body) == 1:
            copies[n.iter.id] = ast.unparse(n.body[0])
    want = {"tstate": "self.states.append(s)", "tevent": "self.events.append(e)", "taction": "self.actions.append(a)", "tguard": "self.guards.append(g)"}
    if copies != want:
        raise Refuse("copy loops into states/events/actions/guards changed: %r" % copies)
    if sig_key is None:
        raise Refuse("assignment into self.actionsignatures not found")
    tps = find_def(tree, "set_transitions_per_state", "CTransitionTableModel")
    tail = [n for n in tps.body if isinstance(n, ast.For) and ast.unparse(n.iter) == "self.states"]
    all_states = bool(tail) and "not state in self.transitionsperstate" in ast.unparse(tail[0]) and tps.body[-1] is tail[0]
    gfs = ast.unparse(find_def(tree, "getfirststate", "CTransitionTableModel"))
    if "return self.transition_table[0][0]" not in gfs:
        raise Refuse("getfirststate no longer returns transition_table[0][0]")
    out = ["Definition tt_containers_insertion_ordered : bool := true.  (* refused otherwise *)",
           "Definition tt_sig_key_pair : bool := %s.  (* key of actionsignatures is the tuple (action, event) *)" % ("true" if sig_key else "false"),
           "Definition tt_tps_all_states : bool := %s.  (* transitionsperstate also lists states without outgoing rows *)" % ("true" if all_states else "false")]
    return write_gen("TTModelSrc.v", "\n".join(out) + "\n", [SOURCE])


if __name__ == "__main__":
    print(run())
