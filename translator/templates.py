"""The shipped template directories  ->  Gen/Templates.v

Every template file that a shipped generator loads, as (set, file name, lines).  The selection mirrors
cgen.loadtemplates_firstfiltering: os.walk over the directory, files whose lower-cased name contains ".removed" excluded.
The directory of each generator is taken from Generate.py / umlgen.py (fail closed if the literals change).
"""
import ast
import os
import warnings

from .common import REPO, Refuse, coq_bs, find_def, parse, write_gen

warnings.simplefilter("ignore")

# generator -> directory below kojen/ ; cross-checked against the string literals in the source
SETS = {
    "cpp": "statemachine_templates_embedded_arm",
    "cs": "statemachine_templates_cs_winlinmac",
    "py": "statemachine_templates_py",
    "proto": os.path.join("protocol_templates", "CPP"),
    "uml": os.path.join("classdiagram_templates", "CPP"),
    "uml_cs": os.path.join("classdiagram_templates", "C#"),
}


def literals(tree, fn):
    return [n.value for n in ast.walk(find_def(tree, fn)) if isinstance(n, ast.Constant) and isinstance(n.value, str)]


def check_dirs():
    g = parse("kojen/Generate.py")
    need = {"StateMachine": ["statemachine_templates_embedded_arm"], "StateMachine_CSHARP": ["statemachine_templates_cs_winlinmac"],
            "StateMachine_PYTHON": ["statemachine_templates_py"], "Protocol": ["protocol_templates", "CPP"]}
    for fn, lits in need.items():
        have = literals(g, fn)
        for l in lits:
            if l not in have:
                raise Refuse("Generate.%s no longer names the template directory %r" % (fn, l))
    u = open(os.path.join(REPO, "kojen", "umlgen.py")).read()
    if "classdiagram_templates" not in u:
        raise Refuse("umlgen.py no longer names classdiagram_templates")


def removed_filter():
    """The exclusion literal of loadtemplates_firstfiltering."""
    cg = parse("kojen/cgen.py")
    fn = find_def(cg, "loadtemplates_firstfiltering", "CGenerator")
    lits = [n.value for n in ast.walk(fn) if isinstance(n, ast.Constant) and isinstance(n.value, str) and n.value.startswith(".")]
    if lits != [".removed"]:
        raise Refuse("loadtemplates_firstfiltering: exclusion literal changed: %r" % lits)
    return lits[0]


def coq_line(b):
    try:
        s = b.decode("ascii")
    except UnicodeDecodeError:
        return coq_bs(b)
    body = s[:-1] if s.endswith("\n") else s
    if all(32 <= ord(c) < 127 for c in body):
        lit = '"' + body.replace('"', '""') + '"'
        return "(ln %s)" % lit if s.endswith("\n") else lit
    return coq_bs(b)


def run():
    check_dirs()
    excl = removed_filter()
    sources = []
    defs = []
    names = []
    for key, rel in SETS.items():
        root = os.path.join(REPO, "kojen", rel)
        if not os.path.isdir(root):
            raise Refuse("template directory kojen/%s is missing" % rel)
        files = []
        for d, _dirs, fs in os.walk(root):
            for f in sorted(fs):
                if excl in f.lower():
                    continue
                p = os.path.join(d, f)
                relp = os.path.relpath(p, REPO)
                sources.append(relp)
                with open(p, "rb") as fh:
                    data = fh.read()
                lines = data.split(b"\n")
                ls = [x + b"\n" for x in lines[:-1]] + ([lines[-1]] if lines[-1] else [])
                files.append("(%s, [\n      %s])" % (coq_bs(f), ";\n      ".join(coq_line(l) for l in ls)))
        nm = "tmpl_" + key
        names.append((key, nm))
        defs.append("Definition %s : list (string * list string) := [\n    %s\n  ]." % (nm, ";\n    ".join(files)))
    text = "Definition ln (s : string) : string := s ++ nl_str.\n\n" + "\n\n".join(defs) + "\n\n"
    text += "Definition all_templates : list (string * list (string * list string)) := [\n    %s\n  ].\n" % ";\n    ".join(
        "(%s, %s)" % (coq_bs(k), nm) for k, nm in names)
    return write_gen("Templates.v", text, sorted(set(sources + ["kojen/Generate.py", "kojen/umlgen.py", "kojen/cgen.py"])))


if __name__ == "__main__":
    print(run())
