"""kojen/vppclassdiagram.py + kojen/test/blob.xml  ->  Gen/UmlBlobSrc.v (source constants of the class-diagram reader)
                                                       Gen/UmlBlobShipped.v (the shipped class diagrams as structured blobs)

Gen/UmlBlobSrc.v (fail closed, from the AST):
  visibility_codes   class Visibility: (name, code) in source order;  vis_to_string: the if-chain of VisibilityToHumanReadableString
  scope_classifier / direction_in / direction_out / aggregation_aggregate / aggregation_composite   module constants
  clean_modifier_chain   CleanModifiersFromType: the ordered .replace(a, b) chain
  loadandtest_dispatch   ClassDiagram.LoadAndTest: the MODEL_TYPE literals of the if/elif chain, in order
  stereotype_chain       Class.ParseStereotypesAbstractAndDocs: the NAME.lower().find(<literal>) literals of the if/elif chain
  literals_<function>    every string literal of ClassOperation.__init__, ClassAttribute.__init__, Class.ParseStereotypesAbstractAndDocs,
                         Class.ParseAttributes, Class.ParseOperations, Package.ParseClassesInPackage, Inheritance.Parse,
                         Association.ParseAssociation, GetNestedTypeNamesFromNestedTypeIDS, vppfs.Get_ValuesFromOutside,
                         vppfs.ParseBLOB_Recursive, vppfs.SplitOutsideQuotes, LanguageCPP.GetTypeAndNameFromMultiplicityAndModifier,
                         LanguageCPP.GetDefaultFormatFromMultiplicityAndModifier, Class.GetContainerMultiplicityType -- in source order;
                         Proofs/UmlBlobPins.v pins them to the literals Model/UmlBlob.v was written against
Gen/UmlBlobShipped.v:
  shipped_cdb        every DIAGRAM / DIAGRAM_ELEMENT row and the MODEL_ELEMENT rows the class diagrams draw or refer to
  shipped_W          the class diagrams read off those rows as structured blobs (Model/UmlWriter.v); Coq re-checks that printing
                     them gives back the stored bytes (Proofs/UmlBlobCalib.v), so this reading is not trusted
"""
import ast
import os
import re
import sqlite3
import warnings

warnings.simplefilter('ignore')

from .common import REPO, Refuse, coq_bs, coq_str_list, const_str, find_def, parse, write_gen

SRC = "kojen/vppclassdiagram.py"
SRC_FS = "kojen/vppfs.py"
SRC_CPP = "kojen/LanguageCPP.py"
BLOB = "kojen/test/blob.xml"


def literals(fn):
    """string literals of a function body in source order (docstrings excluded)"""
    res = []
    doc = ast.get_docstring(fn, clean=False)
    for n in ast.walk(fn):
        if isinstance(n, ast.Constant) and isinstance(n.value, str) and n.value != doc:
            res.append((n.lineno, n.col_offset, n.value))
    return [v for _l, _c, v in sorted(res)]


def module_const(tree, name):
    for n in tree.body:
        if isinstance(n, ast.Assign) and len(n.targets) == 1 and isinstance(n.targets[0], ast.Name) and n.targets[0].id == name:
            return const_str(n.value, name)
    raise Refuse("module constant %s not found" % name)


def class_consts(tree, cls):
    for n in tree.body:
        if isinstance(n, ast.ClassDef) and n.name == cls:
            return [(s.targets[0].id, const_str(s.value, cls)) for s in n.body if isinstance(s, ast.Assign)]
    raise Refuse("class %s not found" % cls)


def replace_pairs(fn, what):
    body = [s for s in fn.body if not (isinstance(s, ast.Expr) and isinstance(s.value, ast.Constant))]
    if len(body) != 1 or not isinstance(body[0], ast.Return):
        raise Refuse("%s: body is not a single return" % what)
    node = body[0].value
    arg = fn.args.args[0].arg
    pairs = []
    while not (isinstance(node, ast.Name) and node.id == arg):
        if not (isinstance(node, ast.Call) and isinstance(node.func, ast.Attribute) and node.func.attr == "replace" and len(node.args) == 2):
            raise Refuse("%s: not a replace chain" % what)
        pairs.append((const_str(node.args[0], what), const_str(node.args[1], what)))
        node = node.func.value
    return pairs[::-1]


def dispatch_literals(fn, attr):
    """literals compared with <x>.<attr> by == in the function, in source order"""
    res = []
    for n in ast.walk(fn):
        if isinstance(n, ast.Compare) and len(n.ops) == 1 and isinstance(n.ops[0], ast.Eq) and isinstance(n.left, ast.Attribute) \
                and n.left.attr == attr and isinstance(n.comparators[0], ast.Constant):
            res.append((n.lineno, n.col_offset, n.comparators[0].value))
    return [v for _l, _c, v in sorted(res)]


# ------------------------------------------------------------------ structured reading of a blob

WS = b"\r\n\t "


class Reader:
    def __init__(self, data):
        self.d = data
        self.p = 0

    def ws(self):
        s = self.p
        while self.p < len(self.d) and self.d[self.p:self.p + 1] in (b"\r", b"\n", b"\t", b" "):
            self.p += 1
        return self.d[s:self.p]

    def expect(self, tok):
        if self.d[self.p:self.p + len(tok)] != tok:
            raise Refuse("blob: expected %r at %d: %r" % (tok, self.p, self.d[max(0, self.p - 30):self.p + 30]))
        self.p += len(tok)

    def node(self):
        m = re.compile(rb'([^:{};"]*):(NULL|"(?:[^"\\]|\\.)*"):([A-Za-z0-9_]+) \{', re.S).match(self.d, self.p)
        if not m:
            raise Refuse("blob: no element header at %d: %r" % (self.p, self.d[self.p:self.p + 60]))
        self.p = m.end()
        name = None if m.group(2) == b"NULL" else m.group(2)[1:-1]
        items = []
        while True:
            ws = self.ws()
            if self.d[self.p:self.p + 1] == b"}":
                self.p += 1
                return ("node", m.group(1), name, m.group(3), items, ws)
            items += self.item(ws)

    def refs(self):
        ids = []
        sep = None
        while True:
            self.expect(b"<")
            e = self.d.index(b">", self.p)
            ids.append(self.d[self.p:e])
            self.p = e + 1
            m = re.compile(rb",[\r\n\t ]*(?=<)").match(self.d, self.p)
            if not m:
                return ids, sep or b""
            if sep is not None and sep != m.group(0):
                raise Refuse("blob: reference list with varying separators")
            sep = m.group(0)
            self.p = m.end()

    def children(self):
        nodes = []
        sep = None
        while True:
            self.expect(b"{")
            nodes.append(self.node())
            self.expect(b"}")
            m = re.compile(rb",[\r\n\t ]*(?=\{)").match(self.d, self.p)
            if not m:
                return nodes, sep or b""
            if sep is not None and sep != m.group(0):
                raise Refuse("blob: child list with varying separators")
            sep = m.group(0)
            self.p = m.end()

    def item(self, ws):
        m = re.compile(rb"([A-Za-z_][A-Za-z0-9_]*)=").match(self.d, self.p)
        if not m:
            raise Refuse("blob: no key at %d: %r" % (self.p, self.d[self.p:self.p + 40]))
        key = m.group(1)
        self.p = m.end()
        c = self.d[self.p:self.p + 1]
        if c == b"<":
            ids, sep = self.refs()
            self.expect(b";")
            return [("refs", ws, key, b"", sep, b"", ids)]
        if c == b"{":
            nodes, sep = self.children()
            self.expect(b";")
            return [("children", ws, key, b"", sep, b"", nodes)]
        if c == b"(":
            save = self.p
            self.p += 1
            o = b"(" + self.ws()
            nxt = self.d[self.p:self.p + 1]
            if nxt in (b"<", b"{"):
                lst, sep = self.refs() if nxt == b"<" else self.children()
                cws = self.ws()
                self.expect(b")")
                self.expect(b";")
                return [("refs" if nxt == b"<" else "children", ws, key, o, sep, cws + b")", lst)]
            self.p = save
        if c == b'"':
            m2 = re.compile(rb'"(?:[^"\\]|\\.)*"', re.S).match(self.d, self.p)
            if not m2:
                raise Refuse("blob: unterminated quoted value")
            val = m2.group(0)
            self.p = m2.end()
            self.expect(b";")
            inner = val[1:-1]
            if re.fullmatch(rb"[\x20-\x7e]*", inner) and not re.search(rb"[=<>;\\\"()'{}]", inner) and inner == inner.strip():
                return [("field", ws, key, val)]          # a plain text value
            # free text with braces / separators (an HTML documentation): ONE piece; the reader (quote aware since the repair of
            # K-C19-6) takes everything between the quotes as text
            return [("raw", ws + key + b"=" + val + b";")]
        e = self.d.index(b";", self.p)
        val = self.d[self.p:e]
        if re.search(rb'[{}<>("]', val):
            raise Refuse("blob: unexpected scalar value %r" % val[:60])
        self.p = e + 1
        return [("field", ws, key, val)]


def read_blob(data):
    r = Reader(data)
    n = r.node()
    if r.p != len(data):
        raise Refuse("blob: trailing bytes after the element")
    if print_node(n) != data:
        raise Refuse("blob: structured reading does not print back (id %r)" % n[1])
    return n


def refs_text(sep, ids):
    return sep.join(b"<" + i + b">" for i in ids)


def print_item(it):
    k = it[0]
    if k == "field":
        return it[1] + it[2] + b"=" + it[3] + b";"
    if k == "refs":
        return it[1] + it[2] + b"=" + it[3] + refs_text(it[4], it[6]) + it[5] + b";"
    if k == "children":
        return it[1] + it[2] + b"=" + it[3] + it[4].join(b"{" + print_node(n) + b"}" for n in it[6]) + it[5] + b";"
    if k == "raw":
        return it[1]
    return b"{" + it[1] + b"}"


def print_node(n):
    _t, i, name, ty, items, tail = n
    return i + b":" + (b"NULL" if name is None else b'"' + name + b'"') + b":" + ty + b" {" + b"".join(print_item(x) for x in items) + tail + b"}"


def coq_lit(b):
    """Coq term for a byte string: printable runs as string literals (fast to parse), the rest through bs"""
    if isinstance(b, str):
        b = b.encode("utf-8")
    if not b:
        return '""'
    parts = []
    for m in re.finditer(rb"[\x20-\x7e]+|[^\x20-\x7e]+", b):
        run = m.group(0)
        if 0x20 <= run[0] <= 0x7e:
            parts.append('"' + run.decode("ascii").replace('"', '""') + '"')
        else:
            parts.append("bs [" + ";".join(str(x) for x in run) + "]")
    return parts[0] if len(parts) == 1 and parts[0].startswith('"') else "(" + " ++ ".join(parts) + ")"


def opt(b):
    return "None" if b is None else "(Some %s)" % coq_lit(b)


def coq_list(xs):
    return "[" + "; ".join(xs) + "]"


def coq_item(it):
    k = it[0]
    if k == "field":
        return "IField %s %s %s" % (coq_lit(it[1]), coq_lit(it[2]), coq_lit(it[3]))
    if k == "refs":
        return "IRefs %s %s %s %s %s %s" % (coq_lit(it[1]), coq_lit(it[2]), coq_lit(it[3]), coq_lit(it[4]), coq_lit(it[5]), coq_list([coq_lit(x) for x in it[6]]))
    if k == "children":
        return "IChildren %s %s %s %s %s %s" % (coq_lit(it[1]), coq_lit(it[2]), coq_lit(it[3]), coq_lit(it[4]), coq_lit(it[5]), coq_list([coq_node(n) for n in it[6]]))
    if k == "raw":
        return "IRaw %s" % coq_lit(it[1])
    return "IInert %s" % coq_lit(it[1])


def coq_node(n):
    _t, i, name, ty, items, tail = n
    return "(WNode %s %s %s\n      %s %s)" % (coq_lit(i), opt(name), coq_lit(ty), coq_list([coq_item(x) for x in items]), coq_lit(tail))


def tob(x):
    return None if x is None else (x if isinstance(x, bytes) else str(x).encode("utf-8"))


IDTOK = re.compile(rb"[A-Za-z0-9._]{16}")


def shipped():
    con = sqlite3.connect("file:%s?mode=ro" % os.path.join(REPO, BLOB), uri=True)
    try:
        diagrams = [tuple(tob(x) for x in r) for r in con.execute("SELECT ID, DIAGRAM_TYPE, NAME FROM DIAGRAM")]
        delems = [tuple(tob(x) for x in r) for r in con.execute("SELECT ID, SHAPE_TYPE, DIAGRAM_ID, MODEL_ELEMENT_ID FROM DIAGRAM_ELEMENT")]
        melems, order = {}, []
        for r in con.execute("SELECT ID, MODEL_TYPE, PARENT_ID, NAME, DEFINITION FROM MODEL_ELEMENT"):
            r = tuple(tob(x) for x in r)
            melems[r[0]] = r
            order.append(r[0])
    finally:
        con.close()
    cds = [d for d in diagrams if d[1] == b"ClassDiagram"]
    ws, needed = [], []
    for did, _t, dname in cds:
        drawn, refd = [], []
        for (eid, shape, dg, mid) in delems:
            if dg != did:
                continue
            if mid is None or mid not in melems:
                raise Refuse("shipped class diagram element %r has no model element" % eid)
            row = melems[mid]
            if shape != row[1]:
                raise Refuse("shipped diagram element %r: SHAPE_TYPE differs from MODEL_TYPE" % eid)
            drawn.append((eid, row))
        drawn_ids = [row[0] for _e, row in drawn]
        for _e, row in drawn:
            for tok in IDTOK.findall(row[4]):
                if tok in melems and tok not in drawn_ids and tok not in refd:
                    refd.append(tok)
        needed += [i for i in drawn_ids + refd if i not in needed]

        def welem(row):
            n = read_blob(row[4])
            if n[1] != row[0] or n[3] != row[1] or n[2] != row[3]:
                raise Refuse("row %r: columns differ from the blob header" % row[0])
            return "{| we_parent := %s; we_node := %s |}" % (opt(row[2]), coq_node(n))
        ws.append("{| wd_id := %s; wd_name := %s;\n  wd_drawn := [\n    %s];\n  wd_referenced := [\n    %s] |}" % (
            coq_lit(did), coq_lit(dname), ";\n    ".join("(%s, %s)" % (coq_lit(e), welem(row)) for e, row in drawn),
            ";\n    ".join(welem(melems[i]) for i in refd)))
    rows = [i for i in order if i in needed]
    out = ["From KV Require Import Model.Vpp Model.UmlWriter.\n"]
    out.append("Definition shipped_cdb : db := {|\n  db_diagrams := [\n    %s];\n  db_delems := [\n    %s];\n  db_melems := [\n    %s] |}." % (
        ";\n    ".join("{| dg_id := %s; dg_type := %s; dg_name := %s |}" % (coq_lit(a), coq_lit(b), coq_lit(c)) for a, b, c in diagrams),
        ";\n    ".join("{| de_id := %s; de_shape := %s; de_diagram := %s; de_model := %s |}" % (coq_lit(a), coq_lit(b), coq_lit(c), opt(d))
                       for a, b, c, d in delems),
        ";\n    ".join("{| me_id := %s; me_type := %s; me_parent := %s; me_name := %s; me_blob := %s |}" % (
            coq_lit(melems[i][0]), coq_lit(melems[i][1]), opt(melems[i][2]), opt(melems[i][3]), coq_lit(melems[i][4])) for i in rows)))
    out.append("Definition shipped_W : list wdiagram := [\n%s\n]." % ";\n".join(ws))
    return "\n".join(out) + "\n"


# ---------------------------------------------------------------- the shipped class diagrams as SEMANTIC diagrams (Model/UmlSem.v)

TAGS = {"vis": "TVis", "ret": "TRet", "typemod": "TTypeMod", "abstract": "TAbstract", "query": "TQuery", "scope": "TScope", "doc": "TDoc",
        "child": "TChild", "type": "TType", "typestring": "TTypeString", "dir": "TDir", "default": "TDefault", "mult": "TMult", "init": "TInit",
        "setter": "TSetter", "getter": "TGetter", "readonly": "TReadOnly", "stereo": "TStereo", "from": "TFrom", "to": "TTo", "agg": "TAgg"}


def sem_coq(S):
    """Coq term of an sdiagram value (the nested lists harness/umlblob.Semantic builds; the decoder twin is ocaml/cmds_zzumlsem.ml)"""
    L = coq_lit

    def o(v):
        if len(v) > 1:
            raise Refuse("option with %d members" % len(v))
        return "(Some %s)" % L(v[0]) if v else "None"

    def b(v):
        if v not in (b"0", b"1"):
            raise Refuse("boolean %r" % v)
        return "true" if v == b"1" else "false"

    def strs(v):
        return coq_list([L(x) for x in v])

    def lay(v):
        out = []
        for sl in v:
            if sl[0] == b"N" and len(sl) == 3:
                out.append("SNoise %s %s" % (L(sl[1]), L(sl[2])))
            elif sl[0] == b"I" and len(sl) == 2:
                out.append("SInert (%s)" % coq_item(v_item(sl[1])))
            elif sl[0] == b"T" and len(sl) == 2 and sl[1].decode() in TAGS:
                out.append("STag %s" % TAGS[sl[1].decode()])
            else:
                raise Refuse("slot %r" % (sl,))
        return coq_list(out)

    def doc(v):
        if len(v) != 2 or v[0] not in (b"T", b"R"):
            raise Refuse("documentation %r" % (v,))
        return "(%s %s)" % ("DText" if v[0] == b"T" else "DRaw", L(v[1]))

    def param(v):
        i, n, basic, ty, d, md, df, mu, nl, la = v
        dirn = {b"in": "(Some true)", b"out": "(Some false)"}.get(d, "None")
        return ("{| sp_id := %s; sp_name := %s; sp_basic := %s; sp_type := %s; sp_dir := %s; sp_mod := %s; sp_default := %s; sp_mult := %s; sp_nl := %s; sp_layout := %s |}"
                % (L(i), L(n), o(basic), strs(ty), dirn, L(md), L(df), L(mu), L(nl), lay(la)))

    def op(v):
        i, n, vis, ret, rm, ab, qu, st, dc, ps, nl, la = v
        return ("{| so_id := %s; so_name := %s; so_vis := %s; so_ret := %s; so_retmod := %s; so_abstract := %s; so_query := %s; so_static := %s; so_doc := %s;\n"
                "         so_params := %s; so_nl := %s; so_layout := %s |}" % (L(i), L(n), o(vis), strs(ret), L(rm), b(ab), b(qu), b(st), doc(dc), coq_list([param(x) for x in ps]), L(nl), lay(la)))

    def attr(v):
        i, n, vis, ty, md, mu, dc, ini, se, ge, st, co, nl, la = v
        return ("{| sa_id := %s; sa_name := %s; sa_vis := %s; sa_type := %s; sa_mod := %s; sa_mult := %s; sa_doc := %s; sa_init := %s; sa_setter := %s; sa_getter := %s;\n"
                "         sa_static := %s; sa_const := %s; sa_nl := %s; sa_layout := %s |}" % (L(i), L(n), o(vis), strs(ty), L(md), L(mu), doc(dc), L(ini), b(se), b(ge), b(st), b(co), L(nl), lay(la)))

    def member(v):
        if v[0] == b"op":
            return "MOp %s" % op(v[1])
        if v[0] == b"attr":
            return "MAttr %s" % attr(v[1])
        if v[0] == b"lit":
            return "MLit %s %s %s %s" % (L(v[1]), L(v[2]), L(v[3]), lay(v[4]))
        raise Refuse("member %r" % v[0])

    def end(v):
        i, n, cl, mu, agg, vis, ge, se, co, nl, la = v
        return ("{| se_id := %s; se_name := %s; se_class := %s; se_mult := %s; se_agg := %s; se_vis := %s; se_getter := %s; se_setter := %s; se_const := %s; se_nl := %s; se_layout := %s |}"
                % (L(i), o(n), strs(cl), L(mu), o(agg), o(vis), b(ge), b(se), b(co), L(nl), lay(la)))

    def elem(v):
        k = v[0]
        if k == b"class":
            i, n, par, st, ab, dc, ms, nl, la = v[1]
            return ("EClass {| sc_id := %s; sc_name := %s; sc_parent := %s; sc_stereos := %s; sc_abstract := %s; sc_doc := %s;\n      sc_members := [\n        %s];\n      sc_nl := %s; sc_layout := %s |}"
                    % (L(i), L(n), o(par), strs(st), b(ab), doc(dc), ";\n        ".join(member(m) for m in ms), L(nl), lay(la)))
        if k == b"package":
            i, n, par, paths, nl, la = v[1]
            return "EPackage {| sk_id := %s; sk_name := %s; sk_parent := %s; sk_paths := %s; sk_nl := %s; sk_layout := %s |}" % (L(i), L(n), o(par), coq_list([strs(x) for x in paths]), L(nl), lay(la))
        if k == b"inh":
            i, par, real, fr, t, nl, la = v[1]
            return "EInh {| si_id := %s; si_parent := %s; si_real := %s; si_from := %s; si_to := %s; si_nl := %s; si_layout := %s |}" % (L(i), o(par), b(real), strs(fr), strs(t), L(nl), lay(la))
        if k == b"assoc":
            i, n, par, dc, fr, t, nl, la = v[1]
            return ("EAssoc {| sx_id := %s; sx_name := %s; sx_parent := %s; sx_doc := %s;\n      sx_from := %s;\n      sx_to := %s;\n      sx_nl := %s; sx_layout := %s |}"
                    % (L(i), o(n), o(par), doc(dc), end(fr), end(t), L(nl), lay(la)))
        if k == b"other":
            _k, i, n, ty, par, nl, la = v
            return "EOther %s %s %s %s %s %s" % (L(i), o(n), L(ty), o(par), L(nl), lay(la))
        raise Refuse("element %r" % k)

    i, n, shapes, refs = S
    return ("{| sd_id := %s; sd_name := %s;\n  sd_shapes := [\n    %s];\n  sd_refd := [\n    %s] |}" % (
        L(i), L(n), ";\n    ".join("(%s, %s)" % (L(sid), elem(e)) for sid, e in shapes),
        ";\n    ".join("{| sr_id := %s; sr_name := %s; sr_type := %s; sr_parent := %s; sr_nl := %s; sr_noise := %s |}" % (L(a), L(b_), L(c), o(d), L(nl_), lay(e_))
                       for a, b_, c, d, nl_, e_ in refs)))


# ---------------------------------------------------------------- the shipped rows -> SEMANTIC diagrams, every other property kept as inert

def tabs(n):
    return b"\r\n" + b"\t" * n


def item_v(it):
    k = it[0]
    if k == "field":
        return [b"F", it[1], it[2], it[3]]
    if k == "refs":
        return [b"R", it[1], it[2], it[3], it[4], it[5], list(it[6])]
    if k == "children":
        return [b"C", it[1], it[2], it[3], it[4], it[5], [node_v(n) for n in it[6]]]
    if k == "raw":
        return [b"W", it[1]]
    raise Refuse("inert text in a shipped blob")


def v_item(v):
    k = v[0]
    if k == b"F":
        return ("field", v[1], v[2], v[3])
    if k == b"R":
        return ("refs", v[1], v[2], v[3], v[4], v[5], list(v[6]))
    if k == b"C":
        return ("children", v[1], v[2], v[3], v[4], v[5], [v_node(n) for n in v[6]])
    if k == b"W":
        return ("raw", v[1])
    raise Refuse("item value %r" % k)


def v_node(v):
    i, name, ty, items, tail = v
    return ("node", i, name[0] if name else None, ty, [v_item(x) for x in items], tail)


def node_v(n):
    _t, i, name, ty, items, tail = n
    return [i, [] if name is None else [name], ty, [item_v(x) for x in items], tail]


VTXT = re.compile(rb"[\x20-\x7e]*")


def is_vtxt(b):
    return (VTXT.fullmatch(b) is not None and not re.search(rb"[=<>;\\\"()'{}]", b) and b == b.strip()
            and (not b or b.replace(b",", b"").strip() != b""))


class Abstract:
    """reads the semantic properties off a structured blob; whatever it does not recognise EXACTLY in the form the semantic writer
    (Model/UmlSem.v tree_of) produces becomes an inert slot, so that tree_of of the result is the blob again (checked in Coq)"""

    def layout(self, node, depth, rules):
        """depth: number of tabs before the closing brace. rules: key -> (tag, test(item, nl)). Returns (slots, found: tag -> item, nl)"""
        _t, _i, _name, _ty, items, tl = node
        nl = tl[:len(tl) - depth]
        if nl not in (b"\r\n", b"\n") or tl != nl + b"\t" * depth:
            raise Refuse("element %r: closing %r is not a line break and %d tabs" % (node[1], tl, depth))
        ws = nl + b"\t" * (depth + 1)
        slots, found = [], {}
        for it in items:
            key = it[2] if it[0] in ("field", "refs", "children") else (re.match(rb"\s*([A-Za-z_0-9]+)=", it[1]).group(1) if it[0] == "raw" else None)
            tag = None
            if key in rules and (it[0] == "raw" or it[1] == ws) and rules[key][1](it, nl, ws):
                tag = rules[key][0]
            if tag is not None:
                if tag in found:
                    raise Refuse("element %r: property %r twice" % (node[1], key))
                found[tag] = it
                slots.append([b"T", tag.encode()])
            else:
                slots.append([b"I", item_v(it)])
        return slots, found, nl

    text = staticmethod(lambda tag: (tag, lambda it, nl, ws: it[0] == "field" and it[3][:1] == b'"' and is_vtxt(it[3][1:-1]) and it[3][1:-1] != b""))
    flag = staticmethod(lambda tag: (tag, lambda it, nl, ws: it[0] == "field" and it[3] == b"T"))
    code = staticmethod(lambda tag, allowed=None: (tag, lambda it, nl, ws: it[0] == "field" and re.fullmatch(rb"[0-9]+", it[3]) is not None
                                                   and (allowed is None or it[3] in allowed)))
    ref1 = staticmethod(lambda tag: (tag, lambda it, nl, ws: it[0] == "refs" and it[3] == b"" and it[5] == b"" and len(it[6]) == 1))
    lst = staticmethod(lambda tag, kind, n_open, n_close: (tag, lambda it, nl, ws: it[0] == kind and it[3] == b"(" + nl + b"\t" * n_open
                                                            and (it[4] == b", " + nl + b"\t" * n_open or (len(it[6]) == 1 and it[4] == b"")) and it[5] == nl + b"\t" * n_close + b")"
                                                            and len(it[6]) > 0))
    doc = staticmethod(lambda: ("doc", lambda it, nl, ws: (it[0] == "field" and it[3][:1] == b'"' and is_vtxt(it[3][1:-1]) and it[3][1:-1] != b"")
                                or (it[0] == "raw" and it[1].startswith(ws + b'documentation_plain="') and it[1].endswith(b'";'))))

    @staticmethod
    def doc_v(found, nl, depth):
        if "doc" not in found:
            return [b"T", b""]
        it = found["doc"]
        if it[0] == "field":
            return [b"T", it[3][1:-1]]
        return [b"R", it[1][len(nl + b"\t" * (depth + 1) + b'documentation_plain="'):-2]]

    @staticmethod
    def txt(found, tag):
        return found[tag][3][1:-1] if tag in found else b""

    @staticmethod
    def path(found, tag):
        return found[tag][6][0].split(b":") if tag in found else []

    def param(self, n):
        slots, f, nl = self.layout(n, 4, {
            b"type_string": self.text("typestring"), b"type": self.ref1("type"), b"direction": self.code("dir", (b"65", b"66")),
            b"typeModifier": self.text("typemod"), b"defaultValue_string": self.text("default"), b"multiplicity": self.text("mult")})
        if "typestring" in f and "type" in f:
            raise Refuse("parameter %r with type_string and type" % n[1])
        if n[2] is None:
            raise Refuse("parameter without name")
        d = {b"65": b"in", b"66": b"out"}[f["dir"][3]] if "dir" in f else b""
        return [n[1], n[2], [self.txt(f, "typestring")] if "typestring" in f else [], self.path(f, "type"), d, self.txt(f, "typemod"), self.txt(f, "default"),
                self.txt(f, "mult"), nl, slots]

    def op(self, n):
        slots, f, nl = self.layout(n, 2, {
            b"visibility": self.code("vis"), b"returnType": self.ref1("ret"), b"typeModifier": self.text("typemod"), b"abstract": self.flag("abstract"),
            b"query": self.flag("query"), b"scope": self.code("scope", (b"65",)), b"documentation_plain": self.doc(),
            b"Child": self.lst("child", "children", 4, 3)})
        ps = f["child"][6] if "child" in f else []
        if any(x[3] != b"Parameter" for x in ps):
            raise Refuse("operation %r owns something else than parameters" % n[1])
        if n[2] is None:
            raise Refuse("operation without name")
        return [n[1], n[2], [f["vis"][3]] if "vis" in f else [], self.path(f, "ret"), self.txt(f, "typemod"), bb("abstract" in f), bb("query" in f),
                bb("scope" in f), self.doc_v(f, nl, 2), [self.param(x) for x in ps], nl, slots]

    def attr(self, n):
        slots, f, nl = self.layout(n, 2, {
            b"visibility": self.code("vis"), b"type": self.ref1("type"), b"typeModifier": self.text("typemod"), b"multiplicity": self.text("mult"),
            b"documentation_plain": self.doc(), b"initialValue_string": self.text("init"), b"hasSetter": self.flag("setter"),
            b"hasGetter": self.flag("getter"), b"scope": self.code("scope", (b"65",)), b"readOnly": self.flag("readonly")})
        if n[2] is None:
            raise Refuse("attribute without name")
        return [n[1], n[2], [f["vis"][3]] if "vis" in f else [], self.path(f, "type"), self.txt(f, "typemod"), self.txt(f, "mult"), self.doc_v(f, nl, 2),
                self.txt(f, "init"), bb("setter" in f), bb("getter" in f), bb("scope" in f), bb("readonly" in f), nl, slots]

    def member(self, n):
        if n[3] == b"Operation":
            return [b"op", self.op(n)]
        if n[3] == b"Attribute":
            return [b"attr", self.attr(n)]
        if n[3] == b"EnumerationLiteral":
            slots, _f, nl = self.layout(n, 2, {})
            if n[2] is None:
                raise Refuse("literal without name")
            return [b"lit", n[1], n[2], nl, slots]
        raise Refuse("class member of type %r" % n[3])

    def elem(self, row, n):
        ty, par = n[3], ([row[2]] if row[2] is not None else [])
        if ty == b"Class":
            slots, f, nl = self.layout(n, 0, {b"stereotypes": self.lst("stereo", "refs", 2, 1), b"abstract": self.flag("abstract"),
                                              b"documentation_plain": self.doc(), b"Child": self.lst("child", "children", 2, 1)})
            if n[2] is None:
                raise Refuse("class without name")
            return [b"class", [n[1], n[2], par, list(f["stereo"][6]) if "stereo" in f else [], bb("abstract" in f), self.doc_v(f, nl, 0),
                               [self.member(x) for x in (f["child"][6] if "child" in f else [])], nl, slots]]
        if ty == b"Package":
            slots, f, nl = self.layout(n, 0, {b"Child": self.lst("child", "refs", 2, 1)})
            if n[2] is None:
                raise Refuse("package without name")
            return [b"package", [n[1], n[2], par, [x.split(b":") for x in f["child"][6]] if "child" in f else [], nl, slots]]
        if ty in (b"Realization", b"Generalization"):
            slots, f, nl = self.layout(n, 0, {b"fromModel": self.ref1("from"), b"toModel": self.ref1("to")})
            if n[2] is not None or "from" not in f or "to" not in f:
                raise Refuse("inheritance %r: name or missing end" % n[1])
            return [b"inh", [n[1], par, bb(ty == b"Realization"), self.path(f, "from"), self.path(f, "to"), nl, slots]]
        if ty == b"Association":
            def endrule(tag):
                return (tag, lambda it, nl, ws: it[0] == "children" and it[3] == b"" and it[4] == b"" and it[5] == b"" and len(it[6]) == 1
                        and it[6][0][3] == b"AssociationEnd")
            slots, f, nl = self.layout(n, 0, {b"documentation_plain": self.doc(), b"from": endrule("from"), b"to": endrule("to")})
            if "from" not in f or "to" not in f:
                raise Refuse("association %r without two ends" % n[1])

            def end(e, frm):
                sl, g, enl = self.layout(e, 1, {
                    b"Direction": self.code("dir", (b"0" if frm else b"1",)), b"EndModelElement": self.ref1("type"), b"multiplicity": self.text("mult"),
                    b"aggregationKind": self.code("agg"), b"visibility": self.code("vis"), b"providePropertyGetterMethod": self.flag("getter"),
                    b"providePropertySetterMethod": self.flag("setter"), b"readOnly": self.flag("readonly")})
                if "dir" not in g or "type" not in g:
                    raise Refuse("association end %r without Direction / EndModelElement" % e[1])
                return [e[1], [] if e[2] is None else [e[2]], self.path(g, "type"), self.txt(g, "mult"), [g["agg"][3]] if "agg" in g else [],
                        [g["vis"][3]] if "vis" in g else [], bb("getter" in g), bb("setter" in g), bb("readonly" in g), enl, sl]
            return [b"assoc", [n[1], [] if n[2] is None else [n[2]], par, self.doc_v(f, nl, 0), end(f["from"][6][0], True), end(f["to"][6][0], False), nl, slots]]
        slots, _f, nl = self.layout(n, 0, {})
        return [b"other", n[1], [] if n[2] is None else [n[2]], ty, par, nl, slots]


def bb(x):
    return b"1" if x else b"0"


def class_diagram_rows():
    """[(diagram id, name, [(shape id, row)], [referenced row])] of the shipped project, as shipped() reads them"""
    con = sqlite3.connect("file:%s?mode=ro" % os.path.join(REPO, BLOB), uri=True)
    try:
        diagrams = [tuple(tob(x) for x in r) for r in con.execute("SELECT ID, DIAGRAM_TYPE, NAME FROM DIAGRAM")]
        delems = [tuple(tob(x) for x in r) for r in con.execute("SELECT ID, SHAPE_TYPE, DIAGRAM_ID, MODEL_ELEMENT_ID FROM DIAGRAM_ELEMENT")]
        melems = {}
        for r in con.execute("SELECT ID, MODEL_TYPE, PARENT_ID, NAME, DEFINITION FROM MODEL_ELEMENT"):
            r = tuple(tob(x) for x in r)
            melems[r[0]] = r
    finally:
        con.close()
    out = []
    for did, t, dname in diagrams:
        if t != b"ClassDiagram":
            continue
        drawn = [(eid, melems[mid]) for (eid, _shape, dg, mid) in delems if dg == did]
        drawn_ids = [row[0] for _e, row in drawn]
        refd = []
        for _e, row in drawn:
            for tok in IDTOK.findall(row[4]):
                if tok in melems and tok not in drawn_ids and tok not in refd:
                    refd.append(tok)
        out.append((did, dname, drawn, [melems[i] for i in refd]))
    return out


def semantic_real():
    """[(name, S value)]: both shipped class diagrams as semantic diagrams WITH all their other properties (inert slots)"""
    A = Abstract()
    res = []
    for did, dname, drawn, refd in class_diagram_rows():
        shapes = [[eid, A.elem(row, read_blob(row[4]))] for eid, row in drawn]
        refs = []
        for row in refd:
            n = read_blob(row[4])
            slots, _f, nl = A.layout(n, 0, {})
            if n[2] is None:
                raise Refuse("referenced element %r without name" % n[1])
            refs.append([n[1], n[2], n[3], [row[2]] if row[2] is not None else [], nl, slots])
        res.append((dname, [did, dname, shapes, refs]))
    return res


def semantic_shipped():
    """Gen/UmlSemShipped.v: both shipped class diagrams as semantic diagrams, every property the semantic model does not know kept
    as an inert slot (Proofs/UmlSemCalib.v checks that writing them reproduces the shipped rows byte for byte)"""
    out = ["From KV Require Import Lib.Str Model.Vpp Model.UmlWriter Model.UmlSem.\n"]
    names = []
    for dname, S in semantic_real():
        nm = "sem_" + dname.decode()
        out.append("Definition %s : sdiagram :=\n%s.\n" % (nm, sem_coq(S)))
        names.append(nm)
    out.append("Definition shipped_sem : list sdiagram := %s." % coq_list(names))
    return "\n".join(out) + "\n"


def run():
    tree = parse(SRC)
    fs = parse(SRC_FS)
    cpp = parse(SRC_CPP)
    out = []
    out.append("Definition visibility_codes : list (string * string) := [%s]." % "; ".join(
        "(%s, %s)" % (coq_bs(k), coq_bs(v)) for k, v in class_consts(tree, "Visibility")))
    out.append("Definition vis_strings : list string := %s." % coq_str_list(
        [n.value.value for n in ast.walk(find_def(tree, "VisibilityToHumanReadableString")) if isinstance(n, ast.Return) and isinstance(n.value, ast.Constant)]))
    for name in ("SCOPE_CLASSIFIER", "DIRECTION_IN", "DIRECTION_OUT", "AGGREGATION_KIND__AGGREGATE", "AGGREGATION_KIND__COMPOSITE"):
        out.append("Definition %s : string := %s." % (name.lower(), coq_bs(module_const(tree, name))))
    out.append("Definition clean_modifier_chain : list (string * string) := [%s]." % "; ".join(
        "(%s, %s)" % (coq_bs(a), coq_bs(b)) for a, b in replace_pairs(find_def(tree, "CleanModifiersFromType"), "CleanModifiersFromType")))
    out.append("Definition loadandtest_dispatch : list string := %s." % coq_str_list(dispatch_literals(find_def(tree, "LoadAndTest", "ClassDiagram"), "MODEL_TYPE")))
    fns = [("class_operation", find_def(tree, "__init__", "ClassOperation")), ("class_attribute", find_def(tree, "__init__", "ClassAttribute")),
           ("stereotypes", find_def(tree, "ParseStereotypesAbstractAndDocs", "Class")), ("parse_attributes", find_def(tree, "ParseAttributes", "Class")),
           ("parse_operations", find_def(tree, "ParseOperations", "Class")), ("package", find_def(tree, "ParseClassesInPackage", "Package")),
           ("inheritance", find_def(tree, "Parse", "Inheritance")), ("association", find_def(tree, "ParseAssociation", "Association")),
           ("nested_type_names", find_def(tree, "GetNestedTypeNamesFromNestedTypeIDS")), ("values_from_outside", find_def(fs, "Get_ValuesFromOutside")),
           ("parse_blob", find_def(fs, "ParseBLOB_Recursive")), ("split_outside_quotes", find_def(fs, "SplitOutsideQuotes")), ("unquote_name", find_def(fs, "UnquoteName")), ("container_type", find_def(tree, "GetContainerMultiplicityType", "Class")),
           ("type_and_name", find_def(cpp, "GetTypeAndNameFromMultiplicityAndModifier", "LanguageCPP")),
           ("default_format", find_def(cpp, "GetDefaultFormatFromMultiplicityAndModifier", "LanguageCPP")),
           ("loadandtest", find_def(tree, "LoadAndTest", "ClassDiagram"))]
    for name, fn in fns:
        out.append("Definition literals_%s : list string := %s." % (name, coq_str_list(literals(fn))))
    write_gen("UmlBlobSrc.v", "\n".join(out) + "\n", [SRC, SRC_FS, SRC_CPP])
    write_gen("UmlSemShipped.v", semantic_shipped(), [BLOB, SRC, SRC_FS])
    return write_gen("UmlBlobShipped.v", shipped(), [BLOB, SRC])


if __name__ == "__main__":
    print(run())
