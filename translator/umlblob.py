"""kojen/vppclassdiagram.py + kojen/test/blob.xml  ->  Gen/UmlBlobSrc.v (source constants of the class-diagram reader)
                                                       Gen/UmlBlobShipped.v (the shipped class diagrams as structured blobs)

Gen/UmlBlobSrc.v (fail closed, from the AST):
  visibility_codes   class Visibility: (name, code) in source order;  vis_to_string: the if-chain of VisibilityToHumanReadableString
  scope_classifier / direction_in / direction_out / aggregation_aggregate / aggregation_composite   module constants
  clean_modifier_chain   CleanModifiersFromType: the ordered .replace(a, b) chain
  loadandtest_dispatch   ClassDiagram.LoadAndTest: the MODEL_TYPE literals of the if/elif chain, in order
  stereotype_chain       Class.ParseStereotypesAbstractAndDocs: the NAME.lower().find(<literal>) literals of the if/elif chain
  literals_<function>    every string literal of ClassOperation.__init__, ClassAttribute.__init__, Class.ParseStereotypesAbstractAndDocs,
                         Class.ParseAttributes, Class.ParseOperations, Package.ParseClassesInPackage, Inheritance.Parse,
                         Association.ParseAssociation, GetNestedTypeNamesFromNestedTypeIDS, vppfs.Get_ValuesFromOutside,
                         vppfs.ParseBLOB_Recursive, vppfs.SplitOutsideQuotes, LanguageCPP.GetTypeAndNameFromMultiplicityAndModifier,
                         LanguageCPP.GetDefaultFormatFromMultiplicityAndModifier, Class.GetContainerMultiplicityType -- in source order;
                         Proofs/UmlBlobPins.v pins them to the literals Model/UmlBlob.v was written against
Gen/UmlBlobShipped.v:
  shipped_cdb        every DIAGRAM / DIAGRAM_ELEMENT row and the MODEL_ELEMENT rows the class diagrams draw or refer to
  shipped_W          the class diagrams read off those rows as structured blobs (Model/UmlWriter.v); Coq re-checks that printing
                     them gives back the stored bytes (Proofs/UmlBlobCalib.v), so this reading is not trusted
"""
import ast
import os
import re
import sqlite3
import warnings

warnings.simplefilter('ignore')

from .common import REPO, Refuse, coq_bs, coq_str_list, const_str, find_def, parse, write_gen

SRC = "kojen/vppclassdiagram.py"
SRC_FS = "kojen/vppfs.py"
SRC_CPP = "kojen/LanguageCPP.py"
BLOB = "kojen/test/blob.xml"


def literals(fn):
    """string literals of a function body in source order (docstrings excluded)"""
    res = []
    doc = ast.get_docstring(fn, clean=False)
    for n in ast.walk(fn):
        if isinstance(n, ast.Constant) and isinstance(n.value, str) and n.value != doc:
            res.append((n.lineno, n.col_offset, n.value))
    return [v for _l, _c, v in sorted(res)]


def module_const(tree, name):
    for n in tree.body:
        if isinstance(n, ast.Assign) and len(n.targets) == 1 and isinstance(n.targets[0], ast.Name) and n.targets[0].id == name:
            return const_str(n.value, name)
    raise Refuse("module constant %s not found" % name)


def class_consts(tree, cls):
    for n in tree.body:
        if isinstance(n, ast.ClassDef) and n.name == cls:
            return [(s.targets[0].id, const_str(s.value, cls)) for s in n.body if isinstance(s, ast.Assign)]
    raise Refuse("class %s not found" % cls)


def replace_pairs(fn, what):
    body = [s for s in fn.body if not (isinstance(s, ast.Expr) and isinstance(s.value, ast.Constant))]
    if len(body) != 1 or not isinstance(body[0], ast.Return):
        raise Refuse("%s: body is not a single return" % what)
    node = body[0].value
    arg = fn.args.args[0].arg
    pairs = []
    while not (isinstance(node, ast.Name) and node.id == arg):
        if not (isinstance(node, ast.Call) and isinstance(node.func, ast.Attribute) and node.func.attr == "replace" and len(node.args) == 2):
            raise Refuse("%s: not a replace chain" % what)
        pairs.append((const_str(node.args[0], what), const_str(node.args[1], what)))
        node = node.func.value
    return pairs[::-1]


def dispatch_literals(fn, attr):
    """literals compared with <x>.<attr> by == in the function, in source order"""
    res = []
    for n in ast.walk(fn):
        if isinstance(n, ast.Compare) and len(n.ops) == 1 and isinstance(n.ops[0], ast.Eq) and isinstance(n.left, ast.Attribute) \
                and n.left.attr == attr and isinstance(n.comparators[0], ast.Constant):
            res.append((n.lineno, n.col_offset, n.comparators[0].value))
    return [v for _l, _c, v in sorted(res)]


# ------------------------------------------------------------------ structured reading of a blob

WS = b"\r\n\t "


class Reader:
    def __init__(self, data):
        self.d = data
        self.p = 0

    def ws(self):
        s = self.p
        while self.p < len(self.d) and self.d[self.p:self.p + 1] in (b"\r", b"\n", b"\t", b" "):
            self.p += 1
        return self.d[s:self.p]

    def expect(self, tok):
        if self.d[self.p:self.p + len(tok)] != tok:
            raise Refuse("blob: expected %r at %d: %r" % (tok, self.p, self.d[max(0, self.p - 30):self.p + 30]))
        self.p += len(tok)

    def node(self):
        m = re.compile(rb'([^:{};"]*):(NULL|"(?:[^"\\]|\\.)*"):([A-Za-z0-9_]+) \{', re.S).match(self.d, self.p)
        if not m:
            raise Refuse("blob: no element header at %d: %r" % (self.p, self.d[self.p:self.p + 60]))
        self.p = m.end()
        name = None if m.group(2) == b"NULL" else m.group(2)[1:-1]
        items = []
        while True:
            ws = self.ws()
            if self.d[self.p:self.p + 1] == b"}":
                self.p += 1
                return ("node", m.group(1), name, m.group(3), items, ws)
            items += self.item(ws)

    def refs(self):
        ids = []
        sep = None
        while True:
            self.expect(b"<")
            e = self.d.index(b">", self.p)
            ids.append(self.d[self.p:e])
            self.p = e + 1
            m = re.compile(rb",[\r\n\t ]*(?=<)").match(self.d, self.p)
            if not m:
                return ids, sep or b""
            if sep is not None and sep != m.group(0):
                raise Refuse("blob: reference list with varying separators")
            sep = m.group(0)
            self.p = m.end()

    def children(self):
        nodes = []
        sep = None
        while True:
            self.expect(b"{")
            nodes.append(self.node())
            self.expect(b"}")
            m = re.compile(rb",[\r\n\t ]*(?=\{)").match(self.d, self.p)
            if not m:
                return nodes, sep or b""
            if sep is not None and sep != m.group(0):
                raise Refuse("blob: child list with varying separators")
            sep = m.group(0)
            self.p = m.end()

    def item(self, ws):
        m = re.compile(rb"([A-Za-z_][A-Za-z0-9_]*)=").match(self.d, self.p)
        if not m:
            raise Refuse("blob: no key at %d: %r" % (self.p, self.d[self.p:self.p + 40]))
        key = m.group(1)
        self.p = m.end()
        c = self.d[self.p:self.p + 1]
        if c == b"<":
            ids, sep = self.refs()
            self.expect(b";")
            return [("refs", ws, key, b"", sep, b"", ids)]
        if c == b"{":
            nodes, sep = self.children()
            self.expect(b";")
            return [("children", ws, key, b"", sep, b"", nodes)]
        if c == b"(":
            save = self.p
            self.p += 1
            o = b"(" + self.ws()
            nxt = self.d[self.p:self.p + 1]
            if nxt in (b"<", b"{"):
                lst, sep = self.refs() if nxt == b"<" else self.children()
                cws = self.ws()
                self.expect(b")")
                self.expect(b";")
                return [("refs" if nxt == b"<" else "children", ws, key, o, sep, cws + b")", lst)]
            self.p = save
        if c == b'"':
            m2 = re.compile(rb'"(?:[^"\\]|\\.)*"', re.S).match(self.d, self.p)
            if not m2:
                raise Refuse("blob: unterminated quoted value")
            val = m2.group(0)
            self.p = m2.end()
            self.expect(b";")
            inner = val[1:-1]
            if re.fullmatch(rb"[\x20-\x7e]*", inner) and not re.search(rb"[=<>;\\\"()',{}]", inner) and inner == inner.strip():
                return [("field", ws, key, val)]          # a plain text value
            # free text with braces / separators (an HTML documentation): ONE piece; the reader (quote aware since the repair of
            # K-C19-6) takes everything between the quotes as text
            return [("raw", ws + key + b"=" + val + b";")]
        e = self.d.index(b";", self.p)
        val = self.d[self.p:e]
        if re.search(rb'[{}<>("]', val):
            raise Refuse("blob: unexpected scalar value %r" % val[:60])
        self.p = e + 1
        return [("field", ws, key, val)]


def read_blob(data):
    r = Reader(data)
    n = r.node()
    if r.p != len(data):
        raise Refuse("blob: trailing bytes after the element")
    if print_node(n) != data:
        raise Refuse("blob: structured reading does not print back (id %r)" % n[1])
    return n


def refs_text(sep, ids):
    return sep.join(b"<" + i + b">" for i in ids)


def print_item(it):
    k = it[0]
    if k == "field":
        return it[1] + it[2] + b"=" + it[3] + b";"
    if k == "refs":
        return it[1] + it[2] + b"=" + it[3] + refs_text(it[4], it[6]) + it[5] + b";"
    if k == "children":
        return it[1] + it[2] + b"=" + it[3] + it[4].join(b"{" + print_node(n) + b"}" for n in it[6]) + it[5] + b";"
    if k == "raw":
        return it[1]
    return b"{" + it[1] + b"}"


def print_node(n):
    _t, i, name, ty, items, tail = n
    return i + b":" + (b"NULL" if name is None else b'"' + name + b'"') + b":" + ty + b" {" + b"".join(print_item(x) for x in items) + tail + b"}"


def coq_lit(b):
    """Coq term for a byte string: printable runs as string literals (fast to parse), the rest through bs"""
    if isinstance(b, str):
        b = b.encode("utf-8")
    if not b:
        return '""'
    parts = []
    for m in re.finditer(rb"[\x20-\x7e]+|[^\x20-\x7e]+", b):
        run = m.group(0)
        if 0x20 <= run[0] <= 0x7e:
            parts.append('"' + run.decode("ascii").replace('"', '""') + '"')
        else:
            parts.append("bs [" + ";".join(str(x) for x in run) + "]")
    return parts[0] if len(parts) == 1 and parts[0].startswith('"') else "(" + " ++ ".join(parts) + ")"


def opt(b):
    return "None" if b is None else "(Some %s)" % coq_lit(b)


def coq_list(xs):
    return "[" + "; ".join(xs) + "]"


def coq_item(it):
    k = it[0]
    if k == "field":
        return "IField %s %s %s" % (coq_lit(it[1]), coq_lit(it[2]), coq_lit(it[3]))
    if k == "refs":
        return "IRefs %s %s %s %s %s %s" % (coq_lit(it[1]), coq_lit(it[2]), coq_lit(it[3]), coq_lit(it[4]), coq_lit(it[5]), coq_list([coq_lit(x) for x in it[6]]))
    if k == "children":
        return "IChildren %s %s %s %s %s %s" % (coq_lit(it[1]), coq_lit(it[2]), coq_lit(it[3]), coq_lit(it[4]), coq_lit(it[5]), coq_list([coq_node(n) for n in it[6]]))
    if k == "raw":
        return "IRaw %s" % coq_lit(it[1])
    return "IInert %s" % coq_lit(it[1])


def coq_node(n):
    _t, i, name, ty, items, tail = n
    return "(WNode %s %s %s\n      %s %s)" % (coq_lit(i), opt(name), coq_lit(ty), coq_list([coq_item(x) for x in items]), coq_lit(tail))


def tob(x):
    return None if x is None else (x if isinstance(x, bytes) else str(x).encode("utf-8"))


IDTOK = re.compile(rb"[A-Za-z0-9._]{16}")


def shipped():
    con = sqlite3.connect("file:%s?mode=ro" % os.path.join(REPO, BLOB), uri=True)
    try:
        diagrams = [tuple(tob(x) for x in r) for r in con.execute("SELECT ID, DIAGRAM_TYPE, NAME FROM DIAGRAM")]
        delems = [tuple(tob(x) for x in r) for r in con.execute("SELECT ID, SHAPE_TYPE, DIAGRAM_ID, MODEL_ELEMENT_ID FROM DIAGRAM_ELEMENT")]
        melems, order = {}, []
        for r in con.execute("SELECT ID, MODEL_TYPE, PARENT_ID, NAME, DEFINITION FROM MODEL_ELEMENT"):
            r = tuple(tob(x) for x in r)
            melems[r[0]] = r
            order.append(r[0])
    finally:
        con.close()
    cds = [d for d in diagrams if d[1] == b"ClassDiagram"]
    ws, needed = [], []
    for did, _t, dname in cds:
        drawn, refd = [], []
        for (eid, shape, dg, mid) in delems:
            if dg != did:
                continue
            if mid is None or mid not in melems:
                raise Refuse("shipped class diagram element %r has no model element" % eid)
            row = melems[mid]
            if shape != row[1]:
                raise Refuse("shipped diagram element %r: SHAPE_TYPE differs from MODEL_TYPE" % eid)
            drawn.append((eid, row))
        drawn_ids = [row[0] for _e, row in drawn]
        for _e, row in drawn:
            for tok in IDTOK.findall(row[4]):
                if tok in melems and tok not in drawn_ids and tok not in refd:
                    refd.append(tok)
        needed += [i for i in drawn_ids + refd if i not in needed]

        def welem(row):
            n = read_blob(row[4])
            if n[1] != row[0] or n[3] != row[1] or n[2] != row[3]:
                raise Refuse("row %r: columns differ from the blob header" % row[0])
            return "{| we_parent := %s; we_node := %s |}" % (opt(row[2]), coq_node(n))
        ws.append("{| wd_id := %s; wd_name := %s;\n  wd_drawn := [\n    %s];\n  wd_referenced := [\n    %s] |}" % (
            coq_lit(did), coq_lit(dname), ";\n    ".join("(%s, %s)" % (coq_lit(e), welem(row)) for e, row in drawn),
            ";\n    ".join(welem(melems[i]) for i in refd)))
    rows = [i for i in order if i in needed]
    out = ["From KV Require Import Model.Vpp Model.UmlWriter.\n"]
    out.append("Definition shipped_cdb : db := {|\n  db_diagrams := [\n    %s];\n  db_delems := [\n    %s];\n  db_melems := [\n    %s] |}." % (
        ";\n    ".join("{| dg_id := %s; dg_type := %s; dg_name := %s |}" % (coq_lit(a), coq_lit(b), coq_lit(c)) for a, b, c in diagrams),
        ";\n    ".join("{| de_id := %s; de_shape := %s; de_diagram := %s; de_model := %s |}" % (coq_lit(a), coq_lit(b), coq_lit(c), opt(d))
                       for a, b, c, d in delems),
        ";\n    ".join("{| me_id := %s; me_type := %s; me_parent := %s; me_name := %s; me_blob := %s |}" % (
            coq_lit(melems[i][0]), coq_lit(melems[i][1]), opt(melems[i][2]), opt(melems[i][3]), coq_lit(melems[i][4])) for i in rows)))
    out.append("Definition shipped_W : list wdiagram := [\n%s\n]." % ";\n".join(ws))
    return "\n".join(out) + "\n"


# ---------------------------------------------------------------- the shipped class diagrams as SEMANTIC diagrams (Model/UmlSem.v)

TAGS = {"vis": "TVis", "ret": "TRet", "typemod": "TTypeMod", "abstract": "TAbstract", "query": "TQuery", "scope": "TScope", "doc": "TDoc",
        "child": "TChild", "type": "TType", "typestring": "TTypeString", "dir": "TDir", "default": "TDefault", "mult": "TMult", "init": "TInit",
        "setter": "TSetter", "getter": "TGetter", "readonly": "TReadOnly", "stereo": "TStereo", "from": "TFrom", "to": "TTo", "agg": "TAgg"}


def sem_coq(S):
    """Coq term of an sdiagram value (the nested lists harness/umlblob.Semantic builds; the decoder twin is ocaml/cmds_zzumlsem.ml)"""
    L = coq_lit

    def o(v):
        if len(v) > 1:
            raise Refuse("option with %d members" % len(v))
        return "(Some %s)" % L(v[0]) if v else "None"

    def b(v):
        if v not in (b"0", b"1"):
            raise Refuse("boolean %r" % v)
        return "true" if v == b"1" else "false"

    def strs(v):
        return coq_list([L(x) for x in v])

    def lay(v):
        out = []
        for sl in v:
            if sl[0] == b"N" and len(sl) == 3:
                out.append("SNoise %s %s" % (L(sl[1]), L(sl[2])))
            elif sl[0] == b"T" and len(sl) == 2 and sl[1].decode() in TAGS:
                out.append("STag %s" % TAGS[sl[1].decode()])
            else:
                raise Refuse("slot %r" % (sl,))
        return coq_list(out)

    def param(v):
        i, n, basic, ty, d, md, df, mu, la = v
        dirn = {b"in": "(Some true)", b"out": "(Some false)"}.get(d, "None")
        return ("{| sp_id := %s; sp_name := %s; sp_basic := %s; sp_type := %s; sp_dir := %s; sp_mod := %s; sp_default := %s; sp_mult := %s; sp_layout := %s |}"
                % (L(i), L(n), o(basic), strs(ty), dirn, L(md), L(df), L(mu), lay(la)))

    def op(v):
        i, n, vis, ret, rm, ab, qu, st, doc, ps, la = v
        return ("{| so_id := %s; so_name := %s; so_vis := %s; so_ret := %s; so_retmod := %s; so_abstract := %s; so_query := %s; so_static := %s; so_doc := %s;\n"
                "         so_params := %s; so_layout := %s |}" % (L(i), L(n), o(vis), strs(ret), L(rm), b(ab), b(qu), b(st), L(doc), coq_list([param(x) for x in ps]), lay(la)))

    def attr(v):
        i, n, vis, ty, md, mu, doc, ini, se, ge, st, co, la = v
        return ("{| sa_id := %s; sa_name := %s; sa_vis := %s; sa_type := %s; sa_mod := %s; sa_mult := %s; sa_doc := %s; sa_init := %s; sa_setter := %s; sa_getter := %s;\n"
                "         sa_static := %s; sa_const := %s; sa_layout := %s |}" % (L(i), L(n), o(vis), strs(ty), L(md), L(mu), L(doc), L(ini), b(se), b(ge), b(st), b(co), lay(la)))

    def member(v):
        if v[0] == b"op":
            return "MOp %s" % op(v[1])
        if v[0] == b"attr":
            return "MAttr %s" % attr(v[1])
        if v[0] == b"lit":
            return "MLit %s %s %s" % (L(v[1]), L(v[2]), lay(v[3]))
        raise Refuse("member %r" % v[0])

    def end(v):
        i, n, cl, mu, agg, vis, ge, se, co, la = v
        return ("{| se_id := %s; se_name := %s; se_class := %s; se_mult := %s; se_agg := %s; se_vis := %s; se_getter := %s; se_setter := %s; se_const := %s; se_layout := %s |}"
                % (L(i), o(n), strs(cl), L(mu), o(agg), o(vis), b(ge), b(se), b(co), lay(la)))

    def elem(v):
        k = v[0]
        if k == b"class":
            i, n, par, st, ab, doc, ms, la = v[1]
            return ("EClass {| sc_id := %s; sc_name := %s; sc_parent := %s; sc_stereos := %s; sc_abstract := %s; sc_doc := %s;\n      sc_members := [\n        %s];\n      sc_layout := %s |}"
                    % (L(i), L(n), o(par), strs(st), b(ab), L(doc), ";\n        ".join(member(m) for m in ms), lay(la)))
        if k == b"package":
            i, n, par, paths, la = v[1]
            return "EPackage {| sk_id := %s; sk_name := %s; sk_parent := %s; sk_paths := %s; sk_layout := %s |}" % (L(i), L(n), o(par), coq_list([strs(x) for x in paths]), lay(la))
        if k == b"inh":
            i, par, real, fr, t, la = v[1]
            return "EInh {| si_id := %s; si_parent := %s; si_real := %s; si_from := %s; si_to := %s; si_layout := %s |}" % (L(i), o(par), b(real), strs(fr), strs(t), lay(la))
        if k == b"assoc":
            i, n, par, doc, fr, t, la = v[1]
            return ("EAssoc {| sx_id := %s; sx_name := %s; sx_parent := %s; sx_doc := %s;\n      sx_from := %s;\n      sx_to := %s;\n      sx_layout := %s |}"
                    % (L(i), o(n), o(par), L(doc), end(fr), end(t), lay(la)))
        if k == b"other":
            _k, i, n, ty, par, la = v
            return "EOther %s %s %s %s %s" % (L(i), o(n), L(ty), o(par), lay(la))
        raise Refuse("element %r" % k)

    i, n, shapes, refs = S
    return ("{| sd_id := %s; sd_name := %s;\n  sd_shapes := [\n    %s];\n  sd_refd := [\n    %s] |}" % (
        L(i), L(n), ";\n    ".join("(%s, %s)" % (L(sid), elem(e)) for sid, e in shapes),
        ";\n    ".join("{| sr_id := %s; sr_name := %s; sr_type := %s; sr_parent := %s; sr_noise := %s |}" % (L(a), L(b_), L(c), o(d), lay(e_)) for a, b_, c, d, e_ in refs)))


def semantic_shipped():
    """both shipped class diagrams, as the adaptor reads them from kojen/test/blob.xml, re-expressed as semantic diagrams (every class,
    operation, parameter, attribute, literal, package, realisation / generalisation and association with the names, types, values,
    visibilities and flags read; ids invented except those of the classes; layouts and noise drawn from a fixed seed)"""
    import random
    from harness import umlsynth as us, umlblob as ub
    out = ["From KV Require Import Lib.Str Model.Vpp Model.UmlWriter Model.UmlSem.\n"]
    names = []
    for label in us.DIAGRAMS:
        us._CACHE.pop(label, None) if hasattr(us, "_CACHE") else None
        cd = us.load(label)
        try:
            S, _name = ub.semantic_value(random.Random(0), cd)
        except ub.Unencodable as e:
            raise Refuse("shipped diagram %s has no semantic form: %s" % (label, e))
        out.append("Definition sem_%s : sdiagram :=\n%s.\n" % (label, sem_coq(S)))
        names.append("sem_" + label)
    out.append("Definition shipped_sem : list sdiagram := %s." % coq_list(names))
    return "\n".join(out) + "\n"


def run():
    tree = parse(SRC)
    fs = parse(SRC_FS)
    cpp = parse(SRC_CPP)
    out = []
    out.append("Definition visibility_codes : list (string * string) := [%s]." % "; ".join(
        "(%s, %s)" % (coq_bs(k), coq_bs(v)) for k, v in class_consts(tree, "Visibility")))
    out.append("Definition vis_strings : list string := %s." % coq_str_list(
        [n.value.value for n in ast.walk(find_def(tree, "VisibilityToHumanReadableString")) if isinstance(n, ast.Return) and isinstance(n.value, ast.Constant)]))
    for name in ("SCOPE_CLASSIFIER", "DIRECTION_IN", "DIRECTION_OUT", "AGGREGATION_KIND__AGGREGATE", "AGGREGATION_KIND__COMPOSITE"):
        out.append("Definition %s : string := %s." % (name.lower(), coq_bs(module_const(tree, name))))
    out.append("Definition clean_modifier_chain : list (string * string) := [%s]." % "; ".join(
        "(%s, %s)" % (coq_bs(a), coq_bs(b)) for a, b in replace_pairs(find_def(tree, "CleanModifiersFromType"), "CleanModifiersFromType")))
    out.append("Definition loadandtest_dispatch : list string := %s." % coq_str_list(dispatch_literals(find_def(tree, "LoadAndTest", "ClassDiagram"), "MODEL_TYPE")))
    fns = [("class_operation", find_def(tree, "__init__", "ClassOperation")), ("class_attribute", find_def(tree, "__init__", "ClassAttribute")),
           ("stereotypes", find_def(tree, "ParseStereotypesAbstractAndDocs", "Class")), ("parse_attributes", find_def(tree, "ParseAttributes", "Class")),
           ("parse_operations", find_def(tree, "ParseOperations", "Class")), ("package", find_def(tree, "ParseClassesInPackage", "Package")),
           ("inheritance", find_def(tree, "Parse", "Inheritance")), ("association", find_def(tree, "ParseAssociation", "Association")),
           ("nested_type_names", find_def(tree, "GetNestedTypeNamesFromNestedTypeIDS")), ("values_from_outside", find_def(fs, "Get_ValuesFromOutside")),
           ("parse_blob", find_def(fs, "ParseBLOB_Recursive")), ("split_outside_quotes", find_def(fs, "SplitOutsideQuotes")), ("container_type", find_def(tree, "GetContainerMultiplicityType", "Class")),
           ("type_and_name", find_def(cpp, "GetTypeAndNameFromMultiplicityAndModifier", "LanguageCPP")),
           ("default_format", find_def(cpp, "GetDefaultFormatFromMultiplicityAndModifier", "LanguageCPP")),
           ("loadandtest", find_def(tree, "LoadAndTest", "ClassDiagram"))]
    for name, fn in fns:
        out.append("Definition literals_%s : list string := %s." % (name, coq_str_list(literals(fn))))
    write_gen("UmlBlobSrc.v", "\n".join(out) + "\n", [SRC, SRC_FS, SRC_CPP])
    write_gen("UmlSemShipped.v", semantic_shipped(), [BLOB, SRC, SRC_FS])
    return write_gen("UmlBlobShipped.v", shipped(), [BLOB, SRC])


if __name__ == "__main__":
    print(run())
