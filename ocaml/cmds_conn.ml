(* commands of the connection-layer model (Model/Conn.v, Spec/StreamParse.v) *)
open Kcore

let bytes_of (s : string) : char list = List.init (String.length s) (String.get s)
let string_of (l : char list) : string = String.of_seq (List.to_seq l)
let vbytes l = S (string_of l)
let chunks v = List.map (fun c -> bytes_of (str c)) (lst v)

let rec int_of_pos = function
  | BinNums.Coq_xH -> 1
  | BinNums.Coq_xO p -> 2 * int_of_pos p
  | BinNums.Coq_xI p -> 2 * int_of_pos p + 1
let int_of_n = function BinNums.N0 -> 0 | BinNums.Npos p -> int_of_pos p
let rec pos_of_int i =
  if i = 1 then BinNums.Coq_xH
  else if i land 1 = 0 then BinNums.Coq_xO (pos_of_int (i lsr 1)) else BinNums.Coq_xI (pos_of_int (i lsr 1))
let n_of_int i = if i = 0 then BinNums.N0 else BinNums.Npos (pos_of_int i)

(* preamble argument: two bytes p0 p1 *)
let pre v = let s = str v in (s.[0], s.[1])

let outcome = function
  | Conn.Done (st, ds) ->
      L [S "ok"; vbytes st.Conn.buf; vint (int_of_n st.Conn.required); L (List.map vbytes ds)]
  | Conn.Fail (e, ds) ->
      let c = (match e with Conn.OutOfFuel -> "fuel" | Conn.OutOfBounds -> "oob" | Conn.AssertFailed -> "assert") in
      L [S c; S ""; vint 0; L (List.map vbytes ds)]

(* chunks of a stream for a cut mask: bit i set = cut after byte i (the same convention as harness/cxx/conn_probe.cpp) *)
let chunks_of_mask (s : string) (mask : int) : char list list =
  let l = String.length s in
  let res = ref [] and start = ref 0 in
  for i = 0 to l - 1 do
    if i = l - 1 || (mask lsr i) land 1 = 1 then begin
      res := bytes_of (String.sub s !start (i + 1 - !start)) :: !res; start := i + 1 end
  done;
  List.rev !res

let () =
  (* conn_feed_cuts <p0p1> <stream> -> one outcome per cut mask 0 .. 2^(len-1)-1 *)
  register "conn_feed_cuts" (function [p; s] ->
      let (p0, p1) = pre p in
      let s = str s in
      let n = if s = "" then 1 else 1 lsl (String.length s - 1) in
      L (List.init n (fun mask -> outcome (Conn.feed p0 p1 Conn.init (chunks_of_mask s mask)))) | _ -> failwith "arity");
  (* conn_feed <p0p1> [chunks]  ->  [status buf required [deliveries]] : OnDataReceived once per chunk from the initial state *)
  register "conn_feed" (function [p; cs] -> let (p0, p1) = pre p in outcome (Conn.feed p0 p1 Conn.init (chunks cs)) | _ -> failwith "arity");
  (* conn_feed_from <p0p1> <buf> <required> [chunks] : the same from an arbitrary state *)
  register "conn_feed_from" (function [p; b; r; cs] ->
      let (p0, p1) = pre p in
      outcome (Conn.feed p0 p1 { Conn.buf = bytes_of (str b); Conn.required = n_of_int (int_of r) } (chunks cs)) | _ -> failwith "arity");
  register "conn_feed_raw" (function [cs] -> L (List.map vbytes (Conn.feed_raw (chunks cs))) | _ -> failwith "arity");
  register "conn_find_preamble" (function [p; d] ->
      let (p0, p1) = pre p in
      (match Conn.find_preamble p0 p1 (bytes_of (str d)) with None -> S "none" | Some i -> vint (int_of_n i)) | _ -> failwith "arity");
  register "conn_stream_parse" (function [p; s] ->
      let (p0, _) = pre p in L (List.map vbytes (StreamParse.stream_parse p0 (bytes_of (str s)))) | _ -> failwith "arity");
  (* conn_wf <p0p1> [[filler msg] ...] tail [chunks] -> "1" iff every hypothesis of C14_reassembly holds of this input *)
  register "conn_wf" (function [p; items; tail; cs] ->
      let (p0, p1) = pre p in
      let its = List.map (fun e -> match lst e with [f; m] -> (bytes_of (str f), bytes_of (str m)) | _ -> failwith "item") (lst items) in
      let t = bytes_of (str tail) in
      let ch = chunks cs in
      vbool (List.for_all (Conn.wf_item p0 p1) its && Conn.filler_ok p0 t && List.for_all Conn.chunk_ok ch
             && List.concat ch = Conn.stream_of its t) | _ -> failwith "arity");
  register "conn_preamble_bytes" (function [n] ->
      let (a, b) = ByteSeq.preamble_bytes (n_of_int (int_of n)) in vbytes [a; b] | _ -> failwith "arity");
  register "conn_header" (function [m] ->
      let b = bytes_of (str m) in
      L [vint (int_of_n ByteSeq.size_of_header); vint (int_of_n (ByteSeq.type_id b)); vint (int_of_n (ByteSeq.payload_size b))] | _ -> failwith "arity")

(* ---- Model/Proto.v (C13) ---- *)
let z_of_int i = if i = 0 then BinNums.Z0 else if i > 0 then BinNums.Zpos (pos_of_int i) else BinNums.Zneg (pos_of_int (- i))
let rec int_of_nat = function Datatypes.O -> 0 | Datatypes.S n -> 1 + int_of_nat n
(* interface: [[id size] ...] *)
let iface v = List.map (fun e -> match lst e with [i; s] -> (n_of_int (int_of i), n_of_int (int_of s)) | _ -> failwith "iface entry") (lst v)
let vcall = function
  | Proto.Handler (i, b) -> L [S "H"; vint (int_of_nat i); vbytes b]
  | Proto.NotHandled b -> L [S "N"; vbytes b]

let () =
  (* proto_dispatch <iface> <unhandled set 0/1> <msg> -> [calls] *)
  register "proto_dispatch" (function [i; u; m] ->
      L (List.map vcall (Proto.dispatch (iface i) (str u = "1") (bytes_of (str m)))) | _ -> failwith "arity");
  (* proto_transmit <retries> <k = number of leading rejected attempts, or "never"> -> [ok calls] *)
  register "proto_transmit" (function [r; k] ->
      let accept = (match str k with "never" -> (fun _ -> false) | ks -> let kk = int_of_string ks in (fun n -> int_of_nat n >= kk)) in
      (match Proto.transmit (z_of_int (int_of r)) accept with
       | None -> S "fuel"
       | Some (ok, calls) -> L [vbool ok; vint (int_of_nat calls)]) | _ -> failwith "arity");
  register "proto_sent_bytes" (function [m] -> vbytes (Proto.sent_bytes (bytes_of (str m))) | _ -> failwith "arity");
  (* proto_round_trip <p0p1> <iface> <unhandled 0/1> [chunks] -> [calls] | "fail" *)
  register "proto_round_trip" (function [p; i; u; cs] ->
      let (p0, p1) = pre p in
      (match Proto.round_trip p0 p1 (iface i) (str u = "1") (chunks cs) with
       | None -> S "fail" | Some calls -> L (List.map vcall calls)) | _ -> failwith "arity");
  register "proto_iface_ok" (function [i] -> vbool (Proto.iface_ok (iface i)) | _ -> failwith "arity")

(* ---- Model/ConnArm.v (C14, __arm__ configuration) ---- *)
let aoutcome = function
  | ConnArm.ADone (st, ds) ->
      L [S "ok"; vbytes st.ConnArm.arr; vint (int_of_n st.ConnArm.cnt); vbool st.ConnArm.exc; vint (int_of_n st.ConnArm.areq); L (List.map vbytes ds)]
  | ConnArm.AFail (e, ds) ->
      let c = (match e with Conn.OutOfFuel -> "fuel" | Conn.OutOfBounds -> "oob" | Conn.AssertFailed -> "assert") in
      L [S c; S ""; vint 0; vbool false; vint 0; L (List.map vbytes ds)]

let () =
  (* conn_feed_arm <p0p1> <LargestMessageSize()> [chunks] -> [status array cnt exc required [deliveries]] *)
  register "conn_feed_arm" (function [p; l; cs] ->
      let (p0, p1) = pre p in
      aoutcome (ConnArm.feed_arm p0 p1 (ConnArm.eff_largest (n_of_int (int_of l))) ConnArm.ainit (chunks cs)) | _ -> failwith "arity");
  (* conn_arm_fits <LargestMessageSize()> [msgs] [chunks] -> "1" iff msg_fits / chunk_fits hold of every message / chunk *)
  register "conn_arm_fits" (function [l; ms; cs] ->
      let lg = ConnArm.eff_largest (n_of_int (int_of l)) in
      vbool (List.for_all (fun m -> ConnArm.msg_fits lg ([], m)) (chunks ms) && List.for_all (ConnArm.chunk_fits lg) (chunks cs)) | _ -> failwith "arity");
  register "conn_arm_cap" (function [] -> vint (int_of_n ConnArm.cap) | _ -> failwith "arity")
