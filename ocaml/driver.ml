(* kmodel: line-oriented driver for the extracted Coq models.
   One request per input line, one reply per output line.
   Values:  v ::= hex-string token | "-" (empty string) | "[" v* "]"
   Request: <command> v*            Reply: v   (or "!error text") *)

type v = S of string | L of v list

let hex_decode h =
  if h = "-" then "" else begin
    let n = String.length h / 2 in
    let b = Bytes.create n in
    for i = 0 to n - 1 do
      Bytes.set b i (Char.chr (int_of_string ("0x" ^ String.sub h (2 * i) 2)))
    done;
    Bytes.to_string b
  end

let hex_encode s =
  if s = "" then "-" else begin
    let b = Buffer.create (2 * String.length s) in
    String.iter (fun c -> Buffer.add_string b (Printf.sprintf "%02x" (Char.code c))) s;
    Buffer.contents b
  end

let parse_tokens toks =
  let rec value = function
    | "[" :: rest -> let (items, rest') = items rest [] in (L items, rest')
    | "]" :: _ -> failwith "unexpected ]"
    | t :: rest -> (S (hex_decode t), rest)
    | [] -> failwith "unexpected end"
  and items toks acc =
    match toks with
    | "]" :: rest -> (List.rev acc, rest)
    | [] -> failwith "missing ]"
    | _ -> let (v, rest) = value toks in items rest (v :: acc)
  in
  let rec all toks acc =
    match toks with
    | [] -> List.rev acc
    | _ -> let (v, rest) = value toks in all rest (v :: acc)
  in
  all toks []

let rec print b = function
  | S s -> Buffer.add_string b (hex_encode s)
  | L l -> Buffer.add_string b "["; List.iter (fun x -> Buffer.add_char b ' '; print b x) l; Buffer.add_string b " ]"

let str = function S s -> s | L _ -> failwith "expected string"
let lst = function L l -> l | S _ -> failwith "expected list"
let strs v = List.map str (lst v)
let vstrs l = L (List.map (fun s -> S s) l)
let vbool b = S (if b then "1" else "0")
let tags v = List.map (fun p -> match lst p with [k; b] -> (str k, strs b) | _ -> failwith "tag pair") (lst v)
let vtags t = L (List.map (fun (k, b) -> L [S k; vstrs b]) t)

let old_of v =
  (* [ [name kind content] ... ] kind: "M" missing, "U" unreadable, "R" readable *)
  let tbl = List.map (fun e -> match lst e with
      | [n; k; c] -> (str n, (match str k with
          | "U" -> Preserve.Unreadable | "R" -> Preserve.Readable (str c) | _ -> Preserve.Missing))
      | _ -> failwith "old entry") (lst v) in
  fun name -> (try List.assoc name tbl with Not_found -> Preserve.Missing)

let cmodel v = List.map (fun e -> match lst e with [n; ls] -> (str n, strs ls) | _ -> failwith "cmodel entry") (lst v)

let handle cmd args =
  match cmd, args with
  | "clean", [s] -> S (Preserve.kof (str s))
  | "tab4", [s] -> S (Str.tab4 (str s))
  | "split_lines", [s] -> vstrs (Str.split_lines (str s))
  | "read_lines", [s] -> vstrs (Preserve.read_lines (str s))
  | "collect", [ls] -> vtags (Preserve.collect (strs ls))
  | "emplace", [r; tg; ls] ->
      let (out, used) = Preserve.emplace (str r = "1") (tags tg) (strs ls) in L [vstrs out; vstrs used]
  | "preserve1", [p; fresh; old] ->
      let (out, lost) = Preserve.preserve1 (str p) (strs fresh) (strs old) in L [vstrs out; vstrs lost]
  | "regen", [outdir; old; fresh] ->
      let (written, returned) = Preserve.regen (str outdir) (old_of old) (cmodel fresh) in
      L [L (List.map (fun (n, c) -> L [S n; S c]) written); vstrs returned]
  | "file_sync", [a; b] -> S (Preserve.file_sync (str a) (str b))
  | "wf_fresh", [ls] -> vbool (Preserve.wf_fresh_file (strs ls))
  | "join", [a; b] -> S (Preserve.join (str a) (str b))
  | _ -> failwith ("unknown command or arity: " ^ cmd)

let () =
  try
    while true do
      let line = input_line stdin in
      let toks = List.filter (fun t -> t <> "") (String.split_on_char ' ' line) in
      (match toks with
       | [] -> print_string "!empty\n"
       | cmd :: rest ->
           (try
              let r = handle cmd (parse_tokens rest) in
              let b = Buffer.create 1024 in
              print b r; Buffer.add_char b '\n'; print_string (Buffer.contents b)
            with e -> print_string ("!" ^ Printexc.to_string e ^ "\n")));
      flush stdout
    done
  with End_of_file -> ()
