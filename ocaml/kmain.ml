(* kmodel main loop: one request per line  "<command> v*",  one reply per line  "v"  or  "!error" *)
open Kcore

let () =
  try
    while true do
      let line = input_line stdin in
      let toks = List.filter (fun t -> t <> "") (String.split_on_char ' ' line) in
      (match toks with
       | [] -> print_string "!empty\n"
       | cmd :: rest ->
           (try
              let f = (try Hashtbl.find registry cmd with Not_found -> failwith ("unknown command: " ^ cmd)) in
              let r = f (parse_tokens rest) in
              let b = Buffer.create 1024 in
              print b r; Buffer.add_char b '\n'; print_string (Buffer.contents b)
            with e -> print_string ("!" ^ Printexc.to_string e ^ "\n")));
      flush stdout
    done
  with End_of_file -> ()
