(* commands of the state-machine models: transition-table model, table interpreter, generated Python program *)
open Kcore

let rec nat_of_int (i : int) : Datatypes.nat = if i <= 0 then Datatypes.O else Datatypes.S (nat_of_int (i - 1))
let rec int_of_nat (n : Datatypes.nat) : int = match n with Datatypes.O -> 0 | Datatypes.S m -> 1 + int_of_nat m

let row_of v = match strs v with
  | [s; e; n; a; g] -> { TableDef.r_src = s; r_ev = e; r_next = n; r_act = a; r_guard = g }
  | _ -> failwith "row"
let table_of v = List.map row_of (lst v)
let vrow (r : TableDef.row) = vstrs [r.TableDef.r_src; r.r_ev; r.r_next; r.r_act; r.r_guard]

(* guard oracle from a list of "0"/"1" indexed by call count (false beyond the end) *)
let gv_of v : TableInterp.gval =
  let bits = Array.of_list (List.map (fun s -> s = "1") (strs v)) in
  fun n _ -> let i = int_of_nat n in if i < Array.length bits then bits.(i) else false

let vcb = function
  | TableInterp.CGuard (g, e) -> vstrs ["guard"; g; e]
  | TableInterp.CExit (s, e) -> vstrs ["exit"; s; e]
  | TableInterp.CAction (a, e) -> vstrs ["action"; a; e]
  | TableInterp.CEntry (s, e) -> vstrs ["entry"; s; e]
  | TableInterp.CNoTrans e -> vstrs ["notrans"; ""; e]
let vsteps l = L (List.map (fun (cbs, st) -> L [L (List.map vcb cbs); S st]) l)

let vatom (a : PySM.patom) = match a with
  | PySM.ADef n -> ["def"; n] | PySM.AIfState s -> ["ifstate"; s] | PySM.ACallState s -> ["callstate"; s]
  | PySM.AReturn -> ["return"; ""] | PySM.AIfEvent e -> ["ifevent"; e] | PySM.AIfGuard g -> ["ifguard"; g]
  | PySM.AIfTrue -> ["iftrue"; ""] | PySM.AExit s -> ["exit"; s] | PySM.AAction a -> ["action"; a]
  | PySM.AEntry s -> ["entry"; s] | PySM.AEntryStartup s -> ["entry0"; s] | PySM.ASetState s -> ["setstate"; s]
  | PySM.ANoTrans -> ["notrans"; ""] | PySM.ASkip -> ["skip"; ""] | PySM.ABad -> ["bad"; ""]
let atom_of k n : PySM.patom = match k with
  | "def" -> PySM.ADef n | "ifstate" -> PySM.AIfState n | "callstate" -> PySM.ACallState n | "return" -> PySM.AReturn
  | "ifevent" -> PySM.AIfEvent n | "ifguard" -> PySM.AIfGuard n | "iftrue" -> PySM.AIfTrue | "exit" -> PySM.AExit n
  | "action" -> PySM.AAction n | "entry" -> PySM.AEntry n | "entry0" -> PySM.AEntryStartup n
  | "setstate" -> PySM.ASetState n | "notrans" -> PySM.ANoTrans | "skip" -> PySM.ASkip | _ -> PySM.ABad
let vline ((i, a) : PySM.line) = vstrs (string_of_int (int_of_nat i) :: vatom a)
let line_of v : PySM.line = match strs v with
  | [i; k; n] -> (nat_of_int (int_of_string i), atom_of k n)
  | _ -> failwith "line"

let () =
  register "tt_wf" (function [t] -> vbool (TTable.wf_table (table_of t)) | _ -> failwith "arity");
  register "tt_model" (function [t] ->
      let t = table_of t in
      L [vstrs (TTable.states t); vstrs (TTable.events t); vstrs (TTable.actions t); vstrs (TTable.guards t);
         L (List.map (fun (a, e) -> vstrs [a; e]) (TTable.actionsignatures t));
         L (List.map (fun s -> L [S s; L (List.map (fun e -> L [S e; L (List.map vrow (TTable.trans_of t s e))])
                                            (TTable.events_of t s))]) (TTable.tps_states t));
         S (TTable.getfirststate t)]
    | _ -> failwith "arity");
  register "table_interp" (function [t; evs; bits] ->
      vsteps (TableInterp.table_interp (table_of t) (strs evs) (gv_of bits)) | _ -> failwith "arity");
  register "gen_py" (function [t] -> L (List.map vline (PySM.gen_py (table_of t))) | _ -> failwith "arity");
  register "py_parses" (function [ls] ->
      vbool (match PySM.parse_indent (List.map line_of (lst ls)) with Some _ -> true | None -> false) | _ -> failwith "arity");
  register "run_py" (function [t; evs; bits] ->
      (match PySM.parse_indent (PySM.gen_py (table_of t)) with
       | None -> L [S "noparse"]
       | Some p -> (match PySM.run_py p (strs evs) (gv_of bits) with
           | None -> L [S "error"]
           | Some r -> L [S "ok"; vsteps r]))
    | _ -> failwith "arity")

let vsml (i : SmlTT.smlitem) = match i with
  | SmlTT.IRow r -> vstrs ["row"; (if r.SmlTT.q_init then "1" else "0"); r.q_src; r.q_ev; r.q_guard; r.q_act;
                           (match r.q_target with Some n -> n | None -> ""); (match r.q_target with Some _ -> "1" | None -> "0")]
  | SmlTT.IEntry (s, a) -> vstrs ["entry"; s; a]
  | SmlTT.IExit (s, a) -> vstrs ["exit"; s; a]

let () =
  register "gen_sml" (function [ee; t] -> L (List.map vsml (SmlTT.gen_sml (str ee = "1") (table_of t))) | _ -> failwith "arity")

let vctok (t : CsSM.ctok) = match t with
  | CsSM.TIf g -> vstrs ["if"; g] | CsSM.TOpen -> vstrs ["{"; ""] | CsSM.TClose -> vstrs ["}"; ""]
  | CsSM.TExit s -> vstrs ["exit"; s] | CsSM.TAction a -> vstrs ["action"; a] | CsSM.TEnter s -> vstrs ["enter"; s]
  | CsSM.TSetState s -> vstrs ["setstate"; s] | CsSM.TReturn -> vstrs ["return"; ""]
let ctok_of v : CsSM.ctok = match strs v with
  | ["if"; g] -> CsSM.TIf g | ["{"; _] -> CsSM.TOpen | ["}"; _] -> CsSM.TClose | ["exit"; s] -> CsSM.TExit s
  | ["action"; a] -> CsSM.TAction a | ["enter"; s] -> CsSM.TEnter s | ["setstate"; s] -> CsSM.TSetState s
  | ["return"; _] -> CsSM.TReturn | _ -> failwith "ctok"

let () =
  register "gen_cs" (function [t] ->
      let t = table_of t in
      L (List.map (fun s -> L [S s; L (List.map (fun e -> L [S e; L (List.map vctok (CsSM.cs_handler t s e))]) (CsSM.cs_handlers t s))])
           (CsSM.cs_classes t))
    | _ -> failwith "arity");
  register "cs_parses" (function [ts] ->
      vbool (match CsSM.parse_braces (List.map ctok_of (lst ts)) with Some _ -> true | None -> false) | _ -> failwith "arity");
  register "step_quiet" (function [t; s; e; bits] ->
      let t = table_of t in
      let ((tr, c), n) = TableInterp.step_rows_quiet (gv_of bits) Datatypes.O (str s) (str e) (TableDef.rows_for t (str s) (str e)) in
      L [L (List.map vcb tr); S c; vint (int_of_nat n)]
    | _ -> failwith "arity")

(* declarations of the generated units: (kind, name, params) triples *)
let dk_name (k : DeclShape.dk) = match k with
  | DeclShape.KEventStruct -> "KEventStruct"
  | DeclShape.KEventPtrTypedef -> "KEventPtrTypedef"
  | DeclShape.KCtlGuard -> "KCtlGuard"
  | DeclShape.KCtlGuardMember -> "KCtlGuardMember"
  | DeclShape.KCtlEntry -> "KCtlEntry"
  | DeclShape.KCtlExit -> "KCtlExit"
  | DeclShape.KCtlAction -> "KCtlAction"
  | DeclShape.KIfcIs -> "KIfcIs"
  | DeclShape.KIfcTrigger -> "KIfcTrigger"
  | DeclShape.KFwdState -> "KFwdState"
  | DeclShape.KGuardFunctor -> "KGuardFunctor"
  | DeclShape.KEntryFunctor -> "KEntryFunctor"
  | DeclShape.KExitFunctor -> "KExitFunctor"
  | DeclShape.KActionFunctor -> "KActionFunctor"
  | DeclShape.KInstEntry -> "KInstEntry"
  | DeclShape.KInstExit -> "KInstExit"
  | DeclShape.KInstAction -> "KInstAction"
  | DeclShape.KInstGuard -> "KInstGuard"
  | DeclShape.KDispatchDef -> "KDispatchDef"
  | DeclShape.KImplIs -> "KImplIs"
  | DeclShape.KImplTrigger -> "KImplTrigger"
  | DeclShape.KTestGuard -> "KTestGuard"
  | DeclShape.KTestEntry -> "KTestEntry"
  | DeclShape.KTestExit -> "KTestExit"
  | DeclShape.KTestAction -> "KTestAction"
  | DeclShape.KCsEventClass -> "KCsEventClass"
  | DeclShape.KCsGuard -> "KCsGuard"
  | DeclShape.KCsAction -> "KCsAction"
  | DeclShape.KCsEntry -> "KCsEntry"
  | DeclShape.KCsExit -> "KCsExit"
  | DeclShape.KCsIs -> "KCsIs"
  | DeclShape.KCsTrigger -> "KCsTrigger"
  | DeclShape.KCsEnum -> "KCsEnum"
  | DeclShape.KCsBaseHandler -> "KCsBaseHandler"
  | DeclShape.KCsDispatchPart -> "KCsDispatchPart"
  | DeclShape.KCsStateClass -> "KCsStateClass"
let fid_of = function
  | "ctl" -> Decls.FCtl | "ifc" -> Decls.FIfc | "impl" -> Decls.FImpl | "test" -> Decls.FTest
  | "cs_context" -> Decls.FCsContext | "cs_sm" -> Decls.FCsSm | "cs_internals" -> Decls.FCsInternals | _ -> failwith "fid"
let fid_name = function
  | Decls.FCtl -> "ctl" | Decls.FIfc -> "ifc" | Decls.FImpl -> "impl" | Decls.FTest -> "test"
  | Decls.FCsContext -> "cs_context" | Decls.FCsSm -> "cs_sm" | Decls.FCsInternals -> "cs_internals"
let iface_of v = List.map (fun e -> match lst e with [n; ps] -> (str n, strs ps) | _ -> failwith "iface entry") (lst v)
let vdecl ((k, n), ps) = L [S (dk_name k); S n; vstrs ps]

let () =
  register "decls" (function [f; t; i] -> L (List.map vdecl (Decls.decls_file (fid_of (str f)) (table_of t) (iface_of i))) | _ -> failwith "arity");
  register "refs" (function [lang; t; i] ->
      let r = if str lang = "cs" then Decls.refs_cs (table_of t) (iface_of i) else Decls.refs_cpp (table_of t) (iface_of i) in
      L (List.map (fun (f, d) -> L [S (fid_name f); vdecl d]) r) | _ -> failwith "arity")


let () =
  register "run_cs" (function [t; evs; bits] ->
      (match CsSM.run_cs (table_of t) (strs evs) (gv_of bits) with
       | None -> L [S "error"]
       | Some r -> L [S "ok"; vsteps r])
    | _ -> failwith "arity");
  register "table_interp_quiet" (function [t; evs; bits] ->
      vsteps (TableInterp.table_interp_quiet (table_of t) (strs evs) (gv_of bits)) | _ -> failwith "arity")


let () =
  register "sml_run" (function [t; evs; bits] ->
      vsteps (SmlTT.sml_run (SmlTT.gen_sml true (table_of t)) (strs evs) (gv_of bits)) | _ -> failwith "arity");
  register "camel_interp_quiet" (function [t; evs; bits] ->
      vsteps (SmlTT.camel_steps (TableInterp.table_interp_quiet (table_of t) (strs evs) (gv_of bits))) | _ -> failwith "arity")


let () =
  register "cs_threaded" (function [t; evs; bits; sched] ->
      let t = table_of t in
      let s = CsThreads.trun t (gv_of bits) (List.map (fun b -> b = "1") (strs sched)) (CsThreads.tinit t (strs evs)) in
      L [vsteps s.CsThreads.t_out; vint (List.length s.CsThreads.t_q); vint (List.length s.CsThreads.t_pend)]
    | _ -> failwith "arity")
