(* commands of the UML class generator model (Model/Uml.v) *)
open Kcore

let b v = str v = "1"
let rec nat_of_int n = if n <= 0 then Datatypes.O else Datatypes.S (nat_of_int (n - 1))

let param v = match lst v with [t; n; d; e] -> { Uml.p_type = str t; p_name = str n; p_default = str d; p_ext = str e } | _ -> failwith "param"
let oper v = match lst v with
  | [n; vis; ret; ps; vi; st; co] ->
      { Uml.o_name = str n; o_vis = str vis; o_ret = str ret; o_params = List.map param (lst ps); o_virtual = b vi; o_static = b st; o_const = b co }
  | _ -> failwith "oper"
let cls v = match lst v with
  | [i; n; ns; en; st; au; pu; ops] ->
      { Uml.c_id = str i; c_name = str n; c_ns = str ns; c_enum = b en; c_struct = b st; c_autogen = b au; c_pure = b pu;
        c_ops = List.map oper (lst ops) }
  | _ -> failwith "cls"
let inh v = match lst v with [t; f; r] -> { Uml.i_to = str t; i_from = str f; i_real = b r } | _ -> failwith "inh"
let diagram v = match lst v with
  | [cs; is] -> { Uml.classes = List.map cls (lst cs); inhs = List.map inh (lst is) } | _ -> failwith "cdiagram"

let find_cls (d : Uml.cdiagram) id =
  match Uml.find_class d.Uml.classes id with Some c -> c | None -> failwith "class id not in diagram"

let ventry e =
  let ((((c, r), n), ps), k) = Uml.signature e in
  L [S (Uml.decl_line e); S (Uml.def_head e); L [S c; S r; S n; L (List.map (fun (t, x) -> L [S t; S x]) ps); vbool k]; S e.Uml.en_owner]
let vopt_entries = function None -> L [] | Some es -> L [L (List.map ventry es)]

(* the raw diagram of the include / forward-declaration computation (Model/UmlIncl.v) *)
let ityped v = match lst v with [t; m; mu] -> { UmlIncl.it_type = str t; it_mod = str m; it_mult = str mu } | _ -> failwith "ityped"
let iop v = match lst v with [r; rm; ps] -> { UmlIncl.io_ret = str r; io_retmod = str rm; io_params = List.map ityped (lst ps) } | _ -> failwith "iop"
let icls v = match lst v with
  | [i; n; ns; pu; ats; ops] -> { UmlIncl.ic_id = str i; ic_name = str n; ic_ns = str ns; ic_pure = b pu; ic_attrs = List.map ityped (lst ats); ic_ops = List.map iop (lst ops) }
  | _ -> failwith "icls"
let iinh v = match lst v with [t; fi; f; r] -> { UmlIncl.ii_to = str t; ii_from_id = str fi; ii_from = str f; ii_real = b r } | _ -> failwith "iinh"
let iassoc v = match lst v with
  | [ty; fi; f; ti; t; fm; tm] -> { UmlIncl.ix_type = str ty; ix_from_id = str fi; ix_from = str f; ix_to_id = str ti; ix_to = str t; ix_from_mult = str fm; ix_to_mult = str tm }
  | _ -> failwith "iassoc"
let idiagram v = match lst v with
  | [cs; is; xs] -> { UmlIncl.i_classes = List.map icls (lst cs); i_inhs = List.map iinh (lst is); i_assocs = List.map iassoc (lst xs) } | _ -> failwith "idiagram"
let find_icls (d : UmlIncl.idiagram) id = match UmlIncl.find_icls d.UmlIncl.i_classes id with Some c -> c | None -> failwith "class id not in diagram"

let vcs_entry e =
  let ((((c, r), n), ps), _k) = Uml.signature e in
  L [S (UmlCs.cs_line e); vbool (UmlCs.cs_has_body e); L [S c; S r; S n; L (List.map (fun (t, x) -> L [S t; S x]) ps)]; S e.Uml.en_owner; vbool e.Uml.en_realised]
let vopt_cs = function None -> L [] | Some es -> L [L (List.map vcs_entry es)]

let () =
  register "incl_all" (function [fuel; nsf; d; id] ->
      let d = idiagram d in
      let c = find_icls d (str id) in
      L [vstrs (UmlIncl.nfd d c); vstrs (UmlIncl.fd d c);
         (match UmlIncl.header_includes (nat_of_int (int_of fuel)) (b nsf) d c with None -> L [] | Some l -> L [vstrs l]);
         vstrs (UmlIncl.source_includes (b nsf) d c); vstrs (UmlIncl.forward_decls d c)] | _ -> failwith "arity");
  register "incl_nsdeps" (function [d] ->
      L (List.map (fun (ns, deps) -> L [S ns; vstrs deps]) (UmlIncl.namespace_deps (idiagram d))) | _ -> failwith "arity");
  register "uml_ops_cs" (function [fuel; d; vis; id] ->
      let d = diagram d in
      vopt_cs (UmlCs.ops_of_cs (nat_of_int (int_of fuel)) d (str vis) (find_cls d (str id))) | _ -> failwith "arity");
  register "uml_members_cs" (function [fuel; d; id] ->
      let d = diagram d in vopt_cs (UmlCs.members_cs (nat_of_int (int_of fuel)) d (find_cls d (str id))) | _ -> failwith "arity");
  register "uml_files_all" (function [lang; nsf; dname; d] ->
      let tf = if str lang = "cs" then UmlSrc.template_files_cs else UmlSrc.template_files in
      L (List.map (fun (f, c) -> L [S f; S c]) (UmlCs.files_all tf (b nsf) (str dname) (diagram d))) | _ -> failwith "arity");
  register "uml_files_hyp_cs" (function [nsf; dname; d] -> vbool (UmlSpec.files_hyp_cs (b nsf) (str dname) (diagram d)) | _ -> failwith "arity");
  register "uml_expected_files_cs" (function [nsf; dname; d] ->
      L (List.map (fun (f, c) -> L [S f; S c]) (UmlSpec.expected_files_cs (b nsf) (str dname) (diagram d))) | _ -> failwith "arity");
  register "uml_once_hyp" (function [lang; d; id] ->
      let d = diagram d in
      let c = find_cls d (str id) in
      vbool (if str lang = "cs" then Uml.once_hyp (UmlCs.cs_view d) (UmlCs.cs_cls c) else Uml.once_hyp d c) | _ -> failwith "arity");
  register "uml_files" (function [lang; nsf; d] ->
      let tf = if str lang = "cs" then UmlSrc.template_files_cs else UmlSrc.template_files in
      L (List.map (fun (f, c) -> L [S f; S c]) (Uml.files_of tf (b nsf) (diagram d))) | _ -> failwith "arity");
  register "uml_ops" (function [fuel; d; vis; id] ->
      let d = diagram d in
      vopt_entries (Uml.ops_of (nat_of_int (int_of fuel)) d (str vis) "" [] (find_cls d (str id))) | _ -> failwith "arity");
  register "uml_decls" (function [fuel; d; id] ->
      let d = diagram d in vopt_entries (Uml.decls_of (nat_of_int (int_of fuel)) d (find_cls d (str id))) | _ -> failwith "arity");
  register "uml_defs" (function [fuel; d; id] ->
      let d = diagram d in vopt_entries (Uml.defs_of (nat_of_int (int_of fuel)) d (find_cls d (str id))) | _ -> failwith "arity");
  register "uml_ns" (function [ns] -> L [S (Uml.ns_begin (str ns)); S (Uml.ns_end (str ns))] | _ -> failwith "arity");
  register "uml_acyclic" (function [d] -> vbool (Uml.acyclic (diagram d)) | _ -> failwith "arity");
  register "uml_closed" (function [d] -> vbool (Uml.closed (diagram d)) | _ -> failwith "arity");
  register "uml_files_hyp" (function [nsf; d] ->
      let d = diagram d in
      L [vbool (UmlSpec.files_hyp (b nsf) d); vbool (List.for_all UmlSpec.path_ok d.Uml.classes); vbool (UmlSpec.distinct_paths (b nsf) d)]
      | _ -> failwith "arity");
  register "uml_expected_files" (function [nsf; d] ->
      L (List.map (fun (f, c) -> L [S f; S c]) (UmlSpec.expected_files (b nsf) (diagram d))) | _ -> failwith "arity");
  register "uml_wf_vis" (function [d] -> vbool (Uml.wf_vis (diagram d)) | _ -> failwith "arity");
  register "uml_replace" (function [p; q; s] -> S (Uml.replace_all (str p) (str q) (str s)) | _ -> failwith "arity");
  register "uml_split2" (function [s] -> vstrs (Uml.split2 ':' ':' (str s)) | _ -> failwith "arity");
  register "uml_lower" (function [s] -> S (Uml.lower (str s)) | _ -> failwith "arity")
