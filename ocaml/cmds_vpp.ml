(* commands of the Visual Paradigm reader model (Model/Vpp.v), the assumed writer (Model/VppWriter.v) and Spec/VppSpec.v *)
open Kcore

let opt v = match lst v with [] -> None | [x] -> Some (str x) | _ -> failwith "option"
let vopt = function None -> L [] | Some s -> L [S s]

let pelem v = match lst v with
  | [i; t; n; p; b] -> { VppWriter.p_id = str i; p_type = str t; p_name = opt n; p_parent = opt p; p_blob = str b }
  | _ -> failwith "pelem"

let key_of = function "to" -> VppWriter.KTo | "from" -> VppWriter.KFrom | "guard" -> VppWriter.KGuard | "effect" -> VppWriter.KEffect
                      | _ -> failwith "key"

let field v = match lst v with
  | [k; s] -> (match str k with "N" -> VppWriter.FNoise (str s) | "K" -> VppWriter.FKey (key_of (str s)) | _ -> failwith "field kind")
  | _ -> failwith "field"

let dtrans v = match lst v with
  | [i; n; p; f; t; g; e; pt; pf; pg; pe; h; lay] ->
      { VppWriter.t_id = str i; t_name = opt n; t_parent = opt p; t_from = str f; t_to = str t; t_guard = opt g; t_effect = opt e;
        t_pto = strs pt; t_pfrom = strs pf; t_pguard = strs pg; t_peffect = strs pe; t_head = str h; t_layout = List.map field (lst lay) }
  | _ -> failwith "dtrans"

let dguard v = match lst v with
  | [i; t; n; p; h; pre; txt; post] ->
      { VppWriter.g_id = str i; g_type = str t; g_name = opt n; g_parent = opt p; g_head = str h; g_pre = strs pre;
        g_text = str txt; g_post = str post }
  | _ -> failwith "dguard"

let elem v = match lst v with
  | [k; de; x] -> (match str k with
      | "init" -> VppWriter.EInit (str de, pelem x) | "state" -> VppWriter.EState (str de, pelem x)
      | "other" -> VppWriter.EOther (str de, pelem x) | "trans" -> VppWriter.ETrans (str de, dtrans x)
      | _ -> failwith "elem kind")
  | _ -> failwith "elem"

let diagram v = match lst v with
  | [i; n; es; gs; acts] ->
      { VppWriter.d_id = str i; d_name = str n; d_elems = List.map elem (lst es); d_guards = List.map dguard (lst gs);
        d_acts = List.map pelem (lst acts) }
  | _ -> failwith "diagram"

let db v = match lst v with
  | [ds; es; ms] ->
      { Vpp.db_diagrams = List.map (fun r -> match lst r with
            | [i; t; n] -> { Vpp.dg_id = str i; dg_type = str t; dg_name = str n } | _ -> failwith "diag row") (lst ds);
        db_delems = List.map (fun r -> match lst r with
            | [i; s; d; m] -> { Vpp.de_id = str i; de_shape = str s; de_diagram = str d; de_model = opt m } | _ -> failwith "delem row") (lst es);
        db_melems = List.map (fun r -> match lst r with
            | [i; t; p; n; b] -> { Vpp.me_id = str i; me_type = str t; me_parent = opt p; me_name = opt n; me_blob = str b }
            | _ -> failwith "melem row") (lst ms) }
  | _ -> failwith "db"

let vdb (d : Vpp.db) =
  L [ L (List.map (fun (r : Vpp.diag) -> L [S r.dg_id; S r.dg_type; S r.dg_name]) d.db_diagrams);
      L (List.map (fun (r : Vpp.delem) -> L [S r.de_id; S r.de_shape; S r.de_diagram; vopt r.de_model]) d.db_delems);
      L (List.map (fun (r : Vpp.melem) -> L [S r.me_id; S r.me_type; vopt r.me_parent; vopt r.me_name; S r.me_blob]) d.db_melems) ]

let vrows rows = L (List.map vstrs rows)
let char1 s = if String.length s = 1 then s.[0] else failwith "expected one character"

let () =
  register "vpp_str_bytes" (function [s] -> S (Vpp.py_str_bytes (str s)) | _ -> failwith "arity");
  register "vpp_split" (function [c; s] -> vstrs (Vpp.split_on (char1 (str c)) (str s)) | _ -> failwith "arity");
  register "vpp_rm" (function [p; s] -> S (Vpp.rm_pat (str p) (str s)) | _ -> failwith "arity");
  register "vpp_mass" (function [s] -> S (Vpp.mass_replace (str s)) | _ -> failwith "arity");
  register "vpp_last_colon" (function [s] -> S (Vpp.last_colon (str s)) | _ -> failwith "arity");
  register "vpp_strip" (function [s] -> S (Vpp.py_strip (str s)) | _ -> failwith "arity");
  register "vpp_parse_transition" (function [i; n; b] ->
      let t = Vpp.parse_transition { Vpp.ve_id = str i; ve_type = ""; ve_parent = ""; ve_name = str n; ve_blobstr = str b } in
      L [vopt t.Vpp.pt_to; vopt t.Vpp.pt_from; vopt t.Vpp.pt_guard; vopt t.Vpp.pt_act] | _ -> failwith "arity");
  register "vpp_parse_guard" (function [b] ->
      vopt (Vpp.parse_guard { Vpp.ve_id = ""; ve_type = ""; ve_parent = ""; ve_name = ""; ve_blobstr = str b }) | _ -> failwith "arity");
  register "vpp_extract" (function [d; n] ->
      (match Vpp.extract (db d) (str n) with None -> L [] | Some rows -> L [vrows rows]) | _ -> failwith "arity");
  register "vpp_encode" (function [d] -> vdb (VppWriter.encode_diagram (diagram d)) | _ -> failwith "arity");
  register "vpp_hosts" (function [d; dd] -> vbool (VppWriter.hosts (db d) (diagram dd)) | _ -> failwith "arity");
  register "vpp_wf" (function [d] -> vbool (VppWriter.wf_diagram (diagram d)) | _ -> failwith "arity");
  register "vpp_wf_trans" (function [t] -> vbool (VppWriter.wf_trans (dtrans t)) | _ -> failwith "arity");
  register "vpp_wf_guard" (function [g] -> vbool (VppWriter.wf_guard (dguard g)) | _ -> failwith "arity");
  register "vpp_expected" (function [d] -> vrows (VppSpec.expected_rows (diagram d)) | _ -> failwith "arity")
