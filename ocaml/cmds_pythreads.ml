(* commands of the C11 model (Model/PyThreads.v): schedule execution of the extracted LTS *)
open Kcore
module M = PyThreads
module B = BinNums
module D = Datatypes

let rec pos_of_int n = if n = 1 then B.Coq_xH else if n land 1 = 0 then B.Coq_xO (pos_of_int (n / 2)) else B.Coq_xI (pos_of_int (n / 2))
let n_of_int n = if n = 0 then B.N0 else B.Npos (pos_of_int n)
let rec int_of_pos = function B.Coq_xH -> 1 | B.Coq_xO p -> 2 * int_of_pos p | B.Coq_xI p -> 2 * int_of_pos p + 1
let int_of_n = function B.N0 -> 0 | B.Npos p -> int_of_pos p
let rec nat_of_int n = if n = 0 then D.O else D.S (nat_of_int (n - 1))
let rec int_of_nat = function D.O -> 0 | D.S n -> 1 + int_of_nat n

(* event: [ id [ children ] ] *)
let rec ev_of v = match lst v with
  | [i; c] -> M.Ev (n_of_int (int_of i), List.map ev_of (lst c))
  | _ -> failwith "event"
let rec vev (M.Ev (i, c)) = L [vint (int_of_n i); L (List.map vev c)]

let vmark = function M.MInitDone -> "InitDone" | M.MStopCall -> "StopCall" | M.MStopRet -> "StopRet"
let b01 b = if b then "1" else "0"
let vlabel = function
  | M.LSetFlag (f, b) -> "SetFlag " ^ f ^ " " ^ b01 b
  | M.LReadFlag (f, b) -> "ReadFlag " ^ f ^ " " ^ b01 b
  | M.LNewQueue -> "NewQueue"
  | M.LPut e -> "Put " ^ string_of_int (int_of_n e)
  | M.LGetOk e -> "GetOk " ^ string_of_int (int_of_n e)
  | M.LGetTimeout -> "GetTimeout"
  | M.LTaskDone -> "TaskDone"
  | M.LQueueJoin -> "QueueJoin"
  | M.LThreadStart -> "ThreadStart"
  | M.LThreadJoin -> "ThreadJoin"
  | M.LProcess e -> "Process " ^ string_of_int (int_of_n e)
  | M.LProcEnd e -> "ProcEnd " ^ string_of_int (int_of_n e)
  | M.LCall e -> "Call " ^ string_of_int (int_of_n e)
  | M.LMark m -> vmark m

let config thr ms ps = { M.threaded = (str thr = "1"); M.mscript = List.map ev_of (lst ms);
                         M.pscripts = List.map (fun p -> List.map ev_of (lst p)) (lst ps) }
let vnats l = L (List.map (fun n -> vint (int_of_nat n)) l)
let vlog l = L (List.map (function
    | M.LBegin (t, e) -> L [S "B"; vint (int_of_nat t); vint (int_of_n (M.ev_id e))]
    | M.LEnd (t, e) -> L [S "E"; vint (int_of_nat t); vint (int_of_n (M.ev_id e))]) l)
let vputs l = L (List.map (fun (t, e) -> L [vint (int_of_nat t); vint (int_of_n (M.ev_id e))]) l)

let () =
  (* py_trace old threaded mscript pscripts schedule ->
     [ steps: [label-or-"-" [enabled...]]... ; final: enabled, all_finished, stop_called, stop_returned, log, puts, pre_stop, queue ids, unfinished ] *)
  register "py_trace" (function [old; thr; ms; ps; sc] ->
      let c = config thr ms ps in
      let o = (str old = "1") in
      let (s, tr) = PyMachine.trace_model o c (List.map (fun x -> nat_of_int (int_of x)) (lst sc)) in
      let sh = s.M.sh in
      L [ L (List.map (fun (l, en) -> L [S (match l with Some l -> vlabel l | None -> "-"); vnats en]) tr);
          vnats (PyMachine.enabled_model o c s); vbool (M.all_finished s); vbool sh.M.stop_called; vbool sh.M.stop_returned;
          vlog sh.M.log; vputs sh.M.puts; vputs sh.M.pre_stop;
          L (List.map (fun e -> vint (int_of_n (M.ev_id e))) sh.M.queue); vint (int_of_nat sh.M.unfinished);
          vbool (M.finished s.M.tworker) ]
    | _ -> failwith "arity");
  register "py_wf" (function [thr; ms; ps] -> vbool (M.wf_config (config thr ms ps)) | _ -> failwith "arity")
