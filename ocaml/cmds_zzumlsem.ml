(* commands of the semantic class diagram (Model/UmlSem.v); linked after cmds_vpp.ml and cmds_zumlblob.ml *)
open Kcore

let ob v = str v = "1"
let oname v = match lst v with [] -> None | [x] -> Some (str x) | _ -> failwith "option"

let tag_of = function
  | "vis" -> UmlSem.TVis | "ret" -> UmlSem.TRet | "typemod" -> UmlSem.TTypeMod | "abstract" -> UmlSem.TAbstract | "query" -> UmlSem.TQuery
  | "scope" -> UmlSem.TScope | "doc" -> UmlSem.TDoc | "child" -> UmlSem.TChild | "type" -> UmlSem.TType | "typestring" -> UmlSem.TTypeString
  | "dir" -> UmlSem.TDir | "default" -> UmlSem.TDefault | "mult" -> UmlSem.TMult | "init" -> UmlSem.TInit | "setter" -> UmlSem.TSetter
  | "getter" -> UmlSem.TGetter | "readonly" -> UmlSem.TReadOnly | "stereo" -> UmlSem.TStereo | "from" -> UmlSem.TFrom | "to" -> UmlSem.TTo
  | "agg" -> UmlSem.TAgg
  | s -> failwith ("tag " ^ s)
let slot v = match lst v with
  | [k; a; b] when str k = "N" -> UmlSem.SNoise (str a, str b)
  | [k; t] when str k = "T" -> UmlSem.STag (tag_of (str t))
  | [k; it] when str k = "I" -> UmlSem.SInert (Cmds_zumlblob.witem it)
  | _ -> failwith "slot"
let layout v = List.map slot (lst v)

let sdoc v = match lst v with
  | [k; t] when str k = "T" -> UmlSem.DText (str t)
  | [k; t] when str k = "R" -> UmlSem.DRaw (str t)
  | _ -> failwith "sdoc"
let sparam v = match lst v with
  | [i; n; basic; ty; dir; md; df; mu; nl; lay] ->
      { UmlSem.sp_id = str i; sp_name = str n; sp_basic = oname basic; sp_type = strs ty;
        sp_dir = (match str dir with "in" -> Some true | "out" -> Some false | _ -> None);
        sp_mod = str md; sp_default = str df; sp_mult = str mu; sp_nl = str nl; sp_layout = layout lay }
  | _ -> failwith "sparam"
let sop v = match lst v with
  | [i; n; vis; ret; rm; ab; qu; st; doc; ps; nl; lay] ->
      { UmlSem.so_id = str i; so_name = str n; so_vis = oname vis; so_ret = strs ret; so_retmod = str rm; so_abstract = ob ab; so_query = ob qu;
        so_static = ob st; so_doc = sdoc doc; so_params = List.map sparam (lst ps); so_nl = str nl; so_layout = layout lay }
  | _ -> failwith "sop"
let sattr v = match lst v with
  | [i; n; vis; ty; md; mu; doc; ini; se; ge; st; co; nl; lay] ->
      { UmlSem.sa_id = str i; sa_name = str n; sa_vis = oname vis; sa_type = strs ty; sa_mod = str md; sa_mult = str mu; sa_doc = sdoc doc;
        sa_init = str ini; sa_setter = ob se; sa_getter = ob ge; sa_static = ob st; sa_const = ob co; sa_nl = str nl; sa_layout = layout lay }
  | _ -> failwith "sattr"
let smember v = match lst v with
  | [k; o] when str k = "op" -> UmlSem.MOp (sop o)
  | [k; a] when str k = "attr" -> UmlSem.MAttr (sattr a)
  | [k; i; n; nl; lay] when str k = "lit" -> UmlSem.MLit (str i, str n, str nl, layout lay)
  | _ -> failwith "smember"
let send v = match lst v with
  | [i; n; cl; mu; agg; vis; ge; se; co; nl; lay] ->
      { UmlSem.se_id = str i; se_name = oname n; se_class = strs cl; se_mult = str mu; se_agg = oname agg; se_vis = oname vis;
        se_getter = ob ge; se_setter = ob se; se_const = ob co; se_nl = str nl; se_layout = layout lay }
  | _ -> failwith "send"
let selem v = match lst v with
  | [k; x] when str k = "assoc" -> (match lst x with
      | [i; n; par; doc; fr; t; nl; lay] ->
          UmlSem.EAssoc { UmlSem.sx_id = str i; sx_name = oname n; sx_parent = oname par; sx_doc = sdoc doc; sx_from = send fr; sx_to = send t; sx_nl = str nl;
                          sx_layout = layout lay }
      | _ -> failwith "sassoc")
  | [k; c] when str k = "class" -> (match lst c with
      | [i; n; par; st; ab; doc; ms; nl; lay] ->
          UmlSem.EClass { UmlSem.sc_id = str i; sc_name = str n; sc_parent = oname par; sc_stereos = strs st; sc_abstract = ob ab; sc_doc = sdoc doc;
                          sc_members = List.map smember (lst ms); sc_nl = str nl; sc_layout = layout lay }
      | _ -> failwith "sclass")
  | [k; p] when str k = "package" -> (match lst p with
      | [i; n; par; paths; nl; lay] ->
          UmlSem.EPackage { UmlSem.sk_id = str i; sk_name = str n; sk_parent = oname par; sk_paths = List.map strs (lst paths); sk_nl = str nl; sk_layout = layout lay }
      | _ -> failwith "spackage")
  | [k; x] when str k = "inh" -> (match lst x with
      | [i; par; real; fr; t; nl; lay] ->
          UmlSem.EInh { UmlSem.si_id = str i; si_parent = oname par; si_real = ob real; si_from = strs fr; si_to = strs t; si_nl = str nl; si_layout = layout lay }
      | _ -> failwith "sinh")
  | [k; i; n; ty; par; nl; lay] when str k = "other" -> UmlSem.EOther (str i, oname n, str ty, oname par, str nl, layout lay)
  | _ -> failwith "selem"
let sref v = match lst v with
  | [i; n; ty; par; nl; lay] -> { UmlSem.sr_id = str i; sr_name = str n; sr_type = str ty; sr_parent = oname par; sr_nl = str nl; sr_noise = layout lay }
  | _ -> failwith "sref"
let sdiagram v = match lst v with
  | [i; n; shapes; refs] ->
      { UmlSem.sd_id = str i; sd_name = str n;
        sd_shapes = List.map (fun s -> match lst s with [sid; e] -> (str sid, selem e) | _ -> failwith "shape") (lst shapes);
        sd_refd = List.map sref (lst refs) }
  | _ -> failwith "sdiagram"

(* diagnosis: which shapes / members / referenced elements are outside the domain *)
let why s =
  let d = sdiagram s in
  let bad = ref [] in
  let note id what ok = if not ok then bad := L [S id; S what] :: !bad in
  List.iter (fun (_, e) -> match e with
    | UmlSem.EClass c ->
        note c.UmlSem.sc_id "class" (UmlSem.class_ok d c);
        List.iter (fun m -> match m with
          | UmlSem.MOp o -> note o.UmlSem.so_id "operation" (UmlSem.op_ok d o);
              List.iter (fun p -> note p.UmlSem.sp_id "parameter" (UmlSem.param_ok d p)) o.UmlSem.so_params
          | UmlSem.MAttr a -> note a.UmlSem.sa_id "attribute" (UmlSem.attr_ok d a)
          | UmlSem.MLit (i, _, _, _) -> note i "literal" (UmlSem.member_ok d m)) c.UmlSem.sc_members
    | UmlSem.EPackage p -> note p.UmlSem.sk_id "package" (UmlSem.package_ok d p)
    | UmlSem.EInh i -> note i.UmlSem.si_id "inheritance" (UmlSem.inh_ok d i)
    | UmlSem.EAssoc x -> note x.UmlSem.sx_id "association" (UmlSem.assoc_ok d x);
        note x.UmlSem.sx_from.UmlSem.se_id "from-end" (UmlSem.end_ok d true x.UmlSem.sx_from);
        note x.UmlSem.sx_to.UmlSem.se_id "to-end" (UmlSem.end_ok d false x.UmlSem.sx_to)
    | UmlSem.EOther _ -> ()) d.UmlSem.sd_shapes;
  L (List.rev !bad)

let lay_why k f l =
  let bad = ref [] in
  if not (UmlSem.layout_ok f l) then bad := S "layout_ok" :: !bad;
  List.iter (fun sl -> match sl with
    | UmlSem.SInert it -> if not (UmlSem.inert_ok k it) then
        bad := L [S "inert"; S (UmlWriter.print_item it); vbool (UmlSem.item_text_ok it); L (List.map (fun x -> S x) (UmlSem.item_keys it))] :: !bad
    | _ -> ()) l;
  L (List.rev !bad)
let why2 s i =
  let d = sdiagram s in
  let out = ref (L []) in
  let chk id k f l = if id = i then out := lay_why k f l in
  List.iter (fun (_, e) -> match e with
    | UmlSem.EClass c ->
        chk c.UmlSem.sc_id UmlSem.KClass (UmlSem.class_item c) c.UmlSem.sc_layout;
        List.iter (fun m -> match m with
          | UmlSem.MOp o -> chk o.UmlSem.so_id UmlSem.KOp (UmlSem.op_item o) o.UmlSem.so_layout;
              List.iter (fun p -> chk p.UmlSem.sp_id UmlSem.KParam (UmlSem.param_item p) p.UmlSem.sp_layout) o.UmlSem.so_params
          | UmlSem.MAttr a -> chk a.UmlSem.sa_id UmlSem.KAttr (UmlSem.attr_item a) a.UmlSem.sa_layout
          | _ -> ()) c.UmlSem.sc_members
    | UmlSem.EAssoc x -> chk x.UmlSem.sx_id UmlSem.KAssoc (UmlSem.assoc_item x) x.UmlSem.sx_layout
    | _ -> ()) d.UmlSem.sd_shapes;
  !out

let () =
  register "us_why2" (function [s; i] -> why2 s (str i) | _ -> failwith "arity");
  register "us_why" (function [s] -> why s | _ -> failwith "arity");
  register "us_ok" (function [s] -> vbool (UmlSem.sdiagram_ok (sdiagram s)) | _ -> failwith "arity");
  register "us_encode" (function [s] -> Cmds_vpp.vdb (UmlSem.encode_project (sdiagram s)) | _ -> failwith "arity");
  register "us_rdiagram" (function [s] -> Cmds_zumlblob.vrdiagram (UmlSem.rdiagram_of (sdiagram s)) | _ -> failwith "arity");
  register "us_cdiagram" (function [s] -> Cmds_zumlblob.vcdiagram (UmlSem.cdiagram_of (sdiagram s)) | _ -> failwith "arity")
