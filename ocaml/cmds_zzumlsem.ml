(* commands of the semantic class diagram (Model/UmlSem.v); linked after cmds_vpp.ml and cmds_zumlblob.ml *)
open Kcore

let ob v = str v = "1"
let oname v = match lst v with [] -> None | [x] -> Some (str x) | _ -> failwith "option"

let tag_of = function
  | "vis" -> UmlSem.TVis | "ret" -> UmlSem.TRet | "typemod" -> UmlSem.TTypeMod | "abstract" -> UmlSem.TAbstract | "query" -> UmlSem.TQuery
  | "scope" -> UmlSem.TScope | "doc" -> UmlSem.TDoc | "child" -> UmlSem.TChild | "type" -> UmlSem.TType | "typestring" -> UmlSem.TTypeString
  | "dir" -> UmlSem.TDir | "default" -> UmlSem.TDefault | "mult" -> UmlSem.TMult | "init" -> UmlSem.TInit | "setter" -> UmlSem.TSetter
  | "getter" -> UmlSem.TGetter | "readonly" -> UmlSem.TReadOnly | "stereo" -> UmlSem.TStereo | "from" -> UmlSem.TFrom | "to" -> UmlSem.TTo
  | "agg" -> UmlSem.TAgg
  | s -> failwith ("tag " ^ s)
let slot v = match lst v with
  | [k; a; b] when str k = "N" -> UmlSem.SNoise (str a, str b)
  | [k; t] when str k = "T" -> UmlSem.STag (tag_of (str t))
  | _ -> failwith "slot"
let layout v = List.map slot (lst v)

let sparam v = match lst v with
  | [i; n; basic; ty; dir; md; df; mu; lay] ->
      { UmlSem.sp_id = str i; sp_name = str n; sp_basic = oname basic; sp_type = strs ty;
        sp_dir = (match str dir with "in" -> Some true | "out" -> Some false | _ -> None);
        sp_mod = str md; sp_default = str df; sp_mult = str mu; sp_layout = layout lay }
  | _ -> failwith "sparam"
let sop v = match lst v with
  | [i; n; vis; ret; rm; ab; qu; st; doc; ps; lay] ->
      { UmlSem.so_id = str i; so_name = str n; so_vis = oname vis; so_ret = strs ret; so_retmod = str rm; so_abstract = ob ab; so_query = ob qu;
        so_static = ob st; so_doc = str doc; so_params = List.map sparam (lst ps); so_layout = layout lay }
  | _ -> failwith "sop"
let sattr v = match lst v with
  | [i; n; vis; ty; md; mu; doc; ini; se; ge; st; co; lay] ->
      { UmlSem.sa_id = str i; sa_name = str n; sa_vis = oname vis; sa_type = strs ty; sa_mod = str md; sa_mult = str mu; sa_doc = str doc;
        sa_init = str ini; sa_setter = ob se; sa_getter = ob ge; sa_static = ob st; sa_const = ob co; sa_layout = layout lay }
  | _ -> failwith "sattr"
let smember v = match lst v with
  | [k; o] when str k = "op" -> UmlSem.MOp (sop o)
  | [k; a] when str k = "attr" -> UmlSem.MAttr (sattr a)
  | [k; i; n; lay] when str k = "lit" -> UmlSem.MLit (str i, str n, layout lay)
  | _ -> failwith "smember"
let send v = match lst v with
  | [i; n; cl; mu; agg; vis; ge; se; co; lay] ->
      { UmlSem.se_id = str i; se_name = oname n; se_class = strs cl; se_mult = str mu; se_agg = oname agg; se_vis = oname vis;
        se_getter = ob ge; se_setter = ob se; se_const = ob co; se_layout = layout lay }
  | _ -> failwith "send"
let selem v = match lst v with
  | [k; x] when str k = "assoc" -> (match lst x with
      | [i; n; par; doc; fr; t; lay] ->
          UmlSem.EAssoc { UmlSem.sx_id = str i; sx_name = oname n; sx_parent = oname par; sx_doc = str doc; sx_from = send fr; sx_to = send t;
                          sx_layout = layout lay }
      | _ -> failwith "sassoc")
  | [k; c] when str k = "class" -> (match lst c with
      | [i; n; par; st; ab; doc; ms; lay] ->
          UmlSem.EClass { UmlSem.sc_id = str i; sc_name = str n; sc_parent = oname par; sc_stereos = strs st; sc_abstract = ob ab; sc_doc = str doc;
                          sc_members = List.map smember (lst ms); sc_layout = layout lay }
      | _ -> failwith "sclass")
  | [k; p] when str k = "package" -> (match lst p with
      | [i; n; par; paths; lay] ->
          UmlSem.EPackage { UmlSem.sk_id = str i; sk_name = str n; sk_parent = oname par; sk_paths = List.map strs (lst paths); sk_layout = layout lay }
      | _ -> failwith "spackage")
  | [k; x] when str k = "inh" -> (match lst x with
      | [i; par; real; fr; t; lay] ->
          UmlSem.EInh { UmlSem.si_id = str i; si_parent = oname par; si_real = ob real; si_from = strs fr; si_to = strs t; si_layout = layout lay }
      | _ -> failwith "sinh")
  | [k; i; n; ty; par; lay] when str k = "other" -> UmlSem.EOther (str i, oname n, str ty, oname par, layout lay)
  | _ -> failwith "selem"
let sref v = match lst v with
  | [i; n; ty; par; lay] -> { UmlSem.sr_id = str i; sr_name = str n; sr_type = str ty; sr_parent = oname par; sr_noise = layout lay }
  | _ -> failwith "sref"
let sdiagram v = match lst v with
  | [i; n; shapes; refs] ->
      { UmlSem.sd_id = str i; sd_name = str n;
        sd_shapes = List.map (fun s -> match lst s with [sid; e] -> (str sid, selem e) | _ -> failwith "shape") (lst shapes);
        sd_refd = List.map sref (lst refs) }
  | _ -> failwith "sdiagram"

(* diagnosis: which shapes / members / referenced elements are outside the domain *)
let why s =
  let d = sdiagram s in
  let bad = ref [] in
  let note id what ok = if not ok then bad := L [S id; S what] :: !bad in
  List.iter (fun (_, e) -> match e with
    | UmlSem.EClass c ->
        note c.UmlSem.sc_id "class" (UmlSem.class_ok d c);
        List.iter (fun m -> match m with
          | UmlSem.MOp o -> note o.UmlSem.so_id "operation" (UmlSem.op_ok d o);
              List.iter (fun p -> note p.UmlSem.sp_id "parameter" (UmlSem.param_ok d p)) o.UmlSem.so_params
          | UmlSem.MAttr a -> note a.UmlSem.sa_id "attribute" (UmlSem.attr_ok d a)
          | UmlSem.MLit (i, _, _) -> note i "literal" (UmlSem.member_ok d m)) c.UmlSem.sc_members
    | UmlSem.EPackage p -> note p.UmlSem.sk_id "package" (UmlSem.package_ok d p)
    | UmlSem.EInh i -> note i.UmlSem.si_id "inheritance" (UmlSem.inh_ok d i)
    | UmlSem.EAssoc x -> note x.UmlSem.sx_id "association" (UmlSem.assoc_ok d x);
        note x.UmlSem.sx_from.UmlSem.se_id "from-end" (UmlSem.end_ok d true x.UmlSem.sx_from);
        note x.UmlSem.sx_to.UmlSem.se_id "to-end" (UmlSem.end_ok d false x.UmlSem.sx_to)
    | UmlSem.EOther _ -> ()) d.UmlSem.sd_shapes;
  L (List.rev !bad)

let () =
  register "us_why" (function [s] -> why s | _ -> failwith "arity");
  register "us_ok" (function [s] -> vbool (UmlSem.sdiagram_ok (sdiagram s)) | _ -> failwith "arity");
  register "us_encode" (function [s] -> Cmds_vpp.vdb (UmlSem.encode_project (sdiagram s)) | _ -> failwith "arity");
  register "us_rdiagram" (function [s] -> Cmds_zumlblob.vrdiagram (UmlSem.rdiagram_of (sdiagram s)) | _ -> failwith "arity");
  register "us_cdiagram" (function [s] -> Cmds_zumlblob.vcdiagram (UmlSem.cdiagram_of (sdiagram s)) | _ -> failwith "arity")
