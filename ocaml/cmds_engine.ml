(* commands of the template-engine model (Model/Engine.v) *)
open Kcore

let rec nat_of_int i = if i <= 0 then Datatypes.O else Datatypes.S (nat_of_int (i - 1))
let rec int_of_nat = function Datatypes.O -> 0 | Datatypes.S n -> 1 + int_of_nat n

let chr1 v = let s = str v in if String.length s <> 1 then failwith "expected one character" else s.[0]
let dict v = List.map (fun p -> match lst p with [k; x] -> (str k, str x) | _ -> failwith "dict entry") (lst v)
let files v = List.map (fun p -> match lst p with [n; ls] -> (str n, strs ls) | _ -> failwith "file entry") (lst v)
let vfiles fs = L (List.map (fun (n, ls) -> L [S n; vstrs ls]) fs)
let vopt = function None -> L [] | Some ls -> L [vstrs ls]

(* the expansion function used by the expander correspondence: marks what it was given *)
let mark snippet param =
  Some ((match param with None -> "P:<none>\n" | Some p -> "P:" ^ p ^ "\n") :: List.map (fun l -> "S:" ^ l) snippet)

let () =
  register "e.replace_all" (function [p; v; s] -> S (StrOps.replace_all (str p) (str v) (str s)) | _ -> failwith "arity");
  register "e.strip" (function [s] -> S (StrOps.strip (str s)) | _ -> failwith "arity");
  register "e.dec" (function [n] -> S (StrOps.dec (nat_of_int (int_of n))) | _ -> failwith "arity");
  register "e.hasTag" (function [s] -> vbool (Engine.hasTag (str s)) | _ -> failwith "arity");
  register "e.findall" (function [s] -> vstrs (Engine.findall (str s)) | _ -> failwith "arity");
  register "e.hasSpecificTag" (function [s; t] -> vbool (Engine.hasSpecificTag (str s) (str t)) | _ -> failwith "arity");
  register "e.hasDefault" (function [s] -> vbool (Engine.hasDefault (str s)) | _ -> failwith "arity");
  register "e.extractDefaultAndTag" (function [s; d] ->
      let (t, x) = Engine.extractDefaultAndTag (str s) (chr1 d) in L [S t; S x] | _ -> failwith "arity");
  register "e.removeDefault" (function [s] -> S (Engine.removeDefault (str s)) | _ -> failwith "arity");
  register "e.replaceDefault" (function [a; b] -> S (Engine.replaceDefault (str a) (str b)) | _ -> failwith "arity");
  register "e.cleanTag" (function [s] -> S (Engine.cleanTag (str s)) | _ -> failwith "arity");
  register "e.getWhitespace" (function [s] -> S (Engine.getWhitespace (str s)) | _ -> failwith "arity");
  register "e.replaceUserTags" (function [s; d] -> S (Engine.replaceUserTags (str s) (dict d)) | _ -> failwith "arity");
  register "e.single_expand" (function [t; ls] ->
      vstrs (Engine.single_expand (str t) (fun ws -> ["W:" ^ ws ^ "\n"]) (strs ls)) | _ -> failwith "arity");
  register "e.pair_expand" (function [b; e; ls] -> vopt (Engine.pair_expand (str b) (str e) mark (strs ls)) | _ -> failwith "arity");
  register "e.get_next_alphabet" (function [n] -> vint (int_of_nat (Engine.get_next_alphabet (nat_of_int (int_of n)))) | _ -> failwith "arity");
  register "e.camel_case_small" (function [s] -> S (Engine.camel_case_small (str s)) | _ -> failwith "arity");
  register "e.snake_case" (function [s] -> S (Engine.snake_case (str s)) | _ -> failwith "arity");
  register "e.caps" (function [s] -> S (Engine.caps (str s)) | _ -> failwith "arity");
  register "e.filter_multiple_newlines" (function [ls] -> vstrs (Engine.filter_multiple_newlines (strs ls)) | _ -> failwith "arity");
  register "e.innerexpand_for_loop" (function [body; p] ->
      vopt (Engine.innerexpand_for_loop (strs body) (match lst p with [] -> None | [x] -> Some (str x) | _ -> failwith "param")) | _ -> failwith "arity");
  register "e.do_for_lines" (function [ls] -> vopt (Engine.do_for_lines (strs ls)) | _ -> failwith "arity");
  register "e.for_header_subst" (function [d; dflts; l] -> S (Engine.for_header_subst (dict d) (dict dflts) (str l)) | _ -> failwith "arity");
  register "e.do_user_tags" (function [d; fs] -> vfiles (Engine.do_user_tags (dict d) (files fs)) | _ -> failwith "arity");
  register "e.process_line" (function [d; l] -> vstrs (Engine.process_line (dict d) (str l)) | _ -> failwith "arity")

(* ---- templates as abstract syntax (Spec/RefExpand.v):
   seg  ::= [ "L" s ] | [ "T" name ] | [ "T" name default ]        line ::= [ seg* ]
   hdr  ::= [ "HL" s ] | [ "HT" name ] | [ "HT" name default ]
   item ::= [ "P" line ] | [ "C" [ tag [line*] ] [ [ tag [line*] ]* ] [ ] | [ [line*] ] ] | [ "F" hdr [line*] ] *)
let seg v = match lst v with
  | [k; s] when str k = "L" -> RefExpand.Lit (str s)
  | [k; n] when str k = "T" -> RefExpand.Tag (str n, None)
  | [k; n; d] when str k = "T" -> RefExpand.Tag (str n, Some (str d))
  | _ -> failwith "seg"
let uline v = List.map seg (lst v)
let ulines v = List.map uline (lst v)
let branch v = match lst v with [t; ls] -> (str t, ulines ls) | _ -> failwith "branch"
let hdr v = match lst v with
  | [k; s] when str k = "HL" -> RefExpand.HLit (str s)
  | [k; n] when str k = "HT" -> RefExpand.HTag (str n, None)
  | [k; n; d] when str k = "HT" -> RefExpand.HTag (str n, Some (str d))
  | _ -> failwith "hdr"
let item v = match lst v with
  | [k; l] when str k = "P" -> RefExpand.Plain (uline l)
  | [k; b; es; el] when str k = "C" ->
      RefExpand.Cond (branch b, List.map branch (lst es), (match lst el with [] -> None | [ls] -> Some (ulines ls) | _ -> failwith "else"))
  | [k; h; body] when str k = "F" -> RefExpand.For (hdr h, ulines body)
  | _ -> failwith "item"
let template v = List.map item (lst v)
let vopts = function None -> L [] | Some s -> L [S s]
let rows v = List.map strs (lst v)

let smodel_of tt structs protos msgs =
  match EngineSM.tt_model (rows tt) (strs structs) (strs protos) (strs msgs) with
  | Some m -> m | None -> failwith "tt_model: KeyError"

let () =
  register "s.render" (function [t] -> vstrs (RefExpand.render (template t)) | _ -> failwith "arity");
  register "s.ref17" (function [a; t] -> vopts (RefExpand.ref17 (dict a) (template t)) | _ -> failwith "arity");
  register "d.in_grammar17" (function [t] -> vbool (EngineDomain.in_grammar17 (template t)) | _ -> failwith "arity");
  register "d.wf_assign17" (function [t; a] -> vbool (EngineDomain.wf_assign17 (template t) (dict a)) | _ -> failwith "arity");
  register "d.item_ok" (function [it] -> vbool (EngineDomain.item_ok (item it)) | _ -> failwith "arity");
  register "m.tt_model" (function [tt; structs; protos; msgs] ->
      (match EngineSM.tt_model (rows tt) (strs structs) (strs protos) (strs msgs) with
       | None -> L []
       | Some m -> L [vstrs m.EngineSM.sm_states; vstrs m.EngineSM.sm_events; vstrs m.EngineSM.sm_actions; vstrs m.EngineSM.sm_guards;
                     L (List.map (fun (k, (a, e)) -> L [S k; S a; S e]) m.EngineSM.sm_actionsigs);
                     L (List.map (fun (s, evs) -> L [S s; L (List.map (fun (e, tl) -> L [S e; L (List.map (fun t -> L (List.map (fun (k, x) -> L [S k; S x]) t)) tl)]) evs)]) m.EngineSM.sm_tps);
                     S m.EngineSM.sm_first]) | _ -> failwith "arity");
  register "m.second_filter" (function [tt; structs; protos; msgs; ls] ->
      vopt (EngineSM.second_filter (smodel_of tt structs protos msgs) (strs ls)) | _ -> failwith "arity");
  register "m.generate" (function [tt; structs; protos; msgs; d; a; fs] ->
      (match EngineSM.generate (smodel_of tt structs protos msgs) (dict d) (dict a) (files fs) with
       | None -> L []
       | Some out -> L [L (List.map (fun (n, c) -> L [S n; S c]) out)]) | _ -> failwith "arity")

(* ---- C16 templates (Spec/RefExpand16.v):  item16 ::= [ "X" text ] | [ "B" kind [line*] ] | [ "S" [line*] ]
   kind ::= STATE | EVENT | ACTION | GUARD | STRUCT | PROTOMSG | MSG *)
let ekind v = match str v with
  | "STATE" -> RefExpand16.KState | "EVENT" -> RefExpand16.KEvent | "ACTION" -> RefExpand16.KAction | "GUARD" -> RefExpand16.KGuard
  | "STRUCT" -> RefExpand16.KStruct | "PROTOMSG" -> RefExpand16.KProto | "MSG" -> RefExpand16.KMsg | _ -> failwith "ekind"
(* nested transition block: [ "TB" ib ie [ titem* ] ]   titem ::= [ "TL" line ] | [ "TE" ib ie [ eitem* ] ]
   eitem ::= [ "EL" line ] | [ "EG" ib ie [ line* ] ] *)
let eitem v = match lst v with
  | [k; l] when str k = "EL" -> RefExpand16.ELine (uline l)
  | [k; ib; ie; body] when str k = "EG" -> RefExpand16.EGuard (str ib, str ie, ulines body)
  | _ -> failwith "eitem"
let titem v = match lst v with
  | [k; l] when str k = "TL" -> RefExpand16.TLine (uline l)
  | [k; ib; ie; body] when str k = "TE" -> RefExpand16.TEvent (str ib, str ie, List.map eitem (lst body))
  | _ -> failwith "titem"
let item16 v = match lst v with
  | [k; ib; ie; body] when str k = "TB" -> RefExpand16.TransBlock (str ib, str ie, List.map titem (lst body))
  | [k; s] when str k = "X" -> RefExpand16.Text (str s)
  | [k; l] when str k = "I" -> RefExpand16.InitLine (uline l)
  | [k; pre; ee] when str k = "T" -> RefExpand16.TableLine (str pre, str ee = "1")
  | [k; l] when str k = "U" -> RefExpand16.UserLine (uline l)
  | [k; kd; body] when str k = "B" -> RefExpand16.Block (ekind kd, "", "", ulines body)
  | [k; kd; ib; ie; body] when str k = "B" -> RefExpand16.Block (ekind kd, str ib, str ie, ulines body)
  | [k; body] when str k = "S" -> RefExpand16.SigBlock ("", "", ulines body)
  | [k; ib; ie; body] when str k = "S" -> RefExpand16.SigBlock (str ib, str ie, ulines body)
  | _ -> failwith "item16"
let template16 v = List.map item16 (lst v)

let () =
  register "s16.render" (function [t] -> vstrs (RefExpand16.render16 (template16 t)) | _ -> failwith "arity");
  register "s16.ref16" (function [tt; structs; protos; msgs; t] ->
      S (EngineDomain16.ref16_rows (rows tt) (strs structs) (strs protos) (strs msgs) (template16 t)) | _ -> failwith "arity");
  register "d16.in_grammar16" (function [t] -> vbool (EngineDomain16.in_grammar16 (template16 t)) | _ -> failwith "arity");
  register "d16.wf16" (function [tt; structs; protos; msgs; t] ->
      vbool (EngineDomain16.wf16_rows (rows tt) (strs structs) (strs protos) (strs msgs) (template16 t)) | _ -> failwith "arity")

let () =
  register "d07.names_ok_shipped_cs" (function [lines; tt; structs; protos; msgs; a] ->
      vbool (Parse16.names_ok_shipped_cs (strs lines) (rows tt) (strs structs) (strs protos) (strs msgs) (dict a)) | _ -> failwith "arity");
  register "d07.names_ok_shipped" (function [lines; tt; structs; protos; msgs] ->
      vbool (Parse16.names_ok_shipped (strs lines) (rows tt) (strs structs) (strs protos) (strs msgs)) | _ -> failwith "arity")

(* C08 bridge: the "State Processing" region of the shipped Python template *)
let () =
  register "py.proc_ok" (function [] -> vbool PyRender.py_proc_ok | _ -> failwith "arity");
  register "py.proc_lines" (function [] -> vstrs PyRender.py_proc_lines | _ -> failwith "arity");
  register "py.proc_ref" (function [tt; structs; protos; msgs] ->
      S (PyRender.py_proc_ref (rows tt) (strs structs) (strs protos) (strs msgs)) | _ -> failwith "arity");
  register "py.init_ref" (function [tt; structs; protos; msgs] ->
      S (PyRender.py_init_ref (rows tt) (strs structs) (strs protos) (strs msgs)) | _ -> failwith "arity");
  register "py.proc_reads" (function [tt; structs; protos; msgs] ->
      vbool (PyRender.py_proc_reads (rows tt) (strs structs) (strs protos) (strs msgs)) | _ -> failwith "arity")

(* C10 bridge: the transition block of the shipped C# template *)
let () =
  register "cs.block_ok" (function [] -> vbool CsRender.cs_block_ok | _ -> failwith "arity");
  register "cs.block_lines" (function [] -> vstrs CsRender.cs_block_lines | _ -> failwith "arity");
  register "cs.block_ref" (function [tt; structs; protos; msgs] ->
      S (CsRender.cs_block_ref (rows tt) (strs structs) (strs protos) (strs msgs)) | _ -> failwith "arity")

(* C09 bridge: the boost::sml table printer of the engine model, and the text of SmlTT.gen_sml *)
let () =
  register "sml.print" (function [ws; ee; tt] ->
      (match EngineSM.tt_model (rows tt) [] [] [] with
       | Some m -> S (String.concat "" (EngineSM.sml_print m.EngineSM.sm_states m.EngineSM.sm_rows (str ee = "1") (str ws)))
       | None -> failwith "tt_model") | _ -> failwith "arity");
  register "sml.text" (function [ws; ee; tt] ->
      S (SmlRender.sml_text (str ws) (str ee = "1") (EngineDomain16.table_of (rows tt))) | _ -> failwith "arity")

(* the whole shipped TEMPLATEInternals.cs *)
let () =
  register "cs.file_ref" (function [tt; structs; protos; msgs; a] ->
      S (CsRender.cs_file_ref (rows tt) (strs structs) (strs protos) (strs msgs) (dict a)) | _ -> failwith "arity");
  register "cs.file_wf" (function [tt; structs; protos; msgs; a] ->
      vbool (CsRender.cs_file_wf (rows tt) (strs structs) (strs protos) (strs msgs) (dict a)) | _ -> failwith "arity")

(* C13 bridge: the whole shipped TEMPLATEReceiver.cpp / TEMPLATETransmitter.cpp; an interface = [[name; id; size] ...] *)
let rec pos_of_int13 i =
  if i = 1 then BinNums.Coq_xH
  else if i land 1 = 0 then BinNums.Coq_xO (pos_of_int13 (i lsr 1)) else BinNums.Coq_xI (pos_of_int13 (i lsr 1))
let n_of_int13 i = if i = 0 then BinNums.N0 else BinNums.Npos (pos_of_int13 i)
let ifc3 v = List.map (fun p -> match lst p with [n; i; z] -> ((str n, n_of_int13 (int_of i)), n_of_int13 (int_of z)) | _ -> failwith "ifc3 entry") (lst v)
let () =
  register "p13.rx_ref" (function [structs; protos; i; a] -> S (ProtoRender.rx_ref (strs structs) (strs protos) (ifc3 i) (dict a)) | _ -> failwith "arity");
  register "p13.tx_ref" (function [structs; protos; i; a] -> S (ProtoRender.tx_ref (strs structs) (strs protos) (ifc3 i) (dict a)) | _ -> failwith "arity");
  register "p13.rx_wf" (function [structs; protos; i; a] -> vbool (ProtoRender.rx_wf (strs structs) (strs protos) (ifc3 i) (dict a)) | _ -> failwith "arity");
  register "p13.tx_wf" (function [structs; protos; i; a] -> vbool (ProtoRender.tx_wf (strs structs) (strs protos) (ifc3 i) (dict a)) | _ -> failwith "arity")

(* the whole shipped TEMPLATEStateMachine.py; sigs = [[event; signature; signature with defaults] ...] (interface oracle) *)
let sigs3 v = List.map (fun p -> match lst p with [n; a; b] -> (str n, (str a, str b)) | _ -> failwith "sigs entry") (lst v)
let () =
  register "py.file_ref" (function [tt; structs; protos; msgs; sg; a] ->
      S (PyRender.py_file_ref (rows tt) (strs structs) (strs protos) (strs msgs) (sigs3 sg) (dict a)) | _ -> failwith "arity");
  register "py.file_wf" (function [tt; structs; protos; msgs; sg; a] ->
      vbool (PyRender.py_file_wf (rows tt) (strs structs) (strs protos) (strs msgs) (sigs3 sg) (dict a)) | _ -> failwith "arity");
  register "e.paren_clean" (function [s] -> S (EngineSM.paren_clean (str s)) | _ -> failwith "arity")

(* any shipped file of the grammar, with the signature oracle *)
let () =
  register "d16.shipped_ref" (function [lines; tt; structs; protos; msgs; sg; a] ->
      (match Parse16.shipped_ref (strs lines) (rows tt) (strs structs) (strs protos) (strs msgs) (sigs3 sg) (dict a) with
       | Some s -> L [S s] | None -> L []) | _ -> failwith "arity");
  register "d07.names_ok_shipped_x" (function [lines; tt; structs; protos; msgs; sg; a] ->
      vbool (Parse16.names_ok_shipped_x (strs lines) (rows tt) (strs structs) (strs protos) (strs msgs) (sigs3 sg) (dict a)) | _ -> failwith "arity");
  register "d16.shipped_wf" (function [lines; tt; structs; protos; msgs; sg; a] ->
      vbool (Parse16.shipped_wf (strs lines) (rows tt) (strs structs) (strs protos) (strs msgs) (sigs3 sg) (dict a)) | _ -> failwith "arity")
