(* commands of the template-engine model (Model/Engine.v) *)
open Kcore

let rec nat_of_int i = if i <= 0 then Datatypes.O else Datatypes.S (nat_of_int (i - 1))
let rec int_of_nat = function Datatypes.O -> 0 | Datatypes.S n -> 1 + int_of_nat n

let chr1 v = let s = str v in if String.length s <> 1 then failwith "expected one character" else s.[0]
let dict v = List.map (fun p -> match lst p with [k; x] -> (str k, str x) | _ -> failwith "dict entry") (lst v)
let files v = List.map (fun p -> match lst p with [n; ls] -> (str n, strs ls) | _ -> failwith "file entry") (lst v)
let vfiles fs = L (List.map (fun (n, ls) -> L [S n; vstrs ls]) fs)
let vopt = function None -> L [] | Some ls -> L [vstrs ls]

(* the expansion function used by the expander correspondence: marks what it was given *)
let mark snippet param =
  Some ((match param with None -> "P:<none>\n" | Some p -> "P:" ^ p ^ "\n") :: List.map (fun l -> "S:" ^ l) snippet)

let () =
  register "e.replace_all" (function [p; v; s] -> S (StrOps.replace_all (str p) (str v) (str s)) | _ -> failwith "arity");
  register "e.strip" (function [s] -> S (StrOps.strip (str s)) | _ -> failwith "arity");
  register "e.dec" (function [n] -> S (StrOps.dec (nat_of_int (int_of n))) | _ -> failwith "arity");
  register "e.hasTag" (function [s] -> vbool (Engine.hasTag (str s)) | _ -> failwith "arity");
  register "e.findall" (function [s] -> vstrs (Engine.findall (str s)) | _ -> failwith "arity");
  register "e.hasSpecificTag" (function [s; t] -> vbool (Engine.hasSpecificTag (str s) (str t)) | _ -> failwith "arity");
  register "e.hasDefault" (function [s] -> vbool (Engine.hasDefault (str s)) | _ -> failwith "arity");
  register "e.extractDefaultAndTag" (function [s; d] ->
      let (t, x) = Engine.extractDefaultAndTag (str s) (chr1 d) in L [S t; S x] | _ -> failwith "arity");
  register "e.removeDefault" (function [s] -> S (Engine.removeDefault (str s)) | _ -> failwith "arity");
  register "e.replaceDefault" (function [a; b] -> S (Engine.replaceDefault (str a) (str b)) | _ -> failwith "arity");
  register "e.cleanTag" (function [s] -> S (Engine.cleanTag (str s)) | _ -> failwith "arity");
  register "e.getWhitespace" (function [s] -> S (Engine.getWhitespace (str s)) | _ -> failwith "arity");
  register "e.replaceUserTags" (function [s; d] -> S (Engine.replaceUserTags (str s) (dict d)) | _ -> failwith "arity");
  register "e.single_expand" (function [t; ls] ->
      vstrs (Engine.single_expand (str t) (fun ws -> ["W:" ^ ws ^ "\n"]) (strs ls)) | _ -> failwith "arity");
  register "e.pair_expand" (function [b; e; ls] -> vopt (Engine.pair_expand (str b) (str e) mark (strs ls)) | _ -> failwith "arity");
  register "e.get_next_alphabet" (function [n] -> vint (int_of_nat (Engine.get_next_alphabet (nat_of_int (int_of n)))) | _ -> failwith "arity");
  register "e.camel_case_small" (function [s] -> S (Engine.camel_case_small (str s)) | _ -> failwith "arity");
  register "e.snake_case" (function [s] -> S (Engine.snake_case (str s)) | _ -> failwith "arity");
  register "e.caps" (function [s] -> S (Engine.caps (str s)) | _ -> failwith "arity");
  register "e.filter_multiple_newlines" (function [ls] -> vstrs (Engine.filter_multiple_newlines (strs ls)) | _ -> failwith "arity");
  register "e.innerexpand_for_loop" (function [body; p] ->
      vopt (Engine.innerexpand_for_loop (strs body) (match lst p with [] -> None | [x] -> Some (str x) | _ -> failwith "param")) | _ -> failwith "arity");
  register "e.do_for_lines" (function [ls] -> vopt (Engine.do_for_lines (strs ls)) | _ -> failwith "arity");
  register "e.for_header_subst" (function [d; dflts; l] -> S (Engine.for_header_subst (dict d) (dict dflts) (str l)) | _ -> failwith "arity");
  register "e.do_user_tags" (function [d; fs] -> vfiles (Engine.do_user_tags (dict d) (files fs)) | _ -> failwith "arity");
  register "e.process_line" (function [d; l] -> vstrs (Engine.process_line (dict d) (str l)) | _ -> failwith "arity")
