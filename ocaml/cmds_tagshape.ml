(* commands of Model/TagShape.v (C07) *)
open Kcore

let () =
  register "represervable" (function [ls] -> vbool (TagShape.represervable (strs ls)) | _ -> failwith "arity");
  register "user_tags_ok" (function [ls] -> vbool (TagShape.user_tags_ok (strs ls)) | _ -> failwith "arity");
  register "tags_of" (function [l] -> (match TagShape.tags_of (str l) with Some ts -> L [vstrs ts] | None -> L []) | _ -> failwith "arity")
