(* py_sorted (C06) *)
open Kcore
let () = register "py_sorted" (function [l] -> vstrs (SortedSet.py_sorted (strs l)) | _ -> failwith "arity")
