(* commands of the C15 model (Model/CxxQueue.v): schedule execution of the extracted dispatcher LTS *)
open Kcore
module M = CxxQueue
module B = BinNums
module D = Datatypes

let rec pos_of_int n = if n = 1 then B.Coq_xH else if n land 1 = 0 then B.Coq_xO (pos_of_int (n / 2)) else B.Coq_xI (pos_of_int (n / 2))
let n_of_int n = if n = 0 then B.N0 else B.Npos (pos_of_int n)
let rec int_of_pos = function B.Coq_xH -> 1 | B.Coq_xO p -> 2 * int_of_pos p | B.Coq_xI p -> 2 * int_of_pos p + 1
let int_of_n = function B.N0 -> 0 | B.Npos p -> int_of_pos p
let rec nat_of_int n = if n = 0 then D.O else D.S (nat_of_int (n - 1))
let rec int_of_nat = function D.O -> 0 | D.S n -> 1 + int_of_nat n

let tid_of s =
  if s = "D" then M.TDestroy
  else let k = int_of_string (String.sub s 1 (String.length s - 1)) in
    if s.[0] = 'W' then M.TWorker (nat_of_int k) else M.TProd (nat_of_int k)
let vtid = function
  | M.TDestroy -> S "D"
  | M.TWorker w -> S ("W" ^ string_of_int (int_of_nat w))
  | M.TProd p -> S ("P" ^ string_of_int (int_of_nat p))

(* the yield point of the real code a thread is parked at before this step *)
let label_of s t =
  match t with
  | M.TDestroy -> (match s.M.d with M.DAlive -> "Store" | M.DFlagSet -> "Lock" | M.DJoin _ -> "Join" | M.DJoined -> "-")
  | M.TProd _ -> "Dispatch"
  | M.TWorker w ->
      (match List.nth_opt s.M.workers (int_of_nat w) with
       | Some M.WLoop -> "Load" | Some M.WWait -> "Wait" | Some (M.WGot _) -> "Load" | Some (M.WHandling _) -> "HandlerEnd"
       | _ -> "-")

let () =
  (* cxx_trace m scripts schedule -> [ steps: [ok label [enabled]]... ; enabled ; hlog ; fates ; queue ; all_done ; joined ] *)
  register "cxx_trace" (function [m; sc; sched] ->
      let scripts = List.map (fun p -> List.map (fun i -> n_of_int (int_of i)) (lst p)) (lst sc) in
      let s0 = M.init (nat_of_int (int_of m)) scripts in
      let tids = List.map (fun x -> tid_of (str x)) (lst sched) in
      (* labels need the pre-state of every step: replay step by step *)
      let rec go s = function
        | [] -> (s, [])
        | t :: r ->
            (match M.step t s with
             | Some s' -> let (sf, l) = go s' r in (sf, L [S "1"; S (label_of s t); L (List.map vtid (M.enabled_tids s'))] :: l)
             | None -> let (sf, l) = go s r in (sf, L [S "0"; S "-"; L (List.map vtid (M.enabled_tids s))] :: l)) in
      let (s, steps) = go s0 tids in
      L [ L steps; L (List.map vtid (M.enabled_tids s));
          L (List.map (function M.HB (w, i) -> L [S "B"; vint (int_of_nat w); vint (int_of_n i)]
                              | M.HE (w, i) -> L [S "E"; vint (int_of_nat w); vint (int_of_n i)]) s.M.hlog);
          L (List.map (fun (i, b) -> L [vint (int_of_n i); vbool b]) s.M.fates);
          L (List.map (fun i -> vint (int_of_n i)) s.M.q);
          vbool (M.all_done s.M.workers);
          vbool (match s.M.d with M.DJoined -> true | _ -> false) ]
    | _ -> failwith "arity")

(* ---- object lifetime (Model/CxxLifetime.v) *)
module LF = CxxLifetime

let life_label l t =
  match t with
  | M.TDestroy ->
      (match l.LF.own with
       | LF.OAlive -> "EnterDtor" | LF.OTear -> "Teardown" | LF.OMembers -> "Members"
       | LF.OShut1 | LF.OShut2 -> label_of l.LF.base t
       | LF.OAgain1 -> "Store" | LF.OAgain2 -> "Lock" | LF.ODone -> "-")
  | _ -> label_of l.LF.base t

let () =
  (* cxx_life_trace calls_shutdown m scripts schedule -> [ steps: [ok label [enabled]]... ; enabled ; hlog ; hazard ; part ; owner done ] *)
  register "cxx_life_trace" (function [cs; m; sc; sched] ->
      let cs = (str cs = "1") in
      let scripts = List.map (fun p -> List.map (fun i -> n_of_int (int_of i)) (lst p)) (lst sc) in
      let l0 = LF.linit (nat_of_int (int_of m)) scripts in
      let tids = List.map (fun x -> tid_of (str x)) (lst sched) in
      let rec go l = function
        | [] -> (l, [])
        | t :: r ->
            (match LF.lstep cs t l with
             | Some l' -> let (lf, x) = go l' r in (lf, L [S "1"; S (life_label l t); L (List.map vtid (LF.lenabled cs l'))] :: x)
             | None -> let (lf, x) = go l r in (lf, L [S "0"; S "-"; L (List.map vtid (LF.lenabled cs l))] :: x)) in
      let (l, steps) = go l0 tids in
      L [ L steps; L (List.map vtid (LF.lenabled cs l));
          L (List.map (function M.HB (w, i) -> L [S "B"; vint (int_of_nat w); vint (int_of_n i)]
                              | M.HE (w, i) -> L [S "E"; vint (int_of_nat w); vint (int_of_n i)]) l.LF.base.M.hlog);
          vbool l.LF.hazard;
          S (match l.LF.part with LF.PartAlive -> "alive" | LF.PartDying -> "dying" | LF.PartDead -> "dead");
          vbool (match l.LF.own with LF.ODone -> true | _ -> false) ]
    | _ -> failwith "arity")
