(* kcore: value syntax and command registry of kmodel, the line-oriented driver for the extracted Coq models.
   One request per input line, one reply per output line.
   Values:  v ::= hex-string token | "-" (empty string) | "[" v* "]"
   Request: <command> v*            Reply: v   (or "!error text") *)

type v = S of string | L of v list

let hex_decode h =
  if h = "-" then "" else begin
    let n = String.length h / 2 in
    let b = Bytes.create n in
    for i = 0 to n - 1 do
      Bytes.set b i (Char.chr (int_of_string ("0x" ^ String.sub h (2 * i) 2)))
    done;
    Bytes.to_string b
  end

let hex_encode s =
  if s = "" then "-" else begin
    let b = Buffer.create (2 * String.length s) in
    String.iter (fun c -> Buffer.add_string b (Printf.sprintf "%02x" (Char.code c))) s;
    Buffer.contents b
  end

let parse_tokens toks =
  let rec value = function
    | "[" :: rest -> let (items, rest') = items rest [] in (L items, rest')
    | "]" :: _ -> failwith "unexpected ]"
    | t :: rest -> (S (hex_decode t), rest)
    | [] -> failwith "unexpected end"
  and items toks acc =
    match toks with
    | "]" :: rest -> (List.rev acc, rest)
    | [] -> failwith "missing ]"
    | _ -> let (v, rest) = value toks in items rest (v :: acc)
  in
  let rec all toks acc =
    match toks with
    | [] -> List.rev acc
    | _ -> let (v, rest) = value toks in all rest (v :: acc)
  in
  all toks []

let rec print b = function
  | S s -> Buffer.add_string b (hex_encode s)
  | L l -> Buffer.add_string b "["; List.iter (fun x -> Buffer.add_char b ' '; print b x) l; Buffer.add_string b " ]"

let str = function S s -> s | L _ -> failwith "expected string"
let lst = function L l -> l | S _ -> failwith "expected list"
let strs v = List.map str (lst v)
let vstrs l = L (List.map (fun s -> S s) l)
let vbool b = S (if b then "1" else "0")
let tags v = List.map (fun p -> match lst p with [k; b] -> (str k, strs b) | _ -> failwith "tag pair") (lst v)
let vtags t = L (List.map (fun (k, b) -> L [S k; vstrs b]) t)


(* command registry: each cmds_*.ml file registers its commands at start-up *)
let registry : (string, v list -> v) Hashtbl.t = Hashtbl.create 64
let register (name : string) (f : v list -> v) = Hashtbl.replace registry name f

(* numbers: decimal strings <-> Coq nat / N / Z are converted by the cmds files that need them *)
let vint (i : int) = S (string_of_int i)
let int_of v = int_of_string (str v)
