(* commands of the C12 models (Model/CValue.v, Model/Layout.v, Model/ProtoLang.v, Spec/LayoutSpec.v)

   interface := [ preamble [ struct* ] [ msg* ] ]          numbers are decimal strings
   struct    := [ name [ member* ] ]
   msg       := [ name id [ member* ] ]
   member    := [ "P" name primname hasdefault("1"|"0") default ] | [ "S" name structname [ member* ] ] *)
open Kcore
open BinNums

(* ---- numbers: OCaml int <-> extracted positive / N / Z *)
let rec pos_of_int n = if n = 1 then Coq_xH else if n land 1 = 0 then Coq_xO (pos_of_int (n lsr 1)) else Coq_xI (pos_of_int (n lsr 1))
let z_of_int n = if n = 0 then Z0 else if n > 0 then Zpos (pos_of_int n) else Zneg (pos_of_int (- n))
let rec int_of_pos = function Coq_xH -> 1 | Coq_xO p -> 2 * int_of_pos p | Coq_xI p -> 2 * int_of_pos p + 1
let int_of_n = function N0 -> 0 | Npos p -> int_of_pos p
let rec nat_of_int n = if n <= 0 then Datatypes.O else Datatypes.S (nat_of_int (n - 1))

(* decimal string of arbitrary size -> Z (ids and preambles may be out of every machine range) *)
let z_of_dec (s : string) : coq_Z =
  let neg = String.length s > 0 && s.[0] = '-' in
  let digits = if neg then String.sub s 1 (String.length s - 1) else s in
  if digits = "" then failwith "empty number";
  let ten = z_of_int 10 in
  let acc = ref Z0 in
  String.iter (fun c ->
      if c < '0' || c > '9' then failwith ("not a decimal number: " ^ s);
      acc := BinInt.Z.add (BinInt.Z.mul !acc ten) (z_of_int (Char.code c - 48))) digits;
  if neg then BinInt.Z.opp !acc else !acc

let chars_of_string s = List.init (String.length s) (String.get s)
let string_of_chars l = let b = Buffer.create 64 in List.iter (Buffer.add_char b) l; Buffer.contents b

let vn n = S (string_of_int (int_of_n n))

let prim_of s = match CValue.prim_of_name s with Some p -> p | None -> failwith ("not a primitive type: " ^ s)

let rec member_of v = match lst v with
  | [k; n; t; h; d] when str k = "P" -> ProtoLang.MPrim (str n, prim_of (str t), (if str h = "1" then Some (str d) else None))
  | [k; n; sn; ms] when str k = "S" -> ProtoLang.MStruct (str n, str sn, List.map member_of (lst ms))
  | _ -> failwith "member"

let struct_of v = match lst v with
  | [n; ms] -> { ProtoLang.s_name = str n; s_members = List.map member_of (lst ms) }
  | _ -> failwith "struct"

let msg_of v = match lst v with
  | [n; id; ms] -> { ProtoLang.m_name = str n; m_id = z_of_dec (str id); m_members = List.map member_of (lst ms) }
  | _ -> failwith "msg"

let iface_of v = match lst v with
  | [p; ss; ms] -> { ProtoLang.i_preamble = z_of_dec (str p); i_structs = List.map struct_of (lst ss); i_msgs = List.map msg_of (lst ms) }
  | _ -> failwith "iface"

let vsinfo name (si : Layout.sinfo) =
  L [S name; vn si.Layout.si_size; vn si.Layout.si_align;
     L (List.map (fun (f : Layout.finfo) -> L [S f.Layout.fi_name; S f.Layout.fi_ty; vn f.Layout.fi_off; vn f.Layout.fi_size]) si.Layout.si_fields)]

let find_msg (i : ProtoLang.iface) n = List.find (fun (m : ProtoLang.msg) -> m.ProtoLang.m_name = n) i.ProtoLang.i_msgs
let find_struct (i : ProtoLang.iface) n = List.find (fun (s : ProtoLang.strct) -> s.ProtoLang.s_name = n) i.ProtoLang.i_structs

let () =
  register "c12_wf" (function [i] -> vbool (ProtoLang.wf_iface (iface_of i)) | _ -> failwith "arity");
  (* sizeof/alignof/offsetof of every declared struct according to the model of the generated program *)
  register "c12_layout" (function [i] ->
      let g = ProtoLang.emit (iface_of i) in
      (match Layout.build_env [] g.Layout.cg_decls with
       | None -> L [S "0"; L []]
       | Some e -> L [S "1"; L (List.map (fun (n, si) -> vsinfo n si) e)])
    | _ -> failwith "arity");
  (* the same according to the specification *)
  register "c12_spec_layout" (function [i] ->
      let i = iface_of i in
      L ([vsinfo ProtoLang.hdr_name LayoutSpec.hdr_spec]
         @ List.map (fun (s : ProtoLang.strct) -> vsinfo s.ProtoLang.s_name (LayoutSpec.struct_spec s)) i.ProtoLang.i_structs
         @ List.map (fun (m : ProtoLang.msg) -> vsinfo m.ProtoLang.m_name (LayoutSpec.msg_spec m)) i.ProtoLang.i_msgs)
    | _ -> failwith "arity");
  (* the abstract program: declarations and factories, defaults and bodies rendered as C++ text *)
  register "c12_emit" (function [i] ->
      let g = ProtoLang.emit (iface_of i) in
      L [L (List.map (fun (d : Layout.cstruct) ->
             L [S d.Layout.cs_name;
                L (List.map (fun (m : Layout.cmember) -> L [S m.Layout.cm_ty; S m.Layout.cm_name; vbool m.Layout.cm_packed]) d.Layout.cs_members)])
             g.Layout.cg_decls);
         L (List.map (fun (f : Layout.cfactory) ->
             L [S f.Layout.cf_ret; S f.Layout.cf_name;
                L (List.map (fun (p : Layout.cparam) ->
                    L [S p.Layout.cp_ty; vbool p.Layout.cp_ref; S p.Layout.cp_name;
                       (match p.Layout.cp_default with Some d -> L [S (ProtoLang.render_init d)] | None -> L [])]) f.Layout.cf_params);
                S (ProtoLang.render_init f.Layout.cf_body)])
             g.Layout.cg_factories)]
    | _ -> failwith "arity");
  (* bytes returned by factory fname called with the given leading arguments (each an object's bytes) *)
  register "c12_call" (function [i; fname; args] ->
      let g = ProtoLang.emit (iface_of i) in
      (match Layout.call g (str fname) (List.map (fun a -> chars_of_string (str a)) (lst args)) with
       | Some b -> L [S "1"; S (string_of_chars b)]
       | None -> L [S "0"; S ""])
    | _ -> failwith "arity");
  (* what the specification demands of that call: kind "M" message / "S" struct *)
  register "c12_spec_value" (function [i; kind; name; args] ->
      let i = iface_of i in
      let args = List.map (fun a -> chars_of_string (str a)) (lst args) in
      if str kind = "M" then S (string_of_chars (LayoutSpec.msg_value i (find_msg i (str name)) args))
      else S (string_of_chars (LayoutSpec.struct_value (find_struct i (str name)) args))
    | _ -> failwith "arity");
  (* literal -> object representation of a primitive *)
  register "c12_lit" (function [p; s] ->
      (match CValue.conv (prim_of (str p)) (CValue.parse_lit (str s)) with
       | Some b -> L [S "1"; S (string_of_chars b)]
       | None -> L [S "0"; S ""])
    | _ -> failwith "arity");
  register "c12_field" (function [i; kind; name; k; obj] ->
      let i = iface_of i in
      let info = if str kind = "M" then LayoutSpec.msg_spec (find_msg i (str name)) else LayoutSpec.struct_spec (find_struct i (str name)) in
      S (string_of_chars (LayoutSpec.field_bytes info (nat_of_int (int_of k)) (chars_of_string (str obj))))
    | _ -> failwith "arity")
