(* commands of the class-diagram input adaptor model (Model/UmlBlob.v); linked after cmds_vpp.ml (it reuses its db reader) *)
open Kcore

let rec vpv = function
  | UmlBlob.PStr s -> L [S "s"; S s]
  | UmlBlob.PDict d -> L [S "d"; L (List.map (fun (k, v) -> L [S k; vpv v]) d)]

let vparam (p : Uml.param) = L [S p.Uml.p_type; S p.Uml.p_name; S p.Uml.p_default; S p.Uml.p_ext]
let voper (o : Uml.oper) =
  L [S o.Uml.o_name; S o.Uml.o_vis; S o.Uml.o_ret; L (List.map vparam o.Uml.o_params); vbool o.Uml.o_virtual; vbool o.Uml.o_static; vbool o.Uml.o_const]
let vcls (c : Uml.cls) =
  L [S c.Uml.c_id; S c.Uml.c_name; S c.Uml.c_ns; vbool c.Uml.c_enum; vbool c.Uml.c_struct; vbool c.Uml.c_autogen; vbool c.Uml.c_pure;
     L (List.map voper c.Uml.c_ops)]
let vcdiagram (d : Uml.cdiagram) =
  L [L (List.map vcls d.Uml.classes); L (List.map (fun (i : Uml.inh) -> L [S i.Uml.i_to; S i.Uml.i_from; vbool i.Uml.i_real]) d.Uml.inhs)]

let vos = function None -> L [] | Some s -> L [S s]
let vrparam (p : UmlBlob.rparam) =
  L [S p.UmlBlob.rp_const; S p.UmlBlob.rp_type; S p.UmlBlob.rp_name; S p.UmlBlob.rp_modifier; S p.UmlBlob.rp_default; S p.UmlBlob.rp_mult; S p.UmlBlob.rp_dir]
let vrop (o : UmlBlob.rop) =
  L [S o.UmlBlob.ro_name; S o.UmlBlob.ro_vis; S o.UmlBlob.ro_ret; S o.UmlBlob.ro_retmod; L (List.map vrparam o.UmlBlob.ro_params);
     S o.UmlBlob.ro_comment; vbool o.UmlBlob.ro_virtual; vbool o.UmlBlob.ro_static; vbool o.UmlBlob.ro_const]
let vrattr (a : UmlBlob.rattr) =
  L [S a.UmlBlob.ra_name; S a.UmlBlob.ra_vis; S a.UmlBlob.ra_mod; S a.UmlBlob.ra_comment; S a.UmlBlob.ra_type; S a.UmlBlob.ra_mult;
     vbool a.UmlBlob.ra_setter; vbool a.UmlBlob.ra_getter; vbool a.UmlBlob.ra_static; vbool a.UmlBlob.ra_const; vos a.UmlBlob.ra_init]
let vrclass (c : UmlBlob.rclass) =
  L [S c.UmlBlob.rc_id; S c.UmlBlob.rc_name; S c.UmlBlob.rc_ns; vbool c.UmlBlob.rc_pure; vbool c.UmlBlob.rc_autogen; vbool c.UmlBlob.rc_enum;
     vbool c.UmlBlob.rc_struct; vbool c.UmlBlob.rc_packed; S c.UmlBlob.rc_comment; vstrs c.UmlBlob.rc_literals;
     L (List.map vrop c.UmlBlob.rc_ops); L (List.map vrattr c.UmlBlob.rc_attrs)]
let vrassoc (a : UmlBlob.rassoc) =
  L [S a.UmlBlob.as_id; S a.UmlBlob.as_name; S a.UmlBlob.as_type; S a.UmlBlob.as_comment;
     S a.UmlBlob.as_from; S a.UmlBlob.as_from_id; S a.UmlBlob.as_from_vis; vbool a.UmlBlob.as_from_static; vbool a.UmlBlob.as_from_const;
     S a.UmlBlob.as_from_mult; vbool a.UmlBlob.as_from_getter; vbool a.UmlBlob.as_from_setter;
     S a.UmlBlob.as_to; S a.UmlBlob.as_to_id; S a.UmlBlob.as_to_vis; vbool a.UmlBlob.as_to_static; vbool a.UmlBlob.as_to_const;
     S a.UmlBlob.as_to_mult; vbool a.UmlBlob.as_to_getter; vbool a.UmlBlob.as_to_setter]
let vrdiagram (d : UmlBlob.rdiagram) =
  L [L (List.map (fun (_, c) -> vrclass c) d.UmlBlob.rd_classes);
     L (List.map (fun (_, (p : UmlBlob.rpackage)) -> L [S p.UmlBlob.rk_id; S p.UmlBlob.rk_name; vstrs p.UmlBlob.rk_classes]) d.UmlBlob.rd_packages);
     L (List.map (fun (_, a) -> vrassoc a) d.UmlBlob.rd_assocs);
     L (List.map (fun (_, (i : UmlBlob.rinh)) -> L [S i.UmlBlob.ri_id; vbool i.UmlBlob.ri_real; S i.UmlBlob.ri_from; S i.UmlBlob.ri_from_id; S i.UmlBlob.ri_to; S i.UmlBlob.ri_to_id]) d.UmlBlob.rd_inhs)]

(* structured blobs: item = ["F" ws k v] | ["R" ws k o sep c [ids]] | ["C" ws k o sep c [nodes]] | ["W" s] | ["I" s]; node = [id optname type [items] tail] *)
let oname v = match lst v with [] -> None | [x] -> Some (str x) | _ -> failwith "option"
let rec wnode v = match lst v with
  | [i; n; t; its; tl] -> UmlWriter.WNode (str i, oname n, str t, List.map witem (lst its), str tl)
  | _ -> failwith "wnode"
and witem v = match lst v with
  | [k; ws; key; value] when str k = "F" -> UmlWriter.IField (str ws, str key, str value)
  | [k; ws; key; o; sep; c; ids] when str k = "R" -> UmlWriter.IRefs (str ws, str key, str o, str sep, str c, strs ids)
  | [k; ws; key; o; sep; c; ns] when str k = "C" -> UmlWriter.IChildren (str ws, str key, str o, str sep, str c, List.map wnode (lst ns))
  | [k; s] when str k = "W" -> UmlWriter.IRaw (str s)
  | [k; s] when str k = "I" -> UmlWriter.IInert (str s)
  | _ -> failwith "witem"

let () =
  register "ub_print_node" (function [n] -> S (UmlWriter.print_node (wnode n)) | _ -> failwith "arity");
  register "ub_parse" (function [s] -> (match UmlBlob.parse_blob (str s) with None -> L [] | Some v -> L [vpv v]) | _ -> failwith "arity");
  register "ub_load" (function [d; n] ->
      (match UmlBlob.load_cdiagram (Cmds_vpp.db d) (str n) with None -> L [] | Some r -> L [vrdiagram r]) | _ -> failwith "arity");
  register "ub_adaptor" (function [d; n] ->
      (match UmlBlob.adaptor (Cmds_vpp.db d) (str n) with None -> L [] | Some c -> L [vcdiagram c]) | _ -> failwith "arity");
  register "ub_adaptor_incl" (function [d; n] ->
      (match UmlIncl.adaptor_incl (Cmds_vpp.db d) (str n) with
       | None -> L []
       | Some i ->
           let ty t = L [S t.UmlIncl.it_type; S t.UmlIncl.it_mod; S t.UmlIncl.it_mult] in
           let op o = L [S o.UmlIncl.io_ret; S o.UmlIncl.io_retmod; L (List.map ty o.UmlIncl.io_params)] in
           L [L [L (List.map (fun c -> L [S c.UmlIncl.ic_id; S c.UmlIncl.ic_name; S c.UmlIncl.ic_ns; vbool c.UmlIncl.ic_pure;
                                          L (List.map ty c.UmlIncl.ic_attrs); L (List.map op c.UmlIncl.ic_ops)]) i.UmlIncl.i_classes);
                 L (List.map (fun x -> L [S x.UmlIncl.ii_to; S x.UmlIncl.ii_from_id; S x.UmlIncl.ii_from; vbool x.UmlIncl.ii_real]) i.UmlIncl.i_inhs);
                 L (List.map (fun x -> L [S x.UmlIncl.ix_type; S x.UmlIncl.ix_from_id; S x.UmlIncl.ix_from; S x.UmlIncl.ix_to_id; S x.UmlIncl.ix_to;
                                          S x.UmlIncl.ix_from_mult; S x.UmlIncl.ix_to_mult]) i.UmlIncl.i_assocs)];
              vbool (UmlIncl.incl_names_ok i)]) | _ -> failwith "arity");
  register "ub_adaptor_cs" (function [d; n] ->
      (match UmlBlob.adaptor_cs (Cmds_vpp.db d) (str n) with None -> L [] | Some c -> L [vcdiagram c]) | _ -> failwith "arity");
  register "ub_type_and_name_cs" (function [t; m; mu; n] ->
      let (a, b) = UmlBlob.type_and_name_cs (str t) (str m) (str mu) (str n) in L [S a; S b] | _ -> failwith "arity");
  register "ub_type_and_name" (function [t; m; mu; n] ->
      let (a, b) = UmlBlob.type_and_name (str t) (str m) (str mu) (str n) in L [S a; S b] | _ -> failwith "arity");
  register "ub_default" (function [m; mu; d] -> S (UmlBlob.default_format (str m) (str mu) (str d)) | _ -> failwith "arity");
  register "ub_container" (function [m] -> S (UmlBlob.container_type (str m)) | _ -> failwith "arity");
  register "ub_clean_modifiers" (function [t] -> S (UmlBlob.clean_modifiers (str t)) | _ -> failwith "arity")
