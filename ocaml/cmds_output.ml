(* commands of the output-stage model (Model/Output.v) *)
open Kcore

let rec nat_of_int (n : int) : Datatypes.nat = if n <= 0 then Datatypes.O else Datatypes.S (nat_of_int (n - 1))
let cmodel v = List.map (fun e -> match lst e with [n; ls] -> (str n, strs ls) | _ -> failwith "cmodel entry") (lst v)
let fsys v = List.map (fun e -> match lst e with [p; c] -> (str p, str c) | _ -> failwith "fs entry") (lst v)
let vfs fs = L (List.map (fun (p, c) -> L [S p; S c]) fs)

let () =
  register "createoutput_ops" (function [outdir; m] ->
      L (List.map (fun o -> let (k, (a, b)) = Output.op_render o in L [S k; S a; S b]) (Output.createoutput_ops (str outdir) (cmodel m)))
    | _ -> failwith "arity");
  register "crash" (function [mode; k; outdir; m; fs] ->
      let ops = Output.createoutput_ops (str outdir) (cmodel m) in
      let s0 = { Output.disk_fs = fsys fs; Output.bufs = [] } in
      let f = if str mode = "kill" then Output.crash_kill else Output.crash_exn in
      vfs (f (nat_of_int (int_of k)) ops s0)
    | _ -> failwith "arity");
  register "filesync_ops" (function [pb; a; b] ->
      L (List.map (fun o -> let (k, (x, y)) = Output.op_render o in L [S k; S x; S y]) (Output.filesync_ops (str pb) (str a) (str b)))
    | _ -> failwith "arity");
  register "filesync_jobs_ok" (function [pb; a; b] -> vbool (Output.jobs_okb (Output.filesync_jobs (str pb) (str a) (str b))) | _ -> failwith "arity");
  register "jobs_ok" (function [outdir; m] -> vbool (Output.jobs_okb (Output.createoutput_jobs (str outdir) (cmodel m))) | _ -> failwith "arity")
