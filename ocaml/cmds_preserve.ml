(* commands of the preservation models (Model/Preserve.v) *)
open Kcore

let old_of v =
  (* [ [name kind content] ... ] kind: "M" missing, "U" unreadable, "R" readable *)
  let tbl = List.map (fun e -> match lst e with
      | [n; k; c] -> (str n, (match str k with
          | "U" -> Preserve.Unreadable | "R" -> Preserve.Readable (str c) | _ -> Preserve.Missing))
      | _ -> failwith "old entry") (lst v) in
  fun name -> (try List.assoc name tbl with Not_found -> Preserve.Missing)

let cmodel v = List.map (fun e -> match lst e with [n; ls] -> (str n, strs ls) | _ -> failwith "cmodel entry") (lst v)


let () =
  register "clean" (function [s] -> S (Preserve.kof (str s)) | _ -> failwith "arity");
  register "tab4" (function [s] -> S (Str.tab4 (str s)) | _ -> failwith "arity");
  register "split_lines" (function [s] -> vstrs (Str.split_lines (str s)) | _ -> failwith "arity");
  register "read_lines" (function [s] -> vstrs (Preserve.read_lines (str s)) | _ -> failwith "arity");
  register "collect" (function [ls] -> vtags (Preserve.collect (strs ls)) | _ -> failwith "arity");
  register "emplace" (function [r; tg; ls] ->
      let (out, used) = Preserve.emplace (str r = "1") (tags tg) (strs ls) in L [vstrs out; vstrs used] | _ -> failwith "arity");
  register "preserve1" (function [p; fresh; old] ->
      let (out, lost) = Preserve.preserve1 (str p) (strs fresh) (strs old) in L [vstrs out; vstrs lost] | _ -> failwith "arity");
  register "regen" (function [outdir; old; fresh] ->
      let (written, returned) = Preserve.regen (str outdir) (old_of old) (cmodel fresh) in
      L [L (List.map (fun (n, c) -> L [S n; S c]) written); vstrs returned] | _ -> failwith "arity");
  register "utf8_valid" (function [s] -> vbool (Preserve.utf8_valid (str s)) | _ -> failwith "arity");
  register "regen_dir" (function [outdir; dir; fresh] ->
      (* dir: [ [name bytes] ... ] for the names that exist *)
      let tbl = List.map (fun e -> match lst e with [n; c] -> (str n, str c) | _ -> failwith "dir entry") (lst dir) in
      let (written, returned) = Preserve.regen_dir (str outdir) (fun n -> List.assoc_opt n tbl) (cmodel fresh) in
      L [L (List.map (fun (n, c) -> L [S n; S c]) written); vstrs returned] | _ -> failwith "arity");
  register "file_sync" (function [a; b] -> S (Preserve.file_sync (str a) (str b)) | _ -> failwith "arity");
  register "wf_fresh" (function [ls] -> vbool (Preserve.wf_fresh_file (strs ls)) | _ -> failwith "arity");
  register "join" (function [a; b] -> S (Preserve.join (str a) (str b)) | _ -> failwith "arity")
