#!/bin/sh
# regenerate Makefile from all .v files and build
cd /verif/coq
find theories -name '*.v' | grep -v Extract/ | sort > .vfiles
coq_makefile -f _CoqProject $(cat .vfiles) -o Makefile >/dev/null
timeout 1800 make -j8 "$@" 2>&1 | grep -v "WARNING conda"
