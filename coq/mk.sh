#!/bin/sh
# developer helper: regenerate Makefile from all .v files (except Extract/) and build [targets]
cd "$(dirname "$0")" || exit 2
find theories -name '*.v' | grep -v Extract/ | sort > .vfiles
coq_makefile -f _CoqProject $(cat .vfiles) -o Makefile >/dev/null
timeout 3000 make -j8 "$@" 2>&1 | grep -v "WARNING conda"
