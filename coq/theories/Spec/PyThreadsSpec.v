(* C11 -- vocabulary of the theorem statements: reachability in the LTS, readings of the log / put history, the
   explicit ranking function.  Definitions only. *)
From Coq Require Import String List Bool Arith NArith.
From KV Require Import Model.PySyncIR Model.PyThreads Model.PyMachine.
Import ListNotations.
Open Scope list_scope.

(* states reachable under ANY schedule: any thread that can move may move next *)
Inductive reach (P : prog) (c : config) : state -> Prop :=
| reach_init : reach P c (init_state P c)
| reach_step : forall s t s' l, reach P c s -> step P (threaded c) t s = Some (s', l) -> reach P c s'.

Inductive reach_from (P : prog) (c : config) (s : state) : state -> Prop :=
| rf_refl : reach_from P c s s
| rf_step : forall s1 t s2 l, reach_from P c s s1 -> step P (threaded c) t s1 = Some (s2, l) -> reach_from P c s s2.

Definition begun (l : list lg) : list ev := flat_map (fun x => match x with LBegin _ e => [e] | LEnd _ _ => [] end) l.

(* the log of a strictly sequential execution on the worker thread (thread 1) *)
Definition plog (d : list ev) : list lg := flat_map (fun e => [LBegin 1 e; LEnd 1 e]) d.

Definition puts_by (t : nat) (p : list (nat * ev)) : list ev := map snd (filter (fun x => Nat.eqb (fst x) t) p).

Definition prefix {A} (a b : list A) : Prop := exists r, b = a ++ r.

(* ---- ranking function (explicit, on concrete states) *)
Fixpoint pcost (e : ev) : nat :=          (* process(e) and everything its callbacks trigger *)
  match e with Ev _ c => 1 + (fix go (l : list ev) : nat := match l with [] => 0 | x :: r => (7 + pcost x) + go r end) c end.
Definition qw (e : ev) : nat := 4 + pcost e.          (* an event sitting in the queue *)
Definition cost (e : ev) : nat := 3 + qw e.           (* an event still to be triggered *)
Definition costs (l : list ev) : nat := fold_right (fun e n => cost e + n) 0 l.

Fixpoint opw (o : op) : nat :=
  match o with
  | If _ t e => 1 + Nat.max ((fix go (l : list op) : nat := match l with [] => 0 | x :: r => opw x + go r end) t)
                            ((fix go (l : list op) : nat := match l with [] => 0 | x :: r => opw x + go r end) e)
  | TryEmpty b h => (fix go (l : list op) : nat := match l with [] => 0 | x :: r => opw x + go r end) b
                    + (fix go (l : list op) : nat := match l with [] => 0 | x :: r => opw x + go r end) h
  | _ => 1
  end.

Definition kw (k : kitem) : nat :=
  match k with
  | KOp o => opw o
  | KTry _ => 0
  | KCall e => cost e
  | KEnd _ => 1
  | KMark _ => 1
  end.
Definition contw (k : list kitem) : nat := fold_right (fun x n => kw x + n) 0 k.

(* a thread that triggers: what is left of its program + the event it is about to put *)
Definition trank (th : thread) : nat := contw (cont th) + match cur th with Some e => qw e | None => 0 end.

(* the worker: polling (loop head / get) costs nothing extra while the queue is empty; a taken event costs pcost *)
Definition wrank (th : thread) (q : list ev) : nat :=
  match cont th with
  | [] => 0
  | KOp (While _ _) :: _ => 1
  | KOp Get :: _ => match q with [] => 1 | _ => 0 end
  | KOp Process :: KOp TaskDone :: _ => 3 + match cur th with Some e => pcost e | None => 0 end
  | _ => trank th
  end.

Definition rank (s : state) : nat :=
  trank (tmain s) + wrank (tworker s) (queue (sh s)) + fold_right (fun t n => trank t + n) 0 (tprods s)
  + fold_right (fun e n => qw e + n) 0 (queue (sh s)).

(* the worker's polling loop turning over while the queue is empty: its get() times out, or it re-reads the (true)
   condition of the loop it is at the head of *)
Definition idle_step (s : state) (t : nat) (l : label) : Prop :=
  t = 1 /\ queue (sh s) = [] /\
  (l = LGetTimeout \/ exists f b k, l = LReadFlag f true /\ cont (tworker s) = KOp (While (CFlag f) b) :: k).
