(* Specification of C20: the transition table a drawn state diagram stands for.  Independent of the reader's model
   (Model/Vpp.v): it never looks at a blob, only at the abstract diagram (Model/VppWriter.v gives its type).
   One row per transition that does not start at the initial pseudo state:
     [source state name; trigger name; target state name or 'None' for a self transition; effect name or 'None';
      guard text or 'None'],
   grouped by source state: the target(s) of the initial arrow(s) first, then source states in order of first appearance;
   inside a group in drawing order.  No proofs here. *)
From Coq Require Import String List Bool.
From KV Require Import Lib.Str Model.Vpp Model.VppWriter.
Import ListNotations.
Open Scope string_scope.

Definition name_of (ps : list pelem) (id : string) : string :=
  match find (fun p => String.eqb (p_id p) id) ps with Some p => ostr (p_name p) | None => "" end.

Definition guard_text (gs : list dguard) (id : string) : string :=
  match find (fun g => String.eqb (g_id g) id) gs with Some g => g_text g | None => "" end.

Definition is_initial (D : diagram) (t : dtrans) : bool := existsb (fun p => String.eqb (p_id p) (t_from t)) (inits D).

Definition row_of (D : diagram) (t : dtrans) : list string :=
  let from := name_of (states D) (t_from t) in
  let to := name_of (states D) (t_to t) in
  [from; ostr (t_name t);
   if String.eqb (t_to t) (t_from t) then "None" else to;
   match t_effect t with Some a => name_of (d_acts D) a | None => "None" end;
   match t_guard t with Some g => guard_text (d_guards D) g | None => "None" end].

Definition drawn_rows (D : diagram) : list (list string) :=
  map (row_of D) (filter (fun t => negb (is_initial D t)) (transitions D)).

Definition initial_targets (D : diagram) : list string :=
  map (fun t => name_of (states D) (t_to t)) (filter (is_initial D) (transitions D)).

Fixpoint dedup (seen l : list string) : list string :=
  match l with
  | [] => []
  | x :: r => if existsb (String.eqb x) seen then dedup seen r else x :: dedup (x :: seen) r
  end.

Definition src (r : list string) : string := hd "" r.

Definition expected_rows (D : diagram) : list (list string) :=
  let rows := drawn_rows D in
  flat_map (fun s => filter (fun r => String.eqb (src r) s) rows) (dedup [] (initial_targets D ++ map src rows)%list).
