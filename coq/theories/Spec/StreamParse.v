(* Specification-side parser of a WHOLE byte stream (independent of Model/Conn.v: no chunks, no buffer, no state):
   skip bytes until the first preamble byte; there a header must follow; take header + PayloadSize bytes as one message;
   continue after it.  A message that is not complete at the end of the stream is not reported. *)
From Coq Require Import String Ascii List Bool Arith NArith.
From KV Require Import Lib.Str Lib.ByteSeq.
Import ListNotations.
Open Scope N_scope.
Open Scope list_scope.

Fixpoint stream_parse_fuel (fuel : nat) (p0 : byte) (s : list byte) : list (list byte) :=
  match fuel with
  | O => []
  | S f =>
      match s with
      | [] => []
      | b :: r =>
          if Ascii.eqb b p0 then
            if len s <? size_of_header then []
            else
              let n := size_of_header + payload_size s in
              if len s <? n then [] else take n s :: stream_parse_fuel f p0 (drop n s)
          else stream_parse_fuel f p0 r
      end
  end.

Definition stream_parse (p0 : byte) (s : list byte) : list (list byte) := stream_parse_fuel (S (length s)) p0 s.
