(* The declarative reading of C17 (user tags, IF/ELSEIF/ELSE, FOR) and C16 (per-element blocks):
   templates as abstract syntax, their concrete rendering as template lines, and the reference expander.
   Nothing here refers to the model of the code (Model/Engine.v); the tag spellings are written out literally.
   No proofs in this file. *)
From Coq Require Import String Ascii List Bool Arith.
From KV Require Import Lib.Str Lib.StrOps Lib.ODict.
Import ListNotations.
Open Scope string_scope.
Open Scope list_scope.

(* ================================================================ C17 : template syntax *)
(* a piece of a template line: literal text, or a tag <<<name>>> / <<<name=default>>> *)
Inductive seg := Lit (s : string) | Tag (name : string) (dflt : option string).
Definition uline := list seg.           (* one template line, without its newline *)

Inductive fhdr :=
| HLit (s : string)                     (* <<<FOR_BEGIN=s>>>            a literal list "a,b,c" or a count "3" *)
| HTag (name : string) (dflt : option string).   (* <<<FOR_BEGIN=<<<name=dflt>>>>>>   list/count given by a user tag *)

Inductive item :=
| Plain (l : uline)
| Cond (first : string * list uline) (elifs : list (string * list uline)) (els : option (list uline))
| For (h : fhdr) (body : list uline).

Definition template := list item.

Definition render_seg (g : seg) : string :=
  match g with
  | Lit s => s
  | Tag n None => ("<<<" ++ n ++ ">>>")%string
  | Tag n (Some d) => ("<<<" ++ n ++ "=" ++ d ++ ">>>")%string
  end.
Fixpoint render_body (l : uline) : string :=
  match l with [] => EmptyString | g :: r => (render_seg g ++ render_body r)%string end.
Definition render_line (l : uline) : string := (render_body l ++ nl_str)%string.

Definition render_if (t : string) : string := ("<<<IF " ++ t ++ ">>>" ++ nl_str)%string.
Definition render_elseif (t : string) : string := ("<<<ELSEIF " ++ t ++ ">>>" ++ nl_str)%string.
Definition render_else : string := ("<<<ELSE>>>" ++ nl_str)%string.
Definition render_endif : string := ("<<<ENDIF>>>" ++ nl_str)%string.
Definition render_for_value (v : string) : string := ("<<<FOR_BEGIN=" ++ v ++ ">>>" ++ nl_str)%string.
Definition render_hdr (h : fhdr) : string :=
  match h with
  | HLit s => render_for_value s
  | HTag n d => render_for_value (render_seg (Tag n d))
  end.
Definition render_for_end : string := ("<<<FOR_END>>>" ++ nl_str)%string.

Definition render_branch (kw : string -> string) (b : string * list uline) : list string :=
  kw (fst b) :: map render_line (snd b).

Definition render_item (it : item) : list string :=
  match it with
  | Plain l => [render_line l]
  | Cond b elifs els =>
      render_branch render_if b ++ flat_map (render_branch render_elseif) elifs
      ++ (match els with Some ls => render_else :: map render_line ls | None => [] end) ++ [render_endif]
  | For h body => render_hdr h :: map render_line body ++ [render_for_end]
  end.

Definition render (t : template) : list string := flat_map render_item t.

(* ================================================================ C17 : reference semantics *)
(* an assignment of user tags: name -> text of the value (None is "", a number is its decimal text) *)
Definition assign := list (string * string).
Definition value_of (a : assign) (n : string) : option string := lookup String.eqb n a.
Definition assigned (a : assign) (n : string) : bool := match value_of a n with Some _ => true | None => false end.

(* C17_usertag: assigned -> value; unassigned with default -> default; neither -> verbatim *)
Definition subst_seg (a : assign) (g : seg) : seg :=
  match g with
  | Lit s => Lit s
  | Tag n d => match value_of a n with
               | Some v => Lit v
               | None => match d with Some x => Lit x | None => Tag n None end
               end
  end.
Definition subst (a : assign) (l : uline) : uline := map (subst_seg a) l.
Definition ref_line (a : assign) (l : uline) : string := render_line (subst a l).

(* C17_if: a branch is emitted iff its tag is assigned; ELSE iff no earlier branch of the block was *)
Definition ref_cond (a : assign) (branches : list (string * list uline)) (els : option (list uline)) : list string :=
  flat_map (fun b => if assigned a (fst b) then map (ref_line a) (snd b) else []) branches
  ++ (if existsb (fun b => assigned a (fst b)) branches then []
      else match els with Some ls => map (ref_line a) ls | None => [] end).

(* C17_for: the items of a list "a, b ,c" (surrounding blanks and commas dropped, each item trimmed),
   or of a count n: "_0_" ... "_(n-1)_" *)
Fixpoint count_items (n : nat) : list string :=
  match n with O => [] | S k => count_items k ++ [("_" ++ dec k ++ "_")%string] end.

Definition for_items (v : string) : option (list string) :=
  let t := strip v in
  if has_char (chr 44) v then
    if isnumeric t then None
    else Some (map strip (split_on (chr 44) (strip_c (chr 44) t)))
  else if isnumeric t then Some (count_items (undec t)) else None.

Definition letters : string := "abcdefghijklmnopqrstuvwxyzABCDEFGHIJKLMNOPQRSTUVWXYZ".
Definition letter (i : nat) : string :=
  match get (i mod 52) letters with Some c => String c EmptyString | None => EmptyString end.
Definition small_first (s : string) : string :=
  match s with EmptyString => EmptyString | String c r => String (lower_c c) r end.

Definition is_named (n : string) (g : seg) : bool :=
  match g with Tag m None => String.eqb m n | _ => false end.
Definition mentions (n : string) (l : uline) : bool := existsb (is_named n) l.

Definition put (n v : string) (g : seg) : seg := if is_named n g then Lit v else g.

(* an ordinary body line for item [it] with index i *)
Definition each_line (it : string) (i : nat) (l : uline) : uline :=
  map (put "ALPH" (letter i)) (map (put "NUM" (dec i)) (map (put "each" (small_first it)) (map (put "EACH" it) l))).

Fixpoint enumerate_from {A} (i : nat) (l : list A) : list (nat * A) :=
  match l with [] => [] | x :: r => (i, x) :: enumerate_from (S i) r end.

Definition ordinary (l : uline) : bool := negb (mentions "FIRST" l) && negb (mentions "LAST" l).

Definition ref_for (items : list string) (body : list uline) : list string :=
  (match List.find (mentions "FIRST") body with
   | Some l => [render_line (map (put "FIRST" (hd EmptyString items)) l)] | None => [] end)
  ++ flat_map (fun ix => map (fun l => render_line (each_line (snd ix) (fst ix) l)) (filter ordinary body))
              (enumerate_from 0 items)
  ++ (match List.find (mentions "LAST") body with
      | Some l => [render_line (map (put "LAST" (last items EmptyString)) l)] | None => [] end).

Definition hdr_value (a : assign) (h : fhdr) : string :=
  match h with
  | HLit s => s
  | HTag n d => render_body [subst_seg a (Tag n d)]
  end.

(* None : the FOR header is neither a list nor a count (the property does not say what happens) *)
Definition ref_item (a : assign) (it : item) : option (list string) :=
  match it with
  | Plain l => Some [ref_line a l]
  | Cond b elifs els => Some (ref_cond a (b :: elifs) els)
  | For h body => option_map (fun items => ref_for items (map (subst a) body)) (for_items (hdr_value a h))
  end.

Fixpoint ref_lines (a : assign) (t : template) : option (list string) :=
  match t with
  | [] => Some []
  | it :: r => match ref_item a it, ref_lines a r with
               | Some x, Some y => Some (x ++ y)
               | _, _ => None
               end
  end.

(* the generated file: the lines, with TAB normalised to four spaces (the engine's output filter) *)
Definition ref17 (a : assign) (t : template) : option string :=
  option_map (fun ls => concat_lines (map tab4 ls)) (ref_lines a t).

(* non-interference vocabulary: the template lines / items that reference user tag x *)
Definition seg_refs (x : string) (g : seg) : bool :=
  match g with Tag n _ => String.eqb n x | Lit _ => false end.
Definition line_refs (x : string) (l : uline) : bool := existsb (seg_refs x) l.
Definition hdr_refs (x : string) (h : fhdr) : bool :=
  match h with HTag n _ => String.eqb n x | HLit _ => false end.
