(* C16: the declarative reading of the per-element blocks.
   A template is a list of items: text lines outside blocks, per-element blocks (state, event, action, guard, struct,
   protocol struct, message) and per-action-signature blocks.  A block body is a list of lines of the segment syntax of
   Spec/RefExpand.v (literal pieces and tags).  The reference expander emits the body once per element of the block's
   element list, in list order; in the copy for the i-th element (i from 0) every name tag is replaced by the element's
   name in the case variant the tag asks for, <<<NUM>>> by the decimal i and <<<ALPH>>> by the i-th letter of a..zA..Z
   (cycling).  The element lists of a transition table are its names in first-appearance order (Model/TTable.v:
   dedup / filter, the declarative table model shared with C08-C10).
   The two case variants are kojen's camel_case_small and snake_case (leaf string functions of Model/Engine.v, compared
   function-level with the Python helpers on every run).  No proofs in this file. *)
From Coq Require Import String Ascii List Bool Arith.
From KV Require Import Lib.Str Lib.StrOps Lib.ODict Lib.TableDef Model.TTable Spec.RefExpand.
From KV Require Model.Engine Model.EngineSM.
Import ListNotations.
Open Scope string_scope.
Open Scope list_scope.

Inductive ekind := KState | KEvent | KAction | KGuard | KStruct | KProto | KMsg.

Inductive item16 :=
| Text (l : string)                       (* a line outside blocks: literal text (without its newline) *)
| Raw (s : string)                        (* a line outside blocks exactly as it stands (the last line of a file may lack the newline) *)
| Block (k : ekind) (ib ie : string) (body : list uline)     (* ib / ie : what precedes the begin / end tag on its line (indentation) *)
| SigBlock (ib ie : string) (body : list uline)
| TransBlock (ib ie : string) (body : list titem)             (* per state > per event > per transition, nested *)
| EvBlock (ib ie : string) (body : list uline)   (* a per-event block whose body may mention <<<SIGNATURE>>> / <<<SIGNATUREWITHDEFAULTS>>> *)
| MsgBlock (ib ie sfx : string) (body : list uline)   (* a per-message block whose body may mention <<<MSGID>>>; sfx: what follows the end tag on its line *)
| InitLine (l : uline)                    (* a line outside blocks that mentions the initial state: <<<STATE_0>>> / <<<state_0>>> *)
| UserLine (l : uline)                    (* a line outside blocks with user tags <<<name>>> / <<<name=default>>> (C17_usertag) *)
| TableLine (pre : string) (ee : bool)    (* pre <<<TTT_BOOST_SML>>> / pre <<<TTT_BOOST_SML_ENTRY_EXIT>>> (ee): the boost::sml transition table is printed here *)
with titem :=
| TLine (l : uline)                                           (* a line of the per-state block *)
| TEvent (ib ie : string) (body : list eitem)                 (* a per-event block inside it *)
with eitem :=
| ELine (l : uline)                                           (* a line of the per-event block *)
| EGuard (ib ie : string) (body : list uline).                (* a per-transition block inside it *)

Definition template16 := list item16.

Definition block_word (k : ekind) : string :=
  match k with
  | KState => "PER_STATE" | KEvent => "PER_EVENT" | KAction => "PER_ACTION" | KGuard => "PER_GUARD"
  | KStruct => "PER_STRUCT" | KProto => "PER_PROTOMSG" | KMsg => "PER_MSG"
  end.
Definition begin_line (w : string) : string := ("<<<" ++ w ++ "_BEGIN>>>" ++ nl_str)%string.
Definition end_line (w : string) : string := ("<<<" ++ w ++ "_END>>>" ++ nl_str)%string.

Definition ttt_tag (ee : bool) : string := if ee then "<<<TTT_BOOST_SML_ENTRY_EXIT>>>" else "<<<TTT_BOOST_SML>>>".

Definition render_eitem (x : eitem) : list string :=
  match x with
  | ELine l => [render_line l]
  | EGuard ib ie body => (ib ++ begin_line "PER_GUARDTRANSITION")%string :: map render_line body ++ [(ie ++ end_line "PER_GUARDTRANSITION")%string]
  end.
Definition render_titem (x : titem) : list string :=
  match x with
  | TLine l => [render_line l]
  | TEvent ib ie body => (ib ++ begin_line "PER_EVENTTRANSITION")%string :: flat_map render_eitem body ++ [(ie ++ end_line "PER_EVENTTRANSITION")%string]
  end.

Definition render_item16 (it : item16) : list string :=
  match it with
  | Text l => [(l ++ nl_str)%string]
  | Raw s => [s]
  | Block k ib ie body => (ib ++ begin_line (block_word k))%string :: map render_line body ++ [(ie ++ end_line (block_word k))%string]
  | SigBlock ib ie body => (ib ++ begin_line "PER_ACTION_SIGNATURE")%string :: map render_line body ++ [(ie ++ end_line "PER_ACTION_SIGNATURE")%string]
  | TransBlock ib ie body =>
      (ib ++ begin_line "PER_STATETRANSITION")%string :: flat_map render_titem body ++ [(ie ++ end_line "PER_STATETRANSITION")%string]
  | EvBlock ib ie body => (ib ++ begin_line "PER_EVENT")%string :: map render_line body ++ [(ie ++ end_line "PER_EVENT")%string]
  | MsgBlock ib ie sfx body =>
      (ib ++ begin_line "PER_MSG")%string :: map render_line body ++ [(ie ++ "<<<PER_MSG_END>>>" ++ sfx ++ nl_str)%string]
  | InitLine l => [render_line l]
  | UserLine l => [render_line l]
  | TableLine pre ee => [(pre ++ ttt_tag ee ++ nl_str)%string]
  end.
Definition render16 (t : template16) : list string := flat_map render_item16 t.

(* ---------------------------------------------------------------- what a tag stands for *)
Definition camel (s : string) : string := small_first s.
Definition snake (s : string) : string := Engine.snake_case s.

Definition family (asis cml snk : string) (name : string) : list (string * string) :=
  [(asis, name); (cml, camel name); (snk, snake name)].
Definition counters (i : nat) : list (string * string) := [("NUM", dec i); ("ALPH", letter i)].

(* inside a state / event / action / guard block every name tag stands for the element *)
Definition elem_table (name : string) (i : nat) : list (string * string) :=
  family "STATENAME" "stateName" "STATE_NAME" name ++ family "EVENTNAME" "eventName" "EVENT_NAME" name
  ++ family "ACTIONNAME" "actionName" "ACTION_NAME" name ++ family "GUARDNAME" "guardName" "GUARD_NAME" name
  ++ counters i.
(* inside a struct / message block *)
Definition proto_table (name : string) (i : nat) : list (string * string) :=
  [("STRUCTNAME", name); ("structName", camel name); ("MSGNAME", name); ("msgName", camel name);
   ("PROTOMSGNAME", name); ("protoMsgName", camel name)] ++ counters i.
(* inside a signature block: the action and the event of the signature; an absent event reads NONE, 'any' reads ANY *)
Definition sig_event_name (e : string) : string :=
  if is_none e then "NONE" else if String.eqb (TableDef.lower e) "any" then "ANY" else e.
Definition sig_table (ae : string * string) (i : nat) : list (string * string) :=
  family "ACTIONNAME" "actionName" "ACTION_NAME" (fst ae)
  ++ family "EVENTNAME" "eventName" "EVENT_NAME" (sig_event_name (snd ae)) ++ counters i.

Definition subst16 (tb : list (string * string)) (g : seg) : seg :=
  match g with
  | Tag n None => match lookup String.eqb n tb with Some v => Lit v | None => g end
  | _ => g
  end.

(* the body once per element, in list order *)
Definition ref_block {A} (tb : A -> nat -> list (string * string)) (items : list A) (body : list uline) : list string :=
  flat_map (fun ix => map (fun l => render_line (map (subst16 (tb (snd ix) (fst ix))) l)) body) (enumerate_from 0 items).

(* the element lists *)
Record elements := {
  el_states : list string; el_events : list string; el_actions : list string; el_guards : list string;
  el_sigs : list (string * string);
  el_structs : list string; el_protos : list string; el_msgs : list string;
  (* per state (sources first, then the states that are only targets), per event of the state, the transitions in table
     order; a transition is the table of the name tags it defines *)
  el_tps : list (string * list (string * list (list (string * string))));
  (* the initial state: the start state of the first row *)
  el_first : string;
  (* the rows of the table as given (five columns each) *)
  el_rows : list (list string);
  (* the user-tag assignment of the generation (a dictionary name -> str(value)) *)
  el_user : list (string * string);
  (* message name -> str(MessageTypeID) *)
  el_msgids : list (string * string);
  (* INTERFACE ORACLE: event name -> (get_event_signature(name, False), get_event_signature(name, True)) as the Language* classes print them *)
  el_evsigs : list (string * (string * string)) }.

Fixpoint add_missing (l extra : list string) : list string :=
  match extra with
  | [] => l
  | x :: r => add_missing (if TTable.mem x l then l else l ++ [x]) r
  end.

(* of a transition table and an events interface: first-appearance order; the interface's structs that are not events
   of the table follow the table's events *)
(* the name tags a transition defines (keyed by the full tag): its action, its guard, and -- when it has a target -- its own
   state under the tag STATENAMEIFNEXTSTATE and its target; an absent action / guard / target defines nothing *)
Definition tagstr (n : string) : string := ("<<<" ++ n ++ ">>>")%string.
Definition trans_table (r : row) : list (string * string) :=
  (if is_none (r_act r) then []
   else [(tagstr "ACTIONNAME", r_act r); (tagstr "actionName", camel (r_act r)); (tagstr "ACTION_NAME", snake (r_act r))])
  ++ (if is_none (r_guard r) then []
      else [(tagstr "GUARDNAME", r_guard r); (tagstr "GUARD_NAME", snake (r_guard r)); (tagstr "guardName", camel (r_guard r))])
  ++ (if is_none (r_next r) then []
      else [(tagstr "STATENAMEIFNEXTSTATE", r_src r); (tagstr "stateNameIfNextState", camel (r_src r));
            (tagstr "STATE_NAME_IF_NEXT_STATE", snake (r_src r));
            (tagstr "NEXTSTATENAME", r_next r); (tagstr "nextStateName", camel (r_next r)); (tagstr "NEXT_STATE_NAME", snake (r_next r))]).

Definition tps_of (t : table) : list (string * list (string * list (list (string * string)))) :=
  map (fun s => (s, map (fun ev => (ev, map trans_table (TTable.trans_of t s ev))) (TTable.events_of t s))) (TTable.tps_states t).

Definition elements_of (t : table) (structs protos msgs : list string) : elements :=
  {| el_states := TTable.states t; el_events := add_missing (TTable.events t) structs;
     el_actions := TTable.actions t; el_guards := TTable.guards t; el_sigs := TTable.actionsignatures t;
     el_structs := structs; el_protos := protos; el_msgs := msgs; el_tps := tps_of t; el_first := TTable.getfirststate t;
     el_rows := map (fun r => [r_src r; r_ev r; r_next r; r_act r; r_guard r]) t; el_user := []; el_msgids := []; el_evsigs := [] |}.

Definition items_of (e : elements) (k : ekind) : list string :=
  match k with
  | KState => el_states e | KEvent => el_events e | KAction => el_actions e | KGuard => el_guards e
  | KStruct => el_structs e | KProto => el_protos e | KMsg => el_msgs e
  end.
Definition table_of_kind (k : ekind) : string -> nat -> list (string * string) :=
  match k with KStruct | KProto | KMsg => proto_table | _ => elem_table end.

(* ---------------------------------------------------------------- nested transition blocks *)
(* a per-message block with ids: the message's names, counters, and <<<MSGID>>> = its id as the interface prints it *)
Definition msg_table (ids : list (string * string)) (name : string) (i : nat) : list (string * string) :=
  proto_table name i ++ [("MSGID", EngineSM.idof ids name)].

(* a per-event block with the event's signature: a line mentions at most one of the two signature tags; the tag becomes the signature the
   interface prints for the event (with or without defaults), and the parenthesised groups of such a line are cleaned of the ", " an empty
   signature leaves (EngineSM.paren_clean: re.sub over "(...)" groups) *)
Definition sig_kind (l : uline) : option bool :=
  if mentions "SIGNATUREWITHDEFAULTS" l then Some true else if mentions "SIGNATURE" l then Some false else None.
Definition sig_key (d : bool) : string := if d then "SIGNATUREWITHDEFAULTS" else "SIGNATURE".
Definition ref_ev_line (sigs : list (string * (string * string))) (name : string) (i : nat) (l : uline) : string :=
  match sig_kind l with
  | None => render_line (map (subst16 (elem_table name i)) l)
  | Some d => EngineSM.paren_clean (render_line (map (subst16 (elem_table name i ++ [(sig_key d, EngineSM.sigof sigs name d)])) l))
  end.
Definition ref_ev_block (sigs : list (string * (string * string))) (items : list string) (body : list uline) : list string :=
  flat_map (fun ix => map (ref_ev_line sigs (snd ix) (fst ix)) body) (enumerate_from 0 items).

(* filterInitialState: the two spellings of the initial state's name *)
Definition init_table (first : string) : list (string * string) := [("STATE_0", first); ("state_0", camel first)].
Definition state_table (s : string) : list (string * string) := family "STATENAME" "stateName" "STATE_NAME" s.
Definition event_table (ev : string) : list (string * string) := family "EVENTNAME" "eventName" "EVENT_NAME" ev.

(* a tag (with or without alternative text) that the table defines becomes the name *)
Definition subst_any (tb : list (string * string)) (g : seg) : seg :=
  match g with
  | Tag n _ => match lookup String.eqb (tagstr n) tb with Some v => Lit v | None => g end
  | _ => g
  end.

Definition is_tagseg (g : seg) : bool := match g with Tag _ _ => true | Lit _ => false end.
Fixpoint count_lead_ws (s : string) : nat :=
  match s with String c r => if is_ws c then S (count_lead_ws r) else 0 | EmptyString => 0 end.
Fixpoint spaces (n : nat) : string := match n with O => EmptyString | S k => String SP (spaces k) end.

(* one line of a per-transition block for one transition: the line with the names filled in; if it mentions a name the
   transition lacks, the alternative text given in the tag (at the line's indentation), or nothing *)
Definition ref_gline (ev : string) (tr : list (string * string)) (l : uline) : list string :=
  let l2 := map (subst_any tr) (map (subst16 (event_table ev)) l) in
  match List.find is_tagseg l2 with
  | None => [render_line l2]
  | Some (Tag _ (Some (String c x))) => [(spaces (count_lead_ws (render_line l2)) ++ String c x ++ nl_str)%string]
  | Some _ => []
  end.

Definition ref_eitem (ev : string) (trs : list (list (string * string))) (x : eitem) : list string :=
  match x with
  | ELine l => [render_line (map (subst16 (event_table ev)) l)]
  | EGuard _ _ body => flat_map (fun tr => flat_map (ref_gline ev tr) body) trs
  end.

Definition ref_titem (s : string) (evs : list (string * list (list (string * string)))) (x : titem) : list string :=
  match x with
  | TLine l => [render_line (map (subst16 (state_table s)) l)]
  | TEvent _ _ body => flat_map (fun et => flat_map (ref_eitem (fst et) (snd et)) body) evs
  end.

Definition ref_trans (tps : list (string * list (string * list (list (string * string))))) (body : list titem) : list string :=
  flat_map (fun se => flat_map (ref_titem (fst se) (snd se)) body) tps.

Definition ref_item16 (e : elements) (it : item16) : list string :=
  match it with
  | Text l => [(l ++ nl_str)%string]
  | Raw s => [s]
  | Block k _ _ body => ref_block (table_of_kind k) (items_of e k) body
  | SigBlock _ _ body => ref_block sig_table (el_sigs e) body
  | TransBlock _ _ body => ref_trans (el_tps e) body
  | EvBlock _ _ body => ref_ev_block (el_evsigs e) (el_events e) body
  | MsgBlock _ _ _ body => ref_block (msg_table (el_msgids e)) (el_msgs e) body
  | InitLine l => [render_line (map (subst16 (init_table (el_first e))) l)]
  | UserLine l => [ref_line (el_user e) l]
  | TableLine pre ee => EngineSM.sml_print (el_states e) (el_rows e) ee pre     (* smgen.innerexpand_sml; its text: Model/SmlRender.v, C09_engine_text *)
  end.

(* the generated file: TAB normalised to four spaces *)
(* after expand_secondfiltering, before the user-tag phase: user lines are still as they stand *)
Definition mid_item16 (e : elements) (it : item16) : list string :=
  match it with UserLine l => [render_line l] | _ => ref_item16 e it end.

Definition with_evsigs (sigs : list (string * (string * string))) (e : elements) : elements :=
  {| el_states := el_states e; el_events := el_events e; el_actions := el_actions e; el_guards := el_guards e; el_sigs := el_sigs e;
     el_structs := el_structs e; el_protos := el_protos e; el_msgs := el_msgs e; el_tps := el_tps e; el_first := el_first e;
     el_rows := el_rows e; el_user := el_user e; el_msgids := el_msgids e; el_evsigs := sigs |}.

Definition with_user (a : list (string * string)) (e : elements) : elements :=
  {| el_states := el_states e; el_events := el_events e; el_actions := el_actions e; el_guards := el_guards e; el_sigs := el_sigs e;
     el_structs := el_structs e; el_protos := el_protos e; el_msgs := el_msgs e; el_tps := el_tps e; el_first := el_first e;
     el_rows := el_rows e; el_user := a; el_msgids := el_msgids e; el_evsigs := el_evsigs e |}.

Definition ref16 (e : elements) (t : template16) : string :=
  concat_lines (map tab4 (flat_map (ref_item16 e) t)).
