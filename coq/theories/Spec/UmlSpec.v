(* Specification side of C19 (files and namespaces): what the property's first sentence asks for, written without the
   template machinery of the generator.  No proofs here. *)
From Coq Require Import String Ascii List Bool Arith.
From KV Require Import Lib.Str Model.Vpp Model.Uml.
Import ListNotations.
Open Scope string_scope.

(* a class that is not an interface, a struct or an enumeration *)
Definition concrete (c : cls) : bool := negb (c_enum c) && negb (c_struct c) && negb (c_pure c).

(* one header per element, one source per concrete class; nothing for an element stereotyped both enum and struct, and
   nothing for a class or interface stereotyped as generated elsewhere (autogen) *)
Definition spec_exts (c : cls) : list string :=
  if c_enum c && c_struct c then []
  else if c_enum c || c_struct c then [".h"]
  else if c_autogen c then []
  else if c_pure c then [".h"] else [".h"; ".cpp"].

(* the folder chain of a package namespace: A::B::C -> A/B/C *)
Definition folder_chain (ns : string) : string := join "/" (split2 ":" ":" ns).

Definition spec_folder (nsf : bool) (ns : string) : string :=
  if nsf && negb (String.eqb (folder_chain ns) "") then folder_chain ns ++ "/" else "".

Definition spec_files (nsf : bool) (c : cls) : list string :=
  map (fun e => spec_folder nsf (c_ns c) ++ c_name c ++ e) (spec_exts c).

(* name hypothesis: class names are non-empty and hold neither '.' nor '/'; the namespace does not end in a separator *)
Definition last_is_slash (s : string) : bool := String.eqb (substring (String.length s - 1) 1 s) "/".
Definition path_ok (c : cls) : bool := name_ok c && negb (last_is_slash (folder_chain (c_ns c))).

Fixpoint nodupb (l : list string) : bool :=
  match l with [] => true | x :: r => negb (existsb (String.eqb x) r) && nodupb r end.

(* no two generated elements are asked to go to the same file (fails e.g. for two classes of one name in different
   packages when namespace folders are off: K-C19-5) *)
Definition distinct_paths (nsf : bool) (d : cdiagram) : bool := nodupb (flat_map (spec_files nsf) (classes d)).

Definition files_hyp (nsf : bool) (d : cdiagram) : bool := forallb path_ok (classes d) && distinct_paths nsf d.

Definition expected_files (nsf : bool) (d : cdiagram) : list (string * string) :=
  flat_map (fun c => map (fun f => (f, c_id c)) (spec_files nsf c)) (classes d).

(* a properly nested namespace chain around a body, with the generator's spacing *)
Fixpoint wrap (comps : list string) (body : string) : string :=
  match comps with
  | [] => body
  | n :: r => " namespace " ++ n ++ " { " ++ wrap r body ++ " } "
  end.

(* ---------------------------------------------------------------- the C# back end *)

(* one .cs file per element: a class, an interface (abstract classes and classes stereotyped Interface), an enumeration, a
   struct; nothing for an element stereotyped both enum and struct, nothing for a class or interface generated elsewhere *)
Definition spec_exts_cs (c : cls) : list string :=
  if c_enum c && c_struct c then []
  else if c_enum c || c_struct c then [".cs"]
  else if c_autogen c then [] else [".cs"].

Definition spec_files_cs (nsf : bool) (c : cls) : list string :=
  map (fun e => spec_folder nsf (c_ns c) ++ c_name c ++ e) (spec_exts_cs c).

(* each namespace once, in order of first occurrence *)
Fixpoint dedup (l : list string) : list string :=
  match l with [] => [] | x :: r => x :: filter (fun y => negb (String.eqb x y)) (dedup r) end.

(* the project files: one per namespace, in its folder, named after the FULLY QUALIFIED namespace (A/B/A::B.csproj) when
   namespace folders are requested; else one named after the diagram *)
Definition spec_projects (nsf : bool) (dname : string) (d : cdiagram) : list string :=
  if nsf then map (fun ns => spec_folder true ns ++ ns ++ ".csproj") (dedup (map c_ns (classes d)))
  else [(if String.eqb dname "" then "Project" else dname) ++ ".csproj"].

Definition expected_files_cs (nsf : bool) (dname : string) (d : cdiagram) : list (string * string) :=
  (flat_map (fun c => map (fun f => (f, c_id c)) (spec_files_cs nsf c)) (classes d)
   ++ map (fun f => (f, "")) (spec_projects nsf dname d))%list.

(* a namespace (or diagram name) that names a project file: it does not start with a separator *)
Definition proj_ok (nsf : bool) (ns : string) : bool :=
  negb (prefixb "/" ns) && (negb nsf || negb (last_is_slash (folder_chain ns))).

Definition files_hyp_cs (nsf : bool) (dname : string) (d : cdiagram) : bool :=
  forallb path_ok (classes d)
  && forallb (proj_ok nsf) (if nsf then dedup (map c_ns (classes d)) else [if String.eqb dname "" then "Project" else dname])
  && nodupb (flat_map (spec_files_cs nsf) (classes d) ++ spec_projects nsf dname d).
