(* The independent interpreter of a transition table (the oracle of C08 / C10): it reads the table, never the
   generated code.  For the current state and a triggered event it takes the rows of that state for that event in
   table order, evaluates the guard of each in turn (a guard evaluation is an observable callback) and fires the
   first row whose guard is absent or true: exit callback, action, entry callback and state change when the row has
   a target; the action alone when it has none.  When no row fires nothing changes and the no-transition hook is
   called.  Guards are answered by an oracle indexed by the number of guard calls made so far (so a guard may
   change its answer between calls). *)
From Coq Require Import String List Bool Arith.
From KV Require Import Lib.TableDef.
Import ListNotations.
Open Scope string_scope.

Inductive cb :=
| CGuard (g e : string)      (* guard g asked about event e *)
| CExit (s e : string)       (* On<s>Exit *)
| CAction (a e : string)
| CEntry (s e : string)      (* On<s>Entry *)
| CNoTrans (e : string).

Definition gval := nat -> string -> bool.

Definition act_cbs (r : row) (e : string) : list cb :=
  match opt (r_act r) with Some a => [CAction a e] | None => [] end.

(* callbacks and new state of firing row r in state cur *)
Definition fire (r : row) (cur e : string) : list cb * string :=
  match opt (r_next r) with
  | Some n => (CExit (r_src r) e :: act_cbs r e ++ [CEntry n e], n)
  | None => (act_cbs r e, cur)
  end.

(* one event: callbacks, state afterwards, number of guard calls afterwards *)
Fixpoint step_rows (gv : gval) (n : nat) (cur e : string) (rows : list row) : list cb * string * nat :=
  match rows with
  | [] => ([CNoTrans e], cur, n)
  | r :: rest =>
      match opt (r_guard r) with
      | None => (fire r cur e, n)
      | Some g =>
          if gv n g then (CGuard g e :: fst (fire r cur e), snd (fire r cur e), S n)
          else let '(t, s, n') := step_rows gv (S n) cur e rest in (CGuard g e :: t, s, n')
      end
  end.

Fixpoint interp_from (t : table) (gv : gval) (n : nat) (cur : string) (evs : list string) : list (list cb * string) :=
  match evs with
  | [] => []
  | e :: r =>
      let '(tr, s, n') := step_rows gv n cur e (rows_for t cur e) in
      (tr, s) :: interp_from t gv n' s r
  end.

Definition startup_event : string := "EventStartup".
Definition first_state (t : table) : string := match t with [] => "" | r :: _ => r_src r end.

(* per step (the first entry is the construction of the machine): the callbacks made, and the state afterwards
   (which determines every Is<State>() answer) *)
Definition table_interp (t : table) (evs : list string) (gv : gval) : list (list cb * string) :=
  ([CEntry (first_state t) startup_event], first_state t) :: interp_from t gv 0 (first_state t) evs.

(* The C# machine has no no-transition hook: when no row fires (or the pair is not listed) nothing happens. *)
Fixpoint step_rows_quiet (gv : gval) (n : nat) (cur e : string) (rows : list row) : list cb * string * nat :=
  match rows with
  | [] => ([], cur, n)
  | r :: rest =>
      match opt (r_guard r) with
      | None => (fire r cur e, n)
      | Some g =>
          if gv n g then (CGuard g e :: fst (fire r cur e), snd (fire r cur e), S n)
          else let '(t, s, n') := step_rows_quiet gv (S n) cur e rest in (CGuard g e :: t, s, n')
      end
  end.

Fixpoint interp_from_quiet (t : table) (gv : gval) (n : nat) (cur : string) (evs : list string) : list (list cb * string) :=
  match evs with
  | [] => []
  | e :: r =>
      let '(tr, s, n') := step_rows_quiet gv n cur e (rows_for t cur e) in
      (tr, s) :: interp_from_quiet t gv n' s r
  end.

(* the interpreter for machines without a no-transition hook (C#, boost::sml) *)
Definition table_interp_quiet (t : table) (evs : list string) (gv : gval) : list (list cb * string) :=
  ([CEntry (first_state t) startup_event], first_state t) :: interp_from_quiet t gv 0 (first_state t) evs.
