(* C12 -- the specification, read directly off the interface definition (no generated program involved):
   a padding-free struct has its members back to back in declaration order, so
     offset of member k = sum of the sizes of members 0..k-1,   sizeof = sum of all member sizes,   alignof = 1;
   the default value of a member is its declared literal (zero where none is declared), through any depth;
   the header is preamble (uint16), type id (uint16), payload size (uint32), little endian. *)
From Coq Require Import String Ascii List Bool NArith ZArith.
From KV Require Import Model.CValue Model.Layout Model.ProtoLang.
Import ListNotations.

(* bytes of a member that holds its declared default *)
Fixpoint default_bytes (m : member) : list ascii :=
  match m with
  | MPrim _ p (Some d) => if String.eqb d "" then zeros (prim_size p) else lit_bytes p d
  | MPrim _ p None => zeros (prim_size p)
  | MStruct _ _ ms => concat (map default_bytes ms)
  end.

Definition hdr_size : N := 8.

Definition hdr_bytes (preamble id payload : Z) : list ascii :=
  le_bytes 2 (Z.to_N preamble) ++ le_bytes 2 (Z.to_N id) ++ le_bytes 4 (Z.to_N payload).

(* members back to back starting at off *)
Fixpoint packed_fields (off : N) (l : list (string * string * N)) : list finfo :=
  match l with
  | [] => []
  | (n, ty, sz) :: r => {| fi_name := n; fi_ty := ty; fi_off := off; fi_size := sz |} :: packed_fields (off + sz) r
  end.

Definition packed_info (l : list (string * string * N)) : sinfo :=
  {| si_size := fold_right N.add 0%N (map snd l); si_align := 1; si_fields := packed_fields 0 l |}.

Definition member_triple (m : member) : string * string * N := (mem_name m, mem_ty m, m_size m).

(* what C12 demands of sizeof/alignof/offsetof for a struct and for a message *)
Definition struct_spec (s : strct) : sinfo := packed_info (map member_triple (s_members s)).
Definition msg_spec (m : msg) : sinfo :=
  packed_info ((hdr_member, hdr_name, hdr_size) :: map member_triple (m_members m)).
Definition hdr_spec : sinfo :=
  packed_info (map (fun f => (fst f, prim_name (snd f), prim_size (snd f))) hdr_fields).

(* the message a factory must return when called with the first k arguments given (as object bytes) *)
Definition msg_value (i : iface) (m : msg) (args : list (list ascii)) : list ascii :=
  hdr_bytes (i_preamble i) (m_id m) (Z.of_N (ms_size (m_members m)))
  ++ concat args ++ concat (map default_bytes (skipn (length args) (m_members m))).

Definition struct_value (s : strct) (args : list (list ascii)) : list ascii :=
  concat args ++ concat (map default_bytes (skipn (length args) (s_members s))).

(* the bytes of member number k of an object laid out by info *)
Definition field_bytes (info : sinfo) (k : nat) (obj : list ascii) : list ascii :=
  match nth_error (si_fields info) k with
  | Some f => firstn (N.to_nat (fi_size f)) (skipn (N.to_nat (fi_off f)) obj)
  | None => []
  end.
