(* Extraction of the output-stage model (C05). Merged with the other Extract files into one run by harness/check.py. *)
From Coq Require Import Extraction ExtrOcamlBasic ExtrOcamlNativeString.
From KV Require Import Lib.Str Model.Preserve Model.Output.
Separate Extraction Output.createoutput_ops Output.op_render Output.crash_kill Output.crash_exn Output.run Output.jobs_okb
  Output.createoutput_jobs Output.is_tmp Output.fs_get Output.filesync_ops Output.filesync_jobs.
