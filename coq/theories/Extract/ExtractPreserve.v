(* Extraction of the preservation models to OCaml (build/kmodel). Every Extract/*.v file is run in build/extract.
   Directives used: ExtrOcamlBasic (bool, option, unit, list, prod, sumbool, sumor; andb/orb inlined) and
   ExtrOcamlNativeString (ascii => char, string => string).  Numbers stay the extracted inductives. *)
From Coq Require Import Extraction ExtrOcamlBasic ExtrOcamlNativeString.
From KV Require Import Lib.Str Lib.ODict Model.PreserveCore Model.Preserve.

Extraction Blacklist String List Bool.

Separate Extraction
  Str.tab4 Str.split_lines Str.concat_lines Str.clean_with
  Preserve.kof Preserve.is_tag Preserve.collect Preserve.emplace Preserve.preserve1 Preserve.regen1
  Preserve.regen Preserve.file_sync Preserve.wf_fresh_file Preserve.read_lines Preserve.join
  Preserve.parse_items Preserve.wfb Preserve.utf8_valid Preserve.regen_dir.
