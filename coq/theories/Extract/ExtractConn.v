(* Extraction of the connection-layer model (C14, C13) to OCaml (build/kmodel).
   Directives used: ExtrOcamlBasic and ExtrOcamlNativeString only; N / nat / Z stay the extracted inductives. *)
From Coq Require Import Extraction ExtrOcamlBasic ExtrOcamlNativeString.
From KV Require Import Lib.Str Lib.ByteSeq Model.Conn Model.ConnArm Model.Proto Spec.StreamParse.

Extraction Blacklist String List Bool.

Separate Extraction
  ByteSeq.len ByteSeq.preamble_bytes ByteSeq.size_of_header ByteSeq.payload_size ByteSeq.type_id
  Conn.init Conn.on_data Conn.feed Conn.feed_raw Conn.fuel_for Conn.find_preamble
  Conn.chunk_ok Conn.filler_ok Conn.wf_msg Conn.wf_item Conn.stream_of
  ConnArm.feed_arm ConnArm.ainit ConnArm.eff_largest ConnArm.msg_fits ConnArm.chunk_fits ConnArm.cap
  StreamParse.stream_parse
  Proto.dispatch Proto.transmit Proto.round_trip Proto.sent_bytes Proto.iface_ok Proto.int8_ok Proto.attempts Proto.first_accept.
