(* Extraction of the C11 LTS (Model/PyThreads.v running Gen/PySync.v).  harness/check.py merges all Extract/*.v into one
   run; directives: ExtrOcamlBasic + ExtrOcamlNativeString only; numbers stay the extracted inductives. *)
From Coq Require Import Extraction ExtrOcamlBasic ExtrOcamlNativeString.
From KV Require Import Model.PySyncIR Model.PyThreads Model.PyMachine.

Extraction Blacklist String List Bool.

Separate Extraction
  PyMachine.trace_model PyMachine.enabled_model PyThreads.all_finished PyThreads.wf_config PyThreads.init_state
  PyThreads.ev_id PyThreads.finished.
