(* Extraction of the template-engine model and of the reference expander (C16, C17). Same directives as ExtractPreserve.v. *)
From Coq Require Import Extraction ExtrOcamlBasic ExtrOcamlNativeString.
From KV Require Import Lib.Str Lib.StrOps Lib.ODict Model.Engine Model.EngineSM Model.EngineDomain Model.EngineDomain16 Model.EngineDomain07 Model.Parse16 Model.PyRender Model.CsRender Model.SmlRender Model.ProtoRender Spec.RefExpand Spec.RefExpand16.

Extraction Blacklist String List Bool.

Separate Extraction
  StrOps.replace_all StrOps.strip StrOps.dec StrOps.undec StrOps.split_on
  Engine.hasTag Engine.findall Engine.hasSpecificTag Engine.hasDefault Engine.extractDefaultAndTag Engine.removeDefault
  Engine.replaceDefault Engine.cleanTag Engine.getWhitespace Engine.replaceUserTags
  Engine.single_expand Engine.pair_expand Engine.get_next_alphabet Engine.camel_case_small Engine.snake_case Engine.caps
  Engine.filter_multiple_newlines Engine.innerexpand_for_loop Engine.do_for_lines Engine.for_header_subst
  Engine.do_user_tags Engine.process_line
  EngineSM.tt_model EngineSM.generate EngineSM.second_filter
  RefExpand.render RefExpand.ref17 RefExpand.ref_lines EngineDomain.in_grammar17 EngineDomain.wf_assign17 EngineDomain.item_ok EngineDomain.item_wf
  RefExpand16.render16 EngineDomain16.ref16_rows EngineDomain16.wf16_rows EngineDomain16.in_grammar16 Parse16.names_ok_shipped Parse16.names_ok_shipped_cs Parse16.shipped_ref Parse16.shipped_wf Parse16.names_ok_shipped_x
  PyRender.py_proc_ref PyRender.py_proc_reads PyRender.py_proc_ok PyRender.py_proc_lines PyRender.py_init_ref PyRender.py_file_ref PyRender.py_file_wf EngineSM.paren_clean
  EngineSM.sml_print SmlRender.sml_text
  ProtoRender.rx_ref ProtoRender.tx_ref ProtoRender.rx_wf ProtoRender.tx_wf
  CsRender.cs_block_ref CsRender.cs_block_ok CsRender.cs_block_lines CsRender.cs_file_ref CsRender.cs_file_wf.
