From Coq Require Import Extraction ExtrOcamlBasic ExtrOcamlNativeString.
From KV Require Import Lib.Str Model.Preserve Model.TagShape.
Separate Extraction TagShape.represervable TagShape.tags_of TagShape.user_tags_ok TagShape.no_generator_tag.
