(* Extraction of the class-diagram input adaptor model (build/kmodel). *)
From Coq Require Import Extraction ExtrOcamlBasic ExtrOcamlNativeString.
From KV Require Import Lib.Str Lib.ODict Model.Vpp Model.Uml Model.UmlBlob Model.UmlWriter.

Extraction Blacklist String List Bool.

Separate Extraction
  UmlBlob.parse_blob UmlBlob.load_cdiagram UmlBlob.to_cdiagram UmlBlob.adaptor UmlBlob.type_and_name UmlBlob.default_format
  UmlBlob.container_type UmlBlob.clean_modifiers UmlBlob.dec UmlBlob.type_and_name_cs UmlBlob.to_cdiagram_cs UmlBlob.adaptor_cs
  UmlWriter.print_node UmlWriter.encode_cdiagram.
