(* Extraction of the C15 dispatcher LTS (Model/CxxQueue.v).  harness/check.py merges all Extract/*.v into one run. *)
From Coq Require Import Extraction ExtrOcamlBasic ExtrOcamlNativeString.
From KV Require Import Model.CxxSyncIR Model.CxxQueue Model.CxxLifetime.

Extraction Blacklist String List Bool.

Separate Extraction
  CxxQueue.run_trace CxxQueue.enabled_tids CxxQueue.init CxxQueue.step CxxQueue.all_done
  CxxLifetime.lstep CxxLifetime.linit CxxLifetime.lenabled.
