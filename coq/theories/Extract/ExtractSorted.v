From Coq Require Import Extraction ExtrOcamlBasic ExtrOcamlNativeString.
From KV Require Import Proofs.SortedSet.
Separate Extraction SortedSet.py_sorted.
