(* Extraction of the C12 models (layout / protocol language / spec) to OCaml (build/kmodel).
   Directives: ExtrOcamlBasic + ExtrOcamlNativeString only; numbers stay the extracted inductives. *)
From Coq Require Import Extraction ExtrOcamlBasic ExtrOcamlNativeString.
From KV Require Import Model.CValue Model.Layout Model.ProtoLang Spec.LayoutSpec.

Extraction Blacklist String List Bool.

Separate Extraction
  CValue.prim_of_name CValue.prim_name CValue.parse_lit CValue.conv CValue.lit_ok CValue.lit_bytes CValue.prim_size
  Layout.call Layout.layout_of Layout.build_env Layout.agg_init
  ProtoLang.emit ProtoLang.wf_iface ProtoLang.render_init ProtoLang.dec_of_Z ProtoLang.m_size
  LayoutSpec.default_bytes LayoutSpec.hdr_bytes LayoutSpec.struct_spec LayoutSpec.msg_spec LayoutSpec.hdr_spec
  LayoutSpec.msg_value LayoutSpec.struct_value LayoutSpec.field_bytes.
