(* Extraction of the UML class generator model (build/kmodel). *)
From Coq Require Import Extraction ExtrOcamlBasic ExtrOcamlNativeString.
From KV Require Import Lib.Str Lib.ODict Model.Vpp Model.Uml Spec.UmlSpec.

Extraction Blacklist String List Bool.

Separate Extraction
  Uml.files_of Uml.class_files Uml.kind_of Uml.ns_begin Uml.ns_end Uml.ops_of Uml.decls_of Uml.defs_of
  Uml.decl_line Uml.def_head Uml.signature Uml.wf_vis Uml.name_ok Uml.replace_all Uml.split2 Uml.lower
  Uml.acyclic Uml.closed UmlSpec.files_hyp UmlSpec.distinct_paths UmlSpec.path_ok UmlSpec.expected_files
  UmlSrc.template_files UmlSrc.template_files_cs.
