(* Extraction of the UML class generator model (build/kmodel). *)
From Coq Require Import Extraction ExtrOcamlBasic ExtrOcamlNativeString.
From KV Require Import Lib.Str Lib.ODict Model.Vpp Model.Uml Model.UmlCs Model.UmlIncl Spec.UmlSpec.

Extraction Blacklist String List Bool.

Separate Extraction
  Uml.files_of Uml.class_files Uml.kind_of Uml.ns_begin Uml.ns_end Uml.ops_of Uml.decls_of Uml.defs_of
  Uml.decl_line Uml.def_head Uml.signature Uml.wf_vis Uml.name_ok Uml.replace_all Uml.split2 Uml.lower
  Uml.acyclic Uml.closed UmlSpec.files_hyp UmlSpec.distinct_paths UmlSpec.path_ok UmlSpec.expected_files
  UmlSrc.template_files UmlSrc.template_files_cs
  Uml.once_hyp Uml.visited UmlCs.ops_of_cs UmlCs.members_cs UmlCs.all_cs UmlCs.cs_line UmlCs.cs_has_body UmlCs.files_all UmlCs.cs_view UmlCs.cs_cls
  UmlSpec.files_hyp_cs UmlSpec.expected_files_cs
  UmlIncl.nfd UmlIncl.fd UmlIncl.header_includes UmlIncl.source_includes UmlIncl.forward_decls UmlIncl.namespace_deps UmlIncl.requires_vector UmlIncl.adaptor_incl UmlIncl.incl_names_ok.
