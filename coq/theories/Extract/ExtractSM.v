(* Extraction of the state-machine models (transition-table model, table interpreter, generated-program models). *)
From Coq Require Import Extraction ExtrOcamlBasic ExtrOcamlNativeString.
From KV Require Import Lib.TableDef Model.TTable Spec.TableInterp Model.PyShape Gen.PyTmpl Model.PySM Gen.SmlTmpl Model.SmlTT Model.CsShape Gen.CsTmpl Model.CsSM Model.CsThreads Model.DeclShape Gen.DeclTmpl Model.Decls.

Extraction Blacklist String List Bool.

Separate Extraction
  TableDef.is_none TableDef.rows_for
  TTable.states TTable.events TTable.actions TTable.guards TTable.actionsignatures TTable.tps_states TTable.events_of
  TTable.trans_of TTable.getfirststate TTable.wf_table
  TableInterp.table_interp
  PySM.gen_py PySM.parse_indent PySM.run_py PySM.code_lines
  SmlTT.gen_sml SmlTT.sml_run SmlTT.camel_steps
  CsSM.cs_handler CsSM.cs_classes CsSM.cs_handlers CsSM.parse_braces TableInterp.step_rows_quiet TableInterp.table_interp_quiet CsSM.run_cs CsThreads.trun CsThreads.tinit
  Decls.decls_file Decls.refs_cpp Decls.refs_cs.
