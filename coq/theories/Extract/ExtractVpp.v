(* Extraction of the Visual Paradigm reader model, the assumed writer and the C20 specification (build/kmodel). *)
From Coq Require Import Extraction ExtrOcamlBasic ExtrOcamlNativeString.
From KV Require Import Lib.Str Lib.ODict Model.Vpp Model.VppWriter Spec.VppSpec.

Extraction Blacklist String List Bool.

Separate Extraction
  Vpp.py_str_bytes Vpp.split_on Vpp.rm_pat Vpp.mass_replace Vpp.last_colon Vpp.py_strip
  Vpp.parse_transition Vpp.parse_guard Vpp.extract
  VppWriter.encode_diagram VppWriter.hosts VppWriter.wf_diagram VppWriter.wf_trans VppWriter.wf_guard
  VppSpec.expected_rows.
