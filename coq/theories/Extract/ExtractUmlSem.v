(* Extraction of the semantic class diagram: its domain predicate, its writer and the read-back specification (build/kmodel). *)
From Coq Require Import Extraction ExtrOcamlBasic ExtrOcamlNativeString.
From KV Require Import Lib.Str Lib.ODict Model.Vpp Model.Uml Model.UmlBlob Model.UmlWriter Model.UmlSem.

Extraction Blacklist String List Bool.

Separate Extraction
  UmlSem.sdiagram_ok UmlSem.encode_project UmlSem.rdiagram_of UmlSem.cdiagram_of UmlSem.tree_of.
