(* C07 -- Outputs stay re-preservable: tags fully expanded, USER tags paired and unique.
   FOR ALL MODELS (end of this file):
   * C07_wf_out_Test_TEMPLATEStateMachine_cpp: for the shipped file Test.TEMPLATEStateMachine.cpp, EVERY state-machine model
     whose element names satisfy the syntactic names_ok (non-empty, letters and digits only, not a '_'-piece of a fixed USER
     tag name of the file, pairwise distinct per list, signature events reading as themselves) and EVERY assignment of user
     tags: what smgen.Generate writes is createoutput of lines that carry no generator tag and are a well-formed fresh file
     (Preserve.wf_fresh_file: USER tag lines in adjacent pairs, cleaned names equal, unique, stable under the TAB filter,
     chunk shapes, no CR) -- both halves of the property, no per-output boolean.  C07_fixed_point_shipped instantiates C01.
   * C07_fresh_of_template: the same for ANY template of the block grammar with the computed conditions in_grammar07, given
     distinct cleaned tag names (keys07), C07_names_wf16: admissible names discharge the per-instance conditions of C16.
   * C07_wf_out_Test_TEMPLATEStateMachine_cs / C07_fixed_point_shipped_cs: the same for the shipped Test.TEMPLATEStateMachine.cs (one more syntactic
     name condition: no guard named like a state hook; the user-tag line's output judged per assignment).
   * C07_wf_out_TEMPLATEStateMachine_py / _h, C07_fixed_point_shipped_py / _h: the same for the whole shipped files TEMPLATEStateMachine.py and
     TEMPLATEStateMachine.h (transition blocks, per-event signature blocks with the signature oracle, initial-state lines, the transition-table
     line).  All their USER tags are fixed text, so the cleaned names are distinct for every element record (C07_keys_unique_TEMPLATEStateMachine_py / _h);
     names_ok_py / names_ok_h (= names_ok_x, syntactic): every name a non-empty alphanumeric word; the initial state, the names and values of the
     per-state transition lists, the cells of the table rows and the oracle's signature strings the file asks for (both files: without defaults) free
     of '{', backslash and CR.  C07_dyn_plain_of_names:
     then the output chunks of those four kinds of items are plain chunks (through the reference expansion, paren_clean and the sml table printer).
   * C07_tags_consumed_shipped(_user): the generator-tag half for every shipped file inside the block grammar (C07_shipped_files_in_grammar)
     (TEMPLATEReceiver.h and TEMPLATETransmitter.h carry no USER tag; their lines contain '{' next to name tags, which the
     simple "no brace on a line with a name tag" criterion of in_grammar07 does not admit: wf_fresh_file is not proved for them).
   Fixed first-filter dictionary dict0 (project name X, namespace NS): not generalised to all project names.
   The other shipped files use signature / member / table / nested-transition tags that Model/EngineSM.v does not model.
   PARTIAL (the rest): the statement "for EVERY valid model the shipped generators' output is represervable" would need the complete
   template engine as a Coq function (name/case/counter tags are modelled in Model/EngineSM.v; signature, member, documentation
   and UML tags are not).  What is proved: (1) finite, source-derived obligations over every shipped template, re-checked against
   /repo on every run; (2) the algebra that turns them into uniqueness of expanded names; (3) what well-formedness buys.
   What ties the rest: the extracted [represervable] / [wf_fresh_file] are evaluated on every file of every real generation of
   the C01-C07 runs (any false is a violation or a recorded finding). *)
From Coq Require Import String Ascii List Bool.
From KV Require Import Lib.Str Lib.ODict Model.PreserveCore Model.Preserve Model.TagShape
                       Gen.Tags Gen.Templates Gen.Vocab Proofs.PreserveStr Proofs.TagShapeProofs
                       Model.Engine Model.EngineSM Model.EngineDomain Model.EngineDomain16 Model.Parse16 Spec.RefExpand Spec.RefExpand16
                       Model.EngineDomain07 Proofs.Shipped16 Proofs.Shipped07 Proofs.Shipped07Cpp Proofs.Shipped07Cs Proofs.Dyn07 Proofs.Shipped07X Proofs.PreserveTop.
Import ListNotations.
Open Scope string_scope.

(* (1a) every <<<...>>> tag of every line of every shipped template is well bracketed and is either in the vocabulary of the
   generator that loads the template (the literals of cgen/smgen resp. umlgen/LanguageCPP/LanguageCsharp) or carries an inline
   default (then the user-tag pass consumes it): no tag can survive for lack of a stage that knows it *)
Theorem C07_template_tags_known : forall set file l,
  In set all_templates -> In file (snd set) -> In l (snd file) ->
  exists ts, tags_of l = Some ts /\
             forall t, In t ts -> mem_str (head_of t) (vocab_of (fst set)) = true \/ has_default t = true.
Proof. exact templates_tags_known_spec. Qed.
Print Assumptions C07_template_tags_known.

(* (1b) in every shipped template the USER tag lines form adjacent open/close pairs with identical cleaned names, and the
   names (fixed ones and name-tag shapes such as USER_<<<STATENAME>>>_on_entry) are pairwise distinct within the file *)
Theorem C07_template_user_tags_paired_unique : forall set file,
  In set all_templates -> In file (snd set) ->
  exists ks, user_pairs (snd file) = Some ks /\ NoDup ks.
Proof. exact templates_user_tags_ok_spec. Qed.
Print Assumptions C07_template_user_tags_paired_unique.

(* (2) expanding a tag shape once per element of a duplicate-free element list yields pairwise distinct names; two-name
   shapes (USER_<<<ACTIONNAME>>>_<<<EVENTNAME>>>) are injective when the separator does not occur in the first name *)
Theorem C07_instances_unique : forall (pre suf : string) (elems : list string),
  NoDup elems -> NoDup (map (fun e => (pre ++ e ++ suf)%string) elems).
Proof. exact instances_unique. Qed.
Print Assumptions C07_instances_unique.

Theorem C07_pair_instances_injective : forall (c : ascii) (a1 b1 a2 b2 : string),
  no_char c a1 = true -> no_char c a2 = true ->
  (a1 ++ String c b1)%string = (a2 ++ String c b2)%string -> a1 = a2 /\ b1 = b2.
Proof. exact pair_instances_injective. Qed.
Print Assumptions C07_pair_instances_injective.

(* (3) "any output can serve as input to the next regeneration without ambiguity about which block belongs where":
   for a file with well-formed USER tags, whatever the user writes under the tags, the next regeneration collects for every
   tag name exactly that tag's block *)
Theorem C07_collect_unambiguous : forall (u : string -> list string) its,
  wfb its = true -> items_okb its = true -> (forall k, block_ok (u k) = true) ->
  collect (read_lines (on_disk u its)) = map (fun k => (k, map tab4 (u k))) (pair_keys kof its).
Proof. exact collect_unambiguous. Qed.
Print Assumptions C07_collect_unambiguous.

(* the full statement is false without a restriction on names: a guard called like a fixed tag of the template collides *)
Example C07_fixed_name_collision_refuted :
  exists pre g fixed, (pre ++ g)%string = fixed /\ g <> ""%string.
Proof. exists "{{{USER_", "IMPORTS", "{{{USER_IMPORTS". split; [reflexivity|discriminate]. Qed.
Print Assumptions C07_fixed_name_collision_refuted.

Example C07_nonvacuous :
  represervable [bs [97;10]; bs [47;47;32;123;123;123;85;83;69;82;95;88;125;125;125;10]; bs [47;47;32;123;123;123;85;83;69;82;95;88;125;125;125;10]] = true /\
  represervable [bs [60;60;60;88;62;62;62;10]] = false /\
  represervable [bs [123;123;123;85;83;69;82;95;88;10]; bs [123;123;123;85;83;69;82;95;88;10]; bs [123;123;123;85;83;69;82;95;88;10]; bs [123;123;123;85;83;69;82;95;88;10]] = false /\
  length (concat (map (fun set => snd set) all_templates)) = 29.
Proof. repeat split; vm_compute; reflexivity. Qed.
Print Assumptions C07_nonvacuous.

(* ---------------------------------------------------------------- for all models: shipped files inside the block grammar *)
(* [lines] : a shipped template file (Gen/Templates.v); shipped16 dict0 lines = Some (l0, t) : under the first-filter dictionary
   dict0 (names X / NS / a / g / b) the file's lines become l0, which read back as the template t of in_grammar16 (all of this
   is computed).  Then for EVERY state-machine model m whose element names are admitted for t (wf_elements16: the names
   carry no '<' '>', no expanded line is blank or spells an unmodelled tag) and EVERY assignment of user tags: the pipeline
   of smgen.Generate writes exactly the reference expansion, and no line of it contains a generator tag.  (no_user_lines: the file
   has no line with user tags outside blocks -- computed; with such lines a tag without default and without value would stay.) *)
Theorem C07_tags_consumed_shipped : forall lines l0 t m (a : usertags),
  shipped16 dict0 lines = Some (l0, t) -> no_user_lines t = true ->
  wf_elements16 t (elements_of_model m) = true ->
  generate_file m dict0 a lines = Some (ref16 (elements_of_model m) t)
  /\ forallb no_generator_tag (flat_map (ref_item16 (elements_of_model m)) t) = true.
Proof. exact shipped_output_flat. Qed.
Print Assumptions C07_tags_consumed_shipped.

(* ... and for the shipped files WITH lines that carry user tags outside blocks (TEMPLATEInternals.cs, Test.TEMPLATEStateMachine.cs): for every
   model and every assignment a of user tags admitted for the file, if every such line is closed under a (each of its tags has a value in a or a
   default: user_lines_closed, computed), the pipeline writes the reference expansion under a and no line of it contains a generator tag.
   (The two protocol files TEMPLATEReceiver.cpp / TEMPLATETransmitter.cpp have no such lines: they are instances of the theorem above.) *)
Theorem C07_tags_consumed_shipped_user : forall lines l0 t m (a : usertags),
  shipped16 dict0 lines = Some (l0, t) ->
  wf_elements16 t (with_user a (elements_of_model m)) = true -> user_lines_closed a t = true ->
  generate_file m dict0 a lines = Some (ref16 (with_user a (elements_of_model m)) t)
  /\ forallb no_generator_tag (flat_map (ref_item16 (with_user a (elements_of_model m))) t) = true.
Proof. exact shipped_consumed_user_flat. Qed.
Print Assumptions C07_tags_consumed_shipped_user.

(* the files this covers now (each reads back into the grammar under dict0): computed.  For TEMPLATEStateMachine.py / .h the element record carries the
   events' signature strings (el_evsigs: interface oracle); the theorems hold for every such record (elements_of_model of a model with if_sigs). *)
Example C07_shipped_files_in_grammar :
  map (fun nl => match shipped16 dict0 (snd nl) with Some _ => true | None => false end)
      (filter (fun nl => existsb (String.eqb (fst nl)) ["Test.TEMPLATEStateMachine.cpp"; "TEMPLATEInternals.cs"; "Test.TEMPLATEStateMachine.cs";
                                                        "TEMPLATEReceiver.h"; "TEMPLATETransmitter.h"; "TEMPLATEReceiver.cpp"; "TEMPLATETransmitter.cpp";
                                                        "TEMPLATEStateMachine.py"; "TEMPLATEStateMachine.h"])
              (Gen.Templates.tmpl_cpp ++ Gen.Templates.tmpl_cs ++ Gen.Templates.tmpl_py ++ Gen.Templates.tmpl_proto))
  = [true; true; true; true; true; true; true; true; true].
Proof. vm_compute. reflexivity. Qed.
Print Assumptions C07_shipped_files_in_grammar.

Definition cd_rows : list EngineSM.row :=
  [["StateStop"; "EventOpen"; "StateOpen"; "OnOpenDrive"; "None"]; ["StateStop"; "EventPlay"; "StatePlay"; "OnPlayTrack"; "GuardCDInside"];
   ["StateOpen"; "EventOpen"; "StateStop"; "OnCloseDrive"; "None"]; ["StatePlay"; "EventPlay"; "StatePause"; "OnPause"; "None"];
   ["StatePlay"; "EventEndOfTrack"; "None"; "OnPlayNextTrack"; "GuardCDHasMoreTracks"];
   ["StatePlay"; "EventEndOfTrack"; "StateStop"; "OnStop"; "GuardCDHasNoMoreTracks"]].

Definition admitted (lines : list string) (tt : list EngineSM.row) (structs protos msgs : list string) : bool :=
  match shipped16 dict0 lines, tt_model tt structs protos msgs with
  | Some (_, t), Some m => wf_elements16 t (elements_of_model m)
  | _, _ => false
  end.

(* the three files are in the grammar, and the CD player table (resp. an interface with two messages) is admitted *)
Example C07_tags_consumed_shipped_nonvacuous :
  admitted (file_of "Test.TEMPLATEStateMachine.cpp" tmpl_cpp) cd_rows [] ["MessageHeader"] [] = true
  /\ admitted (file_of "TEMPLATEReceiver.h" tmpl_proto) [] [] ["MessageHeader"] ["MsgPing"; "MsgPong"] = true
  /\ admitted (file_of "TEMPLATETransmitter.h" tmpl_proto) [] [] ["MessageHeader"] ["MsgPing"; "MsgPong"] = true.
Proof. split; [|split]; vm_compute; reflexivity. Qed.
Print Assumptions C07_tags_consumed_shipped_nonvacuous.

(* ---------------------------------------------------------------- both halves, for all models *)
(* any template of the block grammar that meets the computed conditions in_grammar07 (tag lines in identical adjacent pairs,
   literal pieces of lines with name tags free of brace / TAB / CR / LF / backslash as required, ...; lines with user tags outside blocks
   are admitted, their output under the assignment of the element record is judged by user_lines_plain): for every element
   lists with admissible names and pairwise distinct cleaned tag names, the expanded lines are a well-formed fresh file *)
Theorem C07_fresh_of_template : forall e t,
  names_fine e -> in_grammar07 t = true -> user_lines_plain e t = true -> forallb item16_ok t = true -> NoDup (keys07 e t) ->
  wf_fresh_file (flat_map (ref_item16 e) t) = true.
Proof. exact fresh_of_template. Qed.
Print Assumptions C07_fresh_of_template.

(* admissible names make the per-(template, table) conditions of C16 (wf_elements16) true *)
Theorem C07_names_wf16 : forall e t,
  names_fine e -> forallb item16_ok t = true -> inky t = true -> user_lines_plain e t = true -> wf_elements16 t e = true.
Proof. exact names_wf16. Qed.
Print Assumptions C07_names_wf16.

(* the cleaned USER tag names of Test.TEMPLATEStateMachine.cpp are pairwise distinct for all admissible element lists *)
Theorem C07_keys_unique_Test_TEMPLATEStateMachine_cpp : forall e, names_ok t_cpp e = true -> NoDup (keys07 e t_cpp).
Proof. exact nodup_keys_cpp. Qed.
Print Assumptions C07_keys_unique_Test_TEMPLATEStateMachine_cpp.

Theorem C07_wf_out_Test_TEMPLATEStateMachine_cpp : forall m (a : usertags),
  names_ok t_cpp (elements_of_model m) = true ->
  generate_file m dict0 a lines_cpp = Some (concat_lines (map tab4 (fresh_cpp (elements_of_model m))))
  /\ forallb no_generator_tag (fresh_cpp (elements_of_model m)) = true
  /\ wf_fresh_file (fresh_cpp (elements_of_model m)) = true.
Proof. exact shipped_cpp_wf_out. Qed.
Print Assumptions C07_wf_out_Test_TEMPLATEStateMachine_cpp.

(* C01 for that file without a per-output boolean: regenerating over ANY user edits of its blocks is a fixed point *)
Theorem C07_fixed_point_shipped : forall e path (u : string -> list string),
  names_ok t_cpp e = true -> (forall k, block_ok (u k) = true) ->
  regen_file path (fresh_cpp e) (on_disk u (items_of (fresh_cpp e))) = (on_disk u (items_of (fresh_cpp e)), []).
Proof. exact fixed_point_cpp. Qed.
Print Assumptions C07_fixed_point_shipped.

(* The same for the shipped Test.TEMPLATEStateMachine.cs (a whole file of the grammar since it admits lines with user tags outside blocks:
   #define VERBOSE_<<<Verbose=1>>>).  Its USER tags are USING_DECLARATIONS, CONSTRUCTOR, one per guard, one per (action, event), On<State>Entry /
   On<State>Exit per state, MEMBERS, UNIT_TEST_STATES, TESTS, TEST_SUITE_TESTS.  names_ok_cs = names_ok for this file AND no guard is named like
   a state hook (On<State>Entry / On<State>Exit: such a guard's tag would coincide with the hook's -- syntactic, computed).  For every model and
   EVERY assignment a of user tags under which the user line's output is a plain line (user_lines_plain, computed): the cleaned tag names are
   pairwise distinct, what smgen.Generate writes is createoutput of a well-formed fresh file, and regeneration over any user edits is a fixed
   point. *)
Theorem C07_keys_unique_Test_TEMPLATEStateMachine_cs : forall e, names_ok_cs e = true -> NoDup (keys07 e t_cs).
Proof. exact nodup_keys_cs. Qed.
Print Assumptions C07_keys_unique_Test_TEMPLATEStateMachine_cs.

Theorem C07_wf_out_Test_TEMPLATEStateMachine_cs : forall m (a : usertags),
  names_ok_cs (with_user a (elements_of_model m)) = true -> user_lines_plain (with_user a (elements_of_model m)) t_cs = true ->
  generate_file m dict0 a lines_cs = Some (concat_lines (map tab4 (fresh_cs (with_user a (elements_of_model m)))))
  /\ wf_fresh_file (fresh_cs (with_user a (elements_of_model m))) = true.
Proof. exact shipped_cs_wf_out. Qed.
Print Assumptions C07_wf_out_Test_TEMPLATEStateMachine_cs.

Theorem C07_fixed_point_shipped_cs : forall e path (u : string -> list string),
  names_ok_cs e = true -> user_lines_plain e t_cs = true -> (forall k, block_ok (u k) = true) ->
  regen_file path (fresh_cs e) (on_disk u (items_of (fresh_cs e))) = (on_disk u (items_of (fresh_cs e)), []).
Proof. exact fixed_point_cs. Qed.
Print Assumptions C07_fixed_point_shipped_cs.

Example C07_wf_out_cs_nonvacuous :
  shipped16 dict0 lines_cs = Some (l0_cs, t_cs)
  /\ match tt_model cd_rows [] ["MessageHeader"] [] with
     | Some m => names_ok_cs (with_user [("Verbose", "0")] (elements_of_model m)) && user_lines_plain (with_user [("Verbose", "0")] (elements_of_model m)) t_cs
                 && Nat.ltb 10 (List.length (keys07 (elements_of_model m) t_cs))
     | None => false
     end = true.
Proof. split; vm_compute; reflexivity. Qed.
Print Assumptions C07_wf_out_cs_nonvacuous.

Example C07_wf_out_nonvacuous :
  shipped16 dict0 lines_cpp = Some (l0_cpp, t_cpp)
  /\ match tt_model cd_rows [] ["MessageHeader"] [] with
     | Some m => names_ok t_cpp (elements_of_model m) && negb (nodupb (pair_keys kof (items_of (fresh_cpp (elements_of_model m)))) && false)
                 && Nat.ltb 20 (List.length (pair_keys kof (items_of (fresh_cpp (elements_of_model m)))))
     | None => false
     end = true.
Proof. split; vm_compute; reflexivity. Qed.
Print Assumptions C07_wf_out_nonvacuous.

(* ---------------------------------------------------------------- the whole files TEMPLATEStateMachine.py / TEMPLATEStateMachine.h *)
(* the same for a template with transition blocks, per-event signature blocks, initial-state lines and the transition-table line: such items carry no
   USER tag (texts_ok07 passes over them), the lines they produce under the element record must be plain well-formed lines (dyn_lines_plain, computed) *)
Theorem C07_fresh_of_template_x : forall e t,
  names_fine e -> texts_ok07 t = true -> user_lines_plain e t = true -> dyn_lines_plain e t = true -> forallb item16_ok t = true -> NoDup (keys07 e t) ->
  wf_fresh_file (flat_map (ref_item16 e) t) = true.
Proof. exact fresh_of_template_x. Qed.
Print Assumptions C07_fresh_of_template_x.

(* dyn_lines_plain follows from the names: if the literal pieces of the transition blocks / signature blocks / initial-state lines / table-line prefix of
   the template are free of '{', backslash and CR (dyn_ok07, computed on the template) and so are the states, events, initial state, the names and
   values of the per-state transition lists, the cells of the table rows (dyn_names_ok, syntactic) and those signature strings of the oracle that the
   template's lines ask for (sigs_clean07: without defaults for <<<SIGNATURE>>>, with defaults for <<<SIGNATUREWITHDEFAULTS>>>), then every chunk those items put out -- through subst16 / subst_any with alternative texts, EngineSM.paren_clean and the boost::sml
   printer EngineSM.sml_print with its padding and right-stripping -- is free of them and ends with LF, hence is a plain chunk *)
Theorem C07_dyn_plain_of_names : forall e t, dyn_ok07 t = true -> dyn_names_ok e = true -> sigs_clean07 t (el_evsigs e) = true -> dyn_lines_plain e t = true.
Proof. exact dyn_plain_of_names. Qed.
Print Assumptions C07_dyn_plain_of_names.

(* strip: the file's items without the empty-string entries the first filtering leaves (TEMPLATEStateMachine.h has one); the written text is the same *)
Theorem C07_strip_same_text : forall e t, ref16 e (strip t) = ref16 e t.
Proof. exact ref16_strip. Qed.
Print Assumptions C07_strip_same_text.

(* the USER tags of the two files are fixed text: pairwise distinct cleaned names for EVERY element record *)
Theorem C07_keys_unique_TEMPLATEStateMachine_py : forall e, NoDup (keys07 e (strip t_py)).
Proof. exact nodup_keys_py. Qed.
Print Assumptions C07_keys_unique_TEMPLATEStateMachine_py.
Theorem C07_keys_unique_TEMPLATEStateMachine_h : forall e, NoDup (keys07 e (strip t_h)).
Proof. exact nodup_keys_h. Qed.
Print Assumptions C07_keys_unique_TEMPLATEStateMachine_h.

(* for EVERY model (with its signature oracle if_sigs) and EVERY assignment a of user tags with the syntactic names_ok_py (= names_ok_x: alphanumeric names;
   initial state, transition lists, table cells, oracle strings free of '{', backslash, CR), the user line's output plain (user_lines_plain, computed), and the
   C16 admission of the file (wf_elements16, computed): what smgen.Generate writes for TEMPLATEStateMachine.py is createoutput of a well-formed fresh file *)
Theorem C07_wf_out_TEMPLATEStateMachine_py : forall m (a : usertags),
  names_ok_py (with_user a (elements_of_model m)) = true -> user_lines_plain (with_user a (elements_of_model m)) (strip t_py) = true ->
  wf_elements16 t_py (with_user a (elements_of_model m)) = true ->
  generate_file m dict0 a lines_py = Some (concat_lines (map tab4 (fresh_py (with_user a (elements_of_model m)))))
  /\ wf_fresh_file (fresh_py (with_user a (elements_of_model m))) = true.
Proof. exact shipped_py_wf_out. Qed.
Print Assumptions C07_wf_out_TEMPLATEStateMachine_py.

Theorem C07_wf_out_TEMPLATEStateMachine_h : forall m (a : usertags),
  names_ok_h (with_user a (elements_of_model m)) = true -> user_lines_plain (with_user a (elements_of_model m)) (strip t_h) = true ->
  wf_elements16 t_h (with_user a (elements_of_model m)) = true ->
  generate_file m dict0 a lines_h = Some (concat_lines (map tab4 (fresh_h (with_user a (elements_of_model m)))))
  /\ wf_fresh_file (fresh_h (with_user a (elements_of_model m))) = true.
Proof. exact shipped_h_wf_out. Qed.
Print Assumptions C07_wf_out_TEMPLATEStateMachine_h.

Theorem C07_fixed_point_shipped_py : forall e path (u : string -> list string),
  names_ok_py e = true -> user_lines_plain e (strip t_py) = true -> (forall k, block_ok (u k) = true) ->
  regen_file path (fresh_py e) (on_disk u (items_of (fresh_py e))) = (on_disk u (items_of (fresh_py e)), []).
Proof. exact fixed_point_py. Qed.
Print Assumptions C07_fixed_point_shipped_py.

Theorem C07_fixed_point_shipped_h : forall e path (u : string -> list string),
  names_ok_h e = true -> user_lines_plain e (strip t_h) = true -> (forall k, block_ok (u k) = true) ->
  regen_file path (fresh_h e) (on_disk u (items_of (fresh_h e))) = (on_disk u (items_of (fresh_h e)), []).
Proof. exact fixed_point_h. Qed.
Print Assumptions C07_fixed_point_shipped_h.

(* the CD player table with a signature oracle (one event with parameters and a default) and StateMachineThread=0 meets every hypothesis of both
   theorems; the files are the shipped ones; each output has its USER tag pairs *)
Definition cd_sigs : list (string * (string * string)) :=
  [("EventOpen", ("", "")); ("EventPlay", ("track, speed", "track, speed=1")); ("EventEndOfTrack", ("", ""))].
Example C07_wf_out_py_h_nonvacuous :
  shipped16 dict0 lines_py = Some (l0_py, t_py) /\ shipped16 dict0 lines_h = Some (l0_h, t_h)
  /\ match tt_model cd_rows [] ["MessageHeader"] [] with
     | Some m => let E := with_user [("StateMachineThread", "0")] (elements_of_model (with_sigs cd_sigs m)) in
                 names_ok_py E && user_lines_plain E (strip t_py) && wf_elements16 t_py E
                 && names_ok_h E && user_lines_plain E (strip t_h) && wf_elements16 t_h E
                 && Nat.eqb (List.length (pair_keys kof (items_of (fresh_py E)))) 1 && Nat.eqb (List.length (pair_keys kof (items_of (fresh_h E)))) 5
                 && Nat.ltb 100 (List.length (fresh_py E))
     | None => false
     end = true.
Proof. split; [|split]; vm_compute; reflexivity. Qed.
Print Assumptions C07_wf_out_py_h_nonvacuous.

(* the condition on the oracle is needed: with a signature string that spells a USER tag of the file, every other hypothesis of C07_wf_out_TEMPLATEStateMachine_h
   holds and the generated header is NOT a well-formed fresh file (the tag USER_LOCALS occurs three times) *)
Example C07_oracle_condition_needed :
  match tt_model cd_rows [] ["MessageHeader"] [] with
  | Some m => let E := with_user [("StateMachineThread", "0")] (elements_of_model (with_sigs [("EventOpen", ("int x /* {{{USER_LOCALS}}} */", ""))] m)) in
              names_plain E && dyn_names_ok E && user_lines_plain E (strip t_h) && wf_elements16 t_h E
              && negb (sigs_clean07 (strip t_h) (el_evsigs E)) && negb (wf_fresh_file (fresh_h E))
  | None => false
  end = true.
Proof. vm_compute. reflexivity. Qed.
Print Assumptions C07_oracle_condition_needed.
