(* C07 -- Outputs stay re-preservable: tags fully expanded, USER tags paired and unique.
   PARTIAL: the statement "for EVERY valid model the shipped generators' output is represervable" would need the complete
   template engine as a Coq function (name/case/counter tags are modelled in Model/EngineSM.v; signature, member, documentation
   and UML tags are not).  What is proved: (1) finite, source-derived obligations over every shipped template, re-checked against
   /repo on every run; (2) the algebra that turns them into uniqueness of expanded names; (3) what well-formedness buys.
   What ties the rest: the extracted [represervable] / [wf_fresh_file] are evaluated on every file of every real generation of
   the C01-C07 runs (any false is a violation or a recorded finding). *)
From Coq Require Import String Ascii List Bool.
From KV Require Import Lib.Str Lib.ODict Model.PreserveCore Model.Preserve Model.TagShape
                       Gen.Tags Gen.Templates Gen.Vocab Proofs.PreserveStr Proofs.TagShapeProofs.
Import ListNotations.
Open Scope string_scope.

(* (1a) every <<<...>>> tag of every line of every shipped template is well bracketed and is either in the vocabulary of the
   generator that loads the template (the literals of cgen/smgen resp. umlgen/LanguageCPP/LanguageCsharp) or carries an inline
   default (then the user-tag pass consumes it): no tag can survive for lack of a stage that knows it *)
Theorem C07_template_tags_known : forall set file l,
  In set all_templates -> In file (snd set) -> In l (snd file) ->
  exists ts, tags_of l = Some ts /\
             forall t, In t ts -> mem_str (head_of t) (vocab_of (fst set)) = true \/ has_default t = true.
Proof. exact templates_tags_known_spec. Qed.
Print Assumptions C07_template_tags_known.

(* (1b) in every shipped template the USER tag lines form adjacent open/close pairs with identical cleaned names, and the
   names (fixed ones and name-tag shapes such as USER_<<<STATENAME>>>_on_entry) are pairwise distinct within the file *)
Theorem C07_template_user_tags_paired_unique : forall set file,
  In set all_templates -> In file (snd set) ->
  exists ks, user_pairs (snd file) = Some ks /\ NoDup ks.
Proof. exact templates_user_tags_ok_spec. Qed.
Print Assumptions C07_template_user_tags_paired_unique.

(* (2) expanding a tag shape once per element of a duplicate-free element list yields pairwise distinct names; two-name
   shapes (USER_<<<ACTIONNAME>>>_<<<EVENTNAME>>>) are injective when the separator does not occur in the first name *)
Theorem C07_instances_unique : forall (pre suf : string) (elems : list string),
  NoDup elems -> NoDup (map (fun e => (pre ++ e ++ suf)%string) elems).
Proof. exact instances_unique. Qed.
Print Assumptions C07_instances_unique.

Theorem C07_pair_instances_injective : forall (c : ascii) (a1 b1 a2 b2 : string),
  no_char c a1 = true -> no_char c a2 = true ->
  (a1 ++ String c b1)%string = (a2 ++ String c b2)%string -> a1 = a2 /\ b1 = b2.
Proof. exact pair_instances_injective. Qed.
Print Assumptions C07_pair_instances_injective.

(* (3) "any output can serve as input to the next regeneration without ambiguity about which block belongs where":
   for a file with well-formed USER tags, whatever the user writes under the tags, the next regeneration collects for every
   tag name exactly that tag's block *)
Theorem C07_collect_unambiguous : forall (u : string -> list string) its,
  wfb its = true -> items_okb its = true -> (forall k, block_ok (u k) = true) ->
  collect (read_lines (on_disk u its)) = map (fun k => (k, map tab4 (u k))) (pair_keys kof its).
Proof. exact collect_unambiguous. Qed.
Print Assumptions C07_collect_unambiguous.

(* the full statement is false without a restriction on names: a guard called like a fixed tag of the template collides *)
Example C07_fixed_name_collision_refuted :
  exists pre g fixed, (pre ++ g)%string = fixed /\ g <> ""%string.
Proof. exists "{{{USER_", "IMPORTS", "{{{USER_IMPORTS". split; [reflexivity|discriminate]. Qed.
Print Assumptions C07_fixed_name_collision_refuted.

Example C07_nonvacuous :
  represervable [bs [97;10]; bs [47;47;32;123;123;123;85;83;69;82;95;88;125;125;125;10]; bs [47;47;32;123;123;123;85;83;69;82;95;88;125;125;125;10]] = true /\
  represervable [bs [60;60;60;88;62;62;62;10]] = false /\
  represervable [bs [123;123;123;85;83;69;82;95;88;10]; bs [123;123;123;85;83;69;82;95;88;10]; bs [123;123;123;85;83;69;82;95;88;10]; bs [123;123;123;85;83;69;82;95;88;10]] = false /\
  length (concat (map (fun set => snd set) all_templates)) = 29.
Proof. repeat split; vm_compute; reflexivity. Qed.
Print Assumptions C07_nonvacuous.
