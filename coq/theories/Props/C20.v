(* C20 -- State-diagram extraction from a VP project yields exactly the drawn transitions.
   Only statements, each closed by [exact], each followed by Print Assumptions. *)
From Coq Require Import String List Bool.
From KV Require Import Lib.Str Model.Vpp Model.VppWriter Spec.VppSpec Gen.VppShipped Proofs.VppCalib Proofs.VppTop.
Import ListNotations.
Open Scope string_scope.

(* Read-back.  D: ANY abstract state diagram (Model/VppWriter.v): any number of states and transitions, guards / effects
   present, absent or shared, self loops, unnamed triggers, notes, shapes in any drawing order, the four reference fields of
   a transition blob in any order between any noise fields, owner chains of any length.  d: ANY row database that hosts D:
   its rows are those the (assumed, calibrated) Visual Paradigm writer produces for D, all other rows -- other diagrams,
   their shapes interleaved with D's, unrelated model elements, in any order -- are arbitrary.  extract = the model of
   vppfs.ExtractTransitionTable (None = Python exception).  expected_rows = Spec/VppSpec.v: one row per drawn non-initial
   transition [source; trigger; target or 'None' for a self loop; effect or 'None'; guard or 'None'], the initial arrow's
   target first, grouped by source state in order of first appearance. *)
Theorem C20_roundtrip : forall (D : diagram) (d : db) (nm : string),
  wf_diagram D = true -> hosts d D = true -> py_strip nm = d_name D ->
  extract d nm = Some (expected_rows D).
Proof. exact roundtrip. Qed.
Print Assumptions C20_roundtrip.

(* Other diagrams of the same project have no influence: any two projects that contain D yield the same table. *)
Theorem C20_others_no_influence : forall (D : diagram) (d1 d2 : db) (nm : string),
  wf_diagram D = true -> hosts d1 D = true -> hosts d2 D = true -> py_strip nm = d_name D ->
  extract d1 nm = extract d2 nm.
Proof. exact others_no_influence. Qed.
Print Assumptions C20_others_no_influence.

(* Calibration and non-vacuity: on the shipped project (Gen/VppShipped.v, regenerated from kojen/test/blob.xml on every run)
   the assumed writer reproduces the stored rows of the state diagram byte for byte (that is what hosts compares), between the
   rows of the two class diagrams of the project; the diagram read off them is well formed; the reader model returns the three
   rows of the shipped unit test and so does the specification. *)
Theorem C20_calibration :
  hosts shipped_db shipped_D = true /\ wf_diagram shipped_D = true
  /\ extract shipped_db shipped_name = Some shipped_rows /\ expected_rows shipped_D = shipped_rows.
Proof. exact (conj (proj1 calib_writer) (conj (proj2 calib_writer) (conj calib_reader calib_spec))). Qed.
Print Assumptions C20_calibration.

Example C20_roundtrip_nonvacuous :
  wf_diagram shipped_D = true /\ hosts shipped_db shipped_D = true /\ py_strip (" " ++ shipped_name ++ " ") = d_name shipped_D
  /\ List.length (expected_rows shipped_D) = 3
  /\ wf_diagram (kw_diagram "EventGo") = true.
Proof. repeat split; vm_compute; reflexivity. Qed.
Print Assumptions C20_roundtrip_nonvacuous.

(* The keyword hypothesis inside wf_diagram cannot be dropped (known finding K-C20-1): the diagram
   StateA --Safeguard / OnGo--> StateB (no guard) is hosted by its own encoding and stands for one row, but the reader
   takes the trigger's name for a guard reference, looks up a model element that does not exist and raises.
   With the trigger called EventGo the same diagram is well formed and read back exactly (kw_diagram_ok). *)
Theorem C20_keyword_refuted : exists D : diagram,
  hosts (encode_diagram D) D = true /\ expected_rows D = [["StateA"; "Safeguard"; "StateB"; "OnGo"; "None"]]
  /\ extract (encode_diagram D) (d_name D) = None.
Proof. exact (ex_intro _ (kw_diagram "Safeguard") kw_diagram_refuted). Qed.
Print Assumptions C20_keyword_refuted.
