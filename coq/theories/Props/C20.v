(* C20 -- State-diagram extraction from a VP project yields exactly the drawn transitions.
   Only statements, each closed by [exact], each followed by Print Assumptions. *)
From Coq Require Import String List Bool.
From KV Require Import Lib.Str Model.Vpp Model.VppWriter Spec.VppSpec Gen.VppShipped Proofs.VppCalib.
Import ListNotations.
Open Scope string_scope.

(* Calibration: on the shipped project (regenerated from kojen/test/blob.xml on every run) the assumed writer reproduces the
   stored rows of the state diagram byte for byte, the diagram read off them is well formed, the reader model returns the
   three rows of the shipped unit test, and so does the specification. *)
Theorem C20_calibration :
  hosts shipped_db shipped_D = true /\ wf_diagram shipped_D = true
  /\ extract shipped_db shipped_name = Some shipped_rows /\ expected_rows shipped_D = shipped_rows.
Proof. exact (conj (proj1 calib_writer) (conj (proj2 calib_writer) (conj calib_reader calib_spec))). Qed.
Print Assumptions C20_calibration.
