(* C01 -- Regenerating an unchanged model is a fixed point that keeps all user code.
   Only statements, each closed by [exact], each followed by Print Assumptions. *)
From Coq Require Import String List Bool.
From KV Require Import Lib.Str Lib.ODict Model.PreserveCore Model.Preserve
                       Proofs.PreserveStr Proofs.PreserveTree Proofs.PreserveTop.
From KV Require Spec.RefExpand16 Model.EngineDomain07 Proofs.Shipped07Cpp Proofs.Shipped07Cs Proofs.Shipped07X.
Import ListNotations.
Open Scope string_scope.

(* One file, bytes to bytes.  [fresh] = the lines the generator produces for the file (any generator, any
   model: the only requirement is the boolean well-formedness that C07 is about and that the check evaluates
   on every real run); [u k] = ANY user text placed under the tag of cleaned name k (only lines containing
   the USER tag prefix, CR bytes and unterminated lines are excluded, see block_ok); [on_disk u its] = the
   fresh file with each block spliced in directly after its opening tag, TABs normalised.  Regeneration
   rewrites exactly those bytes and produces no LostCode. *)
Theorem C01_fixed_point : forall path (u : string -> list string) fresh its,
  parse_items fresh = Some its -> wfb its = true -> items_okb its = true ->
  (forall k, block_ok (u k) = true) ->
  regen_file path fresh (on_disk u its) = (on_disk u its, []).
Proof. exact regen_file_fixed_point. Qed.
Print Assumptions C01_fixed_point.

(* any number of successive regenerations *)
Theorem C01_iterated : forall n path (u : string -> list string) fresh its,
  parse_items fresh = Some its -> wfb its = true -> items_okb its = true ->
  (forall k, block_ok (u k) = true) ->
  Nat.iter n (fun d => fst (regen_file path fresh d)) (on_disk u its) = on_disk u its.
Proof. exact regen_file_iterated. Qed.
Print Assumptions C01_iterated.

(* The whole output directory (every file of the code model, whatever the file names are): every file is
   rewritten with identical bytes, nothing else is written (no LostCode), the reported list is the set of
   generated files. *)
Theorem C01_tree_fixed_point : forall outdir fresh U,
  fresh_ok fresh -> blocks_ok U ->
  let r := regen outdir (dir_of fresh U) fresh in
  (forall fn lines, slookup fn fresh = Some lines ->
      slookup fn (fst r) = Some (on_disk (U fn) (items_of lines)))
  /\ (forall k, slookup k (fst r) <> None -> In k (keys fresh))
  /\ (forall k, In k (snd r) <-> In k (keys fresh)).
Proof. exact tree_fixed_point. Qed.
Print Assumptions C01_tree_fixed_point.

(* non-vacuity: a concrete file with two tag pairs (different comment styles, last line unterminated) and
   user text containing a TAB, a generator-tag look-alike and non-ASCII bytes meets every hypothesis *)
Definition ex_fresh : list string :=
  [bs [97;10]; bs [47;47;32;123;123;123;85;83;69;82;95;88;125;125;125;10]; bs [47;47;32;123;123;123;85;83;69;82;95;88;125;125;125;10];
   bs [9;98;10]; bs [35;32;123;123;123;85;83;69;82;95;89;10]; bs [32;32;35;32;123;123;123;85;83;69;82;95;89;10]; bs [101;110;100]].
Definition ex_u (k : string) : list string :=
  if String.eqb k (bs [123;123;123;85;83;69;82;95;88]) then [bs [9;60;60;60;88;62;62;62;10]; bs [195;169;10]] else [].

Example C01_fixed_point_nonvacuous :
  exists its, parse_items ex_fresh = Some its /\ wfb its = true /\ items_okb its = true
              /\ (forall k, block_ok (ex_u k) = true)
              /\ on_disk ex_u its <> concat_lines (map tab4 ex_fresh).
Proof.
  eexists. split; [vm_compute; reflexivity|]. split; [vm_compute; reflexivity|]. split; [vm_compute; reflexivity|].
  split.
  - intros k. unfold ex_u. destruct (String.eqb k _); vm_compute; reflexivity.
  - vm_compute. discriminate.
Qed.
Print Assumptions C01_fixed_point_nonvacuous.

(* C01 for a shipped generator file, for ALL models: the hypothesis "the fresh file is well formed" of C01_fixed_point is a
   theorem for Test.TEMPLATEStateMachine.cpp (Props/C07.v: C07_wf_out_...), so for every state-machine model with admissible
   element names (names_ok, syntactic) regenerating over any user edits of its blocks is a fixed point.  [fresh_cpp e] are
   the lines smgen.Generate's pipeline produces for the file (C07_wf_out: generate_file = createoutput of them). *)
Theorem C01_fixed_point_shipped : forall (e : RefExpand16.elements) path (u : string -> list string),
  EngineDomain07.names_ok Shipped07Cpp.t_cpp e = true -> (forall k, block_ok (u k) = true) ->
  regen_file path (Shipped07Cpp.fresh_cpp e) (on_disk u (items_of (Shipped07Cpp.fresh_cpp e)))
  = (on_disk u (items_of (Shipped07Cpp.fresh_cpp e)), []).
Proof. exact Shipped07Cpp.fixed_point_cpp. Qed.
Print Assumptions C01_fixed_point_shipped.

(* ... and for the shipped Test.TEMPLATEStateMachine.cs (Props/C07.v: C07_wf_out_Test_TEMPLATEStateMachine_cs): names_ok_cs adds "no guard is named
   like a state hook On<State>Entry / On<State>Exit"; user_lines_plain: the output of the file's user-tag line under the assignment is a plain line *)
Theorem C01_fixed_point_shipped_cs : forall (e : RefExpand16.elements) path (u : string -> list string),
  Shipped07Cs.names_ok_cs e = true -> EngineDomain07.user_lines_plain e Shipped07Cs.t_cs = true -> (forall k, block_ok (u k) = true) ->
  regen_file path (Shipped07Cs.fresh_cs e) (on_disk u (items_of (Shipped07Cs.fresh_cs e)))
  = (on_disk u (items_of (Shipped07Cs.fresh_cs e)), []).
Proof. exact Shipped07Cs.fixed_point_cs. Qed.
Print Assumptions C01_fixed_point_shipped_cs.

(* ... and for the whole shipped files TEMPLATEStateMachine.py / TEMPLATEStateMachine.h (Props/C07.v: C07_wf_out_TEMPLATEStateMachine_py / _h): all their USER tags
   are fixed text; names_ok_py / names_ok_h (syntactic): alphanumeric names; the initial state, the per-state transition lists, the table cells and the
   oracle's signature strings free of '{', backslash and CR (C07_dyn_plain_of_names) *)
Theorem C01_fixed_point_shipped_py : forall (e : RefExpand16.elements) path (u : string -> list string),
  Shipped07X.names_ok_py e = true -> EngineDomain07.user_lines_plain e (EngineDomain07.strip Shipped07X.t_py) = true -> (forall k, block_ok (u k) = true) ->
  regen_file path (Shipped07X.fresh_py e) (on_disk u (items_of (Shipped07X.fresh_py e)))
  = (on_disk u (items_of (Shipped07X.fresh_py e)), []).
Proof. exact Shipped07X.fixed_point_py. Qed.
Print Assumptions C01_fixed_point_shipped_py.

Theorem C01_fixed_point_shipped_h : forall (e : RefExpand16.elements) path (u : string -> list string),
  Shipped07X.names_ok_h e = true -> EngineDomain07.user_lines_plain e (EngineDomain07.strip Shipped07X.t_h) = true -> (forall k, block_ok (u k) = true) ->
  regen_file path (Shipped07X.fresh_h e) (on_disk u (items_of (Shipped07X.fresh_h e)))
  = (on_disk u (items_of (Shipped07X.fresh_h e)), []).
Proof. exact Shipped07X.fixed_point_h. Qed.
Print Assumptions C01_fixed_point_shipped_h.
