(* C10 -- The generated C# state machine implements exactly the transition table.
   There is no C# compiler in this environment: the statements are about the emitted TOKEN STRUCTURE of the handlers (brace
   matching and the sequence of guard / exit / action / enter / state-assignment / return statements) and about the
   statement IR of the helper methods (constructor, Reset, Enter<StateT>, Exit<StateT>) parsed from the templates,
   executed by the model's semantics of those statements; the check executes the REAL generated text with a small
   C# statement interpreter (translator/csmini.py) and compares traces. *)
From Coq Require Import String List Bool Arith.
From KV Require Import Lib.TableDef Model.TTable Model.CsShape Spec.TableInterp Gen.CsTmpl Model.CsSM
                       Proofs.TTableProofs Proofs.SmlProofs Proofs.CsProofs Model.CsThreads Proofs.CsThreadsProofs Model.DeclShape Gen.DeclTmpl Model.Decls Proofs.DeclProofs
                       Lib.Str Model.Engine Model.EngineSM Model.EngineDomain Model.EngineDomain16 Spec.RefExpand16 Model.Parse16 Model.CsRender Proofs.CsBridge.
Import KV.Model.CsShape KV.Model.CsSM.
Import ListNotations.
Open Scope string_scope.

(* For every table, non-null state s, event e, guard oracle and guard-call count: the body that class s gives
   Trigger<e> has matching braces, and executed in state s (state object and estate enum both s, controller set) it tests
   the guards of the rows of (s, e) in table order and for the first that holds performs exit, action, enter and the
   state change (the action alone for rows without target) and returns -- exactly the interpreter's step without a
   no-transition hook.  sm.Exit<S>() and sm.Enter<T>() are EXECUTED from the IR of their bodies that translator/cstmpl.py
   parses out of TEMPLATEInternals.cs (Gen/CsTmpl.v: cs_exit_ir, cs_enter_ir): Exit runs OnExit of the current state
   object, Enter creates the T object and runs ITS OnEntry -- also when T is the current state (a self transition is
   exit then entry); afterwards the state object and the enum agree and no exception was raised. *)
Theorem C10_handlers : forall t s e gv n, String.eqb s "" = false ->
  exists prog, parse_braces (cs_handler t s e) = Some prog /\
    cs_out (exec_cs gv e prog (mkCs s s n true false)) =
    let '(tr, c, n') := step_rows_quiet gv n s e (rows_for t s e) in (tr, mkCs c c n' true false).
Proof. exact cs_handler_sem. Qed.
Print Assumptions C10_handlers.

(* The whole machine, from the IR of the constructor, Reset(), Enter / Exit and the handler tokens: constructing it
   sets the controller and enters the first row's start state -- that state's entry hook exactly once, nothing else --
   and then every Trigger<e> (non-threaded configuration: dispatched synchronously to the current state object's class;
   a class without an override inherits the empty virtual) makes exactly the callbacks of the table interpreter and
   leaves estate (what every Is<State>() reads) at the interpreter's state; no step raises. *)
Theorem C10_sem : forall t, wf_table t = true -> forall evs gv, run_cs t evs gv = Some (table_interp_quiet t evs gv).
Proof. exact cs_sem. Qed.
Print Assumptions C10_sem.

Theorem C10_init : forall t, wf_table t = true -> forall gv,
  run_cs t [] gv = Some [([CEntry (first_state t) startup_event], first_state t)].
Proof. intros t H gv. exact (cs_sem t H [] gv). Qed.
Print Assumptions C10_init.

(* The THREADED configuration (user tag StateMachineThread = 1, the default).  Trigger<e> only enqueues the event, the
   dispatch thread started by the constructor dequeues and dispatches for ever; both are executed from the IR that
   translator/cstmpl.py parses out of the SM_THREAD_1 branches of the templates (Gen/CsTmpl.v: cs_trigger_thr_ir,
   cs_dispatch_loop_ir), one IR statement per atomic step, under an arbitrary schedule (Model/CsThreads.v).
   Safety, for EVERY schedule: what has been handled so far is exactly the interpreter's run on a prefix of the Trigger
   order -- each handled event exactly once, in Trigger order, by the handler of the state the machine was in. *)
Theorem C10_threaded_safe : forall t, wf_table t = true -> forall evs gv sched,
  exists handled rest, evs = (handled ++ rest)%list /\
    t_out (trun t gv sched (tinit t evs)) = table_interp_quiet t handled gv.
Proof. exact cs_sem_threaded_safe. Qed.
Print Assumptions C10_threaded_safe.

(* Every triggered event is handled: any schedule that gives the producer as many turns as there are events and afterwards
   the dispatch thread 2 * (number of events) + 1 turns -- in particular every fair schedule -- ends with an empty queue and
   exactly the interpreter's callbacks and states on the whole Trigger order.  (With a dispatch loop that waits on an
   auto-reset signal which Trigger sets once per event -- seed C10-6 -- the IR changes and the progress part of this proof
   stops compiling: two Sets before one WaitOne release the loop once.) *)
Theorem C10_sem_threaded : forall t, wf_table t = true -> forall evs gv sched1 sched2,
  length evs <= count_choice true sched1 -> 2 * length evs + 1 <= count_choice false sched2 ->
  let s := trun t gv (sched1 ++ sched2) (tinit t evs) in
  t_out s = table_interp_quiet t evs gv /\ t_q s = [] /\ t_pend s = [].
Proof. exact cs_sem_threaded. Qed.
Print Assumptions C10_sem_threaded.

(* The helper methods as they were seeded in seeded/C10-2 (Enter<StateT>() returns early when the current state object
   already is a StateT): executed by the same semantics, a self transition that fires runs the exit hook but not the
   entry hook -- the model follows the source, so with that template C10_handlers / C10_sem stop compiling. *)
Example C10_early_return_in_enter_refuted :
  let enter := [HIfStateIsT [HReturn]; HNewState; HOnEntry] in
  as_call_cs (exec_h "E" "" no_call no_call "S" enter (mkCs "S" "S" 0 true false)) = (false, [], mkCs "S" "S" 0 true false) /\
  as_call_cs (exec_h "E" "" no_call no_call "T" enter (mkCs "S" "S" 0 true false)) = (false, [CEntry "T" "E"], mkCs "T" "S" 0 true false).
Proof. vm_compute. split; reflexivity. Qed.
Print Assumptions C10_early_return_in_enter_refuted.

(* THE ENGINE'S OUTPUT.  For every table with well-formed rows: the file that the engine's pipeline (Model/EngineSM.v) produces
   from the per-state > per-event > per-transition block of the SHIPPED TEMPLATEInternals.cs (Model/CsRender.cs_block16: the lines of
   Gen/Templates.v between PER_STATETRANSITION_BEGIN / _END, first-filtered with the state machine name X, read into the template
   syntax and checked to render back) is one class text per state class (cs_classes), in it one Trigger<e> override per listed
   handler (cs_handlers); the lines of that override's PER_GUARDTRANSITION block read, one by one and without their indentation, as
   the C# statements of the tokens cs_handler t s e; and those tokens parse and execute the table (C10_handlers).  The harness
   finds this text verbatim in the real <Name>Internals.cs on every case. *)
Theorem C10_handlers_engine : forall tt structs protos msgs m dict,
  tt_model tt structs protos msgs = Some m -> dict_ok dict = true -> forallb row_ok (table_of tt) = true ->
  engine16 m dict cs_block16 = Some (concat_lines (map tab4 (flat_map (cs_class_text (table_of tt)) (cs_classes (table_of tt)))))
  /\ forall s e gv n,
       cs_reads_all "X" (cs_handler_text (table_of tt) s e) (cs_handler (table_of tt) s e) = true
       /\ (String.eqb s "" = false ->
           exists prog, parse_braces (cs_handler (table_of tt) s e) = Some prog /\
            cs_out (exec_cs gv e prog (mkCs s s n true false)) =
            let '(tr, c, n') := step_rows_quiet gv n s e (rows_for (table_of tt) s e) in (tr, mkCs c c n' true false)).
Proof. exact cs_handlers_engine. Qed.
Print Assumptions C10_handlers_engine.

(* THE WHOLE FILE.  The shipped TEMPLATEInternals.cs as a whole lies in the template grammar of C16 (text, per-state / per-event blocks,
   the transition block, the user-tag line #define SM_THREAD_<<<StateMachineThread=1>>>, the <<<TTT_BOOST_SML>>> line of the header
   comment): for every table, every interface and every assignment of user tags admitted for it (cs_file_wf: computed), what
   smgen.Generate's pipeline writes from the file is the reference expansion of the file; its 46th item is the transition block, whose
   expansion is the class texts above.  The harness compares the real <Name>Internals.cs as a whole with that text on every case. *)
Theorem C10_file_engine : forall (tt : list EngineSM.row) (structs protos msgs : list string) (m : smodel) (a : Engine.usertags),
  tt_model tt structs protos msgs = Some m -> cs_file_wf tt structs protos msgs a = true ->
  EngineSM.generate_file m Parse16.dict0 a cs_file = Some (cs_file_ref tt structs protos msgs a)
  /\ nth_error cs_file16 45 = Some (TransBlock "    " "    " cs_tbody)
  /\ ref_item16 (with_user a (elements_of (table_of tt) structs protos msgs)) (TransBlock "    " "    " cs_tbody)
     = flat_map (cs_class_text (table_of tt)) (cs_classes (table_of tt)).
Proof. exact cs_file_engine. Qed.
Print Assumptions C10_file_engine.

(* the reading alone: every table (rows well formed or not) *)
Theorem C10_handler_reads : forall (t : table) s e, cs_reads_all "X" (cs_handler_text t s e) (cs_handler t s e) = true.
Proof. exact cs_handler_reads_b. Qed.
Print Assumptions C10_handler_reads.

Example C10_block_is_shipped : cs_block16_opt = Some cs_block16 /\ cs_block16 = [TransBlock "    " "    " cs_tbody] /\ Nat.ltb 25 (List.length cs_block_lines) = true.
Proof. split; [|split]; vm_compute; reflexivity. Qed.
Print Assumptions C10_block_is_shipped.

(* Handlers exist exactly for the listed pairs: a listed pair has rows, an unlisted pair has none (the base class's
   empty virtual Trigger<e> runs: the event is ignored, which is what the interpreter computes for no rows). *)
Theorem C10_handlers_listed_only : forall t s e, forallb row_ok t = true ->
  (In e (cs_handlers t s) -> rows_for t s e <> []) /\
  (~ In e (cs_handlers t s) -> step_rows_quiet (fun _ _ => true) 0 s e (rows_for t s e) = ([], s, 0)).
Proof.
  intros t s e H. split; [apply cs_listed|]. intro Hn. rewrite (cs_unlisted t s e H Hn). reflexivity.
Qed.
Print Assumptions C10_handlers_listed_only.

(* Every state that can be entered, including states that are only targets, has its generated state class, and there
   are classes for nothing else. *)
Theorem C10_state_classes : forall t, forallb row_ok t = true -> forall s, In s (states t) <-> In s (cs_classes t).
Proof. intros t H s. split; [apply cs_state_classes|intro Hs; apply cs_classes_nodup_states; assumption]. Qed.
Print Assumptions C10_state_classes.

(* The context interface declares every guard, (action, event) signature and entry/exit hook the handlers call exactly
   once, the action taking the event class as its parameter; the event classes (with their members), the public
   Is<State>() / Trigger<Event>(parameters of the event) methods, the state enumeration, the base class's empty virtual
   handlers, the dispatch halves of the event classes and the state classes are each declared exactly once too --
   (declaration kind, name, parameter list) triples of [decls_file], which expands the declaration lines that
   translator/decltmpl.py finds inside the per-element blocks of TEMPLATEContext.cs / TEMPLATEStateMachine.cs /
   TEMPLATEInternals.cs (Gen/DeclTmpl.v) over the element lists, for every table and every event interface.
   No C# compiler exists here: member types and C# name lookup are not checked by anything; the check reads the same
   triples out of the real files by regex. *)
Theorem C10_context_decls : forall t i, forallb row_ok t = true ->
  forall f d, In (f, d) (refs_cs t i) -> dcount (decls_file f t i) d = 1.
Proof. exact cs_context_decls. Qed.
Print Assumptions C10_context_decls.

Definition ex_table : table :=
  [mkRow "SA" "EvX" "SB" "OnA" "GuardG"; mkRow "SA" "EvX" "SC" "OnB" "None"; mkRow "SB" "EvX" "" "OnB" "GuardG"].

Example C10_sem_nonvacuous :
  wf_table ex_table = true /\
  run_cs ex_table ["EvX"; "EvX"; "EvY"] (fun n _ => Nat.even n) =
    Some [([CEntry "SA" "EventStartup"], "SA");
          ([CGuard "GuardG" "EvX"; CExit "SA" "EvX"; CAction "OnA" "EvX"; CEntry "SB" "EvX"], "SB");
          ([CGuard "GuardG" "EvX"], "SB"); ([], "SB")].
Proof. vm_compute. split; reflexivity. Qed.
Print Assumptions C10_sem_nonvacuous.

(* both Triggers before the dispatch thread gets its first turn *)
Example C10_sem_threaded_nonvacuous :
  t_out (trun ex_table (fun n _ => Nat.even n) [true; true; false; false; false; false; false] (tinit ex_table ["EvX"; "EvX"])) =
    [([CEntry "SA" "EventStartup"], "SA");
     ([CGuard "GuardG" "EvX"; CExit "SA" "EvX"; CAction "OnA" "EvX"; CEntry "SB" "EvX"], "SB");
     ([CGuard "GuardG" "EvX"], "SB")].
Proof. vm_compute. reflexivity. Qed.
Print Assumptions C10_sem_threaded_nonvacuous.

Example C10_handlers_nonvacuous :
  cs_handler ex_table "SA" "EvX" =
    [TIf "GuardG"; TOpen; TExit "SA"; TAction "OnA"; TEnter "SB"; TSetState "SB"; TReturn; TClose;
     TOpen; TExit "SA"; TAction "OnB"; TEnter "SC"; TSetState "SC"; TReturn; TClose] /\
  step_rows_quiet (fun _ _ => false) 0 "SA" "EvX" (rows_for ex_table "SA" "EvX") =
    ([CGuard "GuardG" "EvX"; CExit "SA" "EvX"; CAction "OnB" "EvX"; CEntry "SC" "EvX"], "SC", 1).
Proof. vm_compute. split; reflexivity. Qed.
Print Assumptions C10_handlers_nonvacuous.

Example C10_context_decls_nonvacuous :
  In (FCsContext, (KCsAction, "OnB", ["EvX"])) (refs_cs ex_table [("EvX", ["int m0"])]) /\
  In (FCsInternals, (KCsStateClass, "SC", [])) (refs_cs ex_table [("EvX", ["int m0"])]) /\
  dcount (decls_file FCsContext ex_table [("EvX", ["int m0"])]) (KCsAction, "OnB", ["EvX"]) = 1 /\
  dcount (decls_file FCsSm ex_table [("EvX", ["int m0"])]) (KCsTrigger, "EvX", ["int m0"]) = 1.
Proof. vm_compute. repeat split; try reflexivity; repeat (first [left; reflexivity | right]). Qed.
Print Assumptions C10_context_decls_nonvacuous.

Example C10_state_classes_nonvacuous :
  forallb row_ok ex_table = true /\ cs_classes ex_table = ["SA"; "SB"; "SC"] /\ cs_handlers ex_table "SC" = [].
Proof. vm_compute. repeat split; reflexivity. Qed.
Print Assumptions C10_state_classes_nonvacuous.
