(* C14 -- The connection layer reassembles messages exactly under arbitrary fragmentation. *)
From Coq Require Import String Ascii List Bool Arith NArith ZArith.
From KV Require Import Lib.Str Lib.ByteSeq Gen.CxxConn Model.Conn Spec.StreamParse
                       Proofs.ByteSeqProofs Proofs.ConnProofs Proofs.StreamParseProofs Proofs.ConnSafe Proofs.ConnOversize.
(* not used by the statements below: Model.Proto is extracted into build/kmodel together with Model.Conn, so its .vo has to be
   rebuilt with this closure whenever Gen/CxxConn.v is regenerated *)
From KV Require Model.Proto.
Import ListNotations.
Open Scope N_scope.
Open Scope list_scope.

(* Every stream F0 M1 F1 ... Mn Fn of well-formed messages Mi (header with the preamble, any type id, PayloadSize = number of
   payload bytes that follow, arbitrary payload bytes; header + payload < 2^32) and fillers Fi free of the preamble's first
   byte, cut into chunks at ARBITRARY positions (any list of chunks whose concatenation is the stream; empty chunks allowed;
   each chunk length + 8 <= 2^32), fed chunk by chunk to OnDataReceived from the initial state, for ANY preamble bytes p0 p1
   (equal or not): the calls OnMessageReceived are exactly M1 ... Mn, each once, in order, byte-exact, nothing else; the call
   sequence ends normally (no out-of-bounds read of the data, no failed assert, the recursion terminates) and the
   fragment buffer is empty again. *)
Theorem C14_reassembly : forall p0 p1 items tail chunks,
  forallb (wf_item p0 p1) items = true -> filler_ok p0 tail = true -> forallb chunk_ok chunks = true ->
  concat chunks = stream_of items tail ->
  feed p0 p1 init chunks = Done init (map snd items).
Proof. exact reassembly. Qed.
Print Assumptions C14_reassembly.

(* The same at every intermediate point: after the chunks received so far (any prefix of the stream) exactly the messages
   completely contained in them have been delivered; the fragment buffer holds a proper prefix of the next message or nothing. *)
Theorem C14_reassembly_prefix : forall p0 p1 items tail chunks fut,
  forallb (wf_item p0 p1) items = true -> filler_ok p0 tail = true -> forallb chunk_ok chunks = true ->
  concat chunks ++ fut = stream_of items tail ->
  exists st ds rest items' tail',
    feed p0 p1 init chunks = Done st ds /\
    map snd items = ds ++ cur_msgs (buf st) rest ++ map snd items' /\
    fut = rest ++ stream_of items' tail' /\
    (buf st = [] -> rest = [] /\ required st = 0) /\ (buf st <> [] -> rest <> []) /\
    forallb (wf_item p0 p1) items' = true /\ filler_ok p0 tail' = true.
Proof. exact reassembly_prefix. Qed.
Print Assumptions C14_reassembly_prefix.

(* The deliveries depend on the concatenated bytes only (the specification-side parser of the whole stream). *)
Theorem C14_chunking_unobservable : forall p0 p1 items tail chunks,
  forallb (wf_item p0 p1) items = true -> filler_ok p0 tail = true -> forallb chunk_ok chunks = true ->
  concat chunks = stream_of items tail ->
  feed p0 p1 init chunks = Done init (stream_parse p0 (concat chunks)).
Proof. exact reassembly_is_stream_parse. Qed.
Print Assumptions C14_chunking_unobservable.

(* A raw-data receiver sees every non-empty chunk unmodified, in order, and nothing else (count = 0 returns at once). *)
Theorem C14_raw : forall chunks,
  feed_raw chunks = filter (fun c => negb (len c =? 0)) chunks /\ concat (feed_raw chunks) = concat chunks.
Proof. intros chunks. split; [apply raw_exact | apply raw_bytes]. Qed.
Print Assumptions C14_raw.

(* SAFETY ON EVERY INPUT (the repaired code): arbitrary bytes -- no well-formedness whatsoever --, arbitrary preamble,
   arbitrary chunking (every chunk length + 8 <= 2^32): feeding the chunks from the initial state always ends normally, i.e.
   never reads outside the received data (OutOfBounds), never fails an assert (AssertFailed) and every call of OnDataReceived
   terminates within fuel 2*count+2 (OutOfFuel is not returned); the state reached satisfies the invariant [inv]. *)
Theorem C14_safe : forall p0 p1 chunks,
  forallb chunk_ok chunks = true ->
  exists st ds, feed p0 p1 init chunks = Done st ds /\ inv p0 p1 st.
Proof. exact safe_on_every_input. Qed.
Print Assumptions C14_safe.

Corollary C14_never_fails : forall p0 p1 chunks e ds,
  forallb chunk_ok chunks = true -> feed p0 p1 init chunks <> Fail e ds.
Proof.
  intros p0 p1 chunks e ds Hc H. destruct (safe_on_every_input p0 p1 chunks Hc) as (st & ds' & E & _). congruence.
Qed.
Print Assumptions C14_never_fails.

(* The inputs of the repaired defects K-C14-1 / K-C14-2: a header announcing 2^32 - 8 payload bytes is discarded (also when
   split over chunks), a message behind it is delivered; the FF-garbage that caused the 4 GiB read is rescanned. *)
Example C14_oversize_header_discarded :
  oversize (payload_size oversize_header) = true /\
  feed os_p0 os_p1 init [oversize_header] = Done init [] /\
  feed os_p0 os_p1 init [oversize_header ++ os_msg] = Done init [os_msg] /\
  feed os_p0 os_p1 init [firstn 3 oversize_header; skipn 3 oversize_header ++ os_msg] = Done init [os_msg] /\
  feed ff ff init [[ff; ff]; [ff; ff; ff; ff; ff; ff; Ascii.zero]] = Done (mkSt [ff; ff; ff; ff; ff; ff; Ascii.zero] 0) [].
Proof.
  destruct oversize_header_fields as (_ & _ & H). destruct oversize_header_discarded as (A & B & C).
  repeat split; auto; exact oversize_garbage_discarded.
Qed.
Print Assumptions C14_oversize_header_discarded.

(* ---- non-vacuity: a stream with fillers, an empty payload, payloads made of preamble look-alikes, equal preamble bytes ---- *)
Definition ex_b (n : N) : byte := ascii_of_N n.
Definition ex_msg (p0 p1 : byte) (payload : list byte) : list byte :=
  [p0; p1; ex_b 7; ex_b 0] ++ le_encode 4 (len payload) ++ payload.
Definition ex_items' (p0 p1 fb : byte) : list (list byte * list byte) :=
  [([ex_b 1; fb; ex_b 0], ex_msg p0 p1 [p0; p1; p0; p0; p1]);
   ([], ex_msg p0 p1 []);
   ([fb], ex_msg p0 p1 [p0])].
Definition ex_items (p0 p1 : byte) := ex_items' p0 p1 (if Ascii.eqb p0 p1 then ex_b 2 else p1).
Definition ex_chunks (p0 p1 : byte) : list (list byte) :=
  let s := stream_of (ex_items p0 p1) [ex_b 9] in
  [firstn 4 s; []; firstn 1 (skipn 4 s); firstn 9 (skipn 5 s); firstn 11 (skipn 14 s); skipn 25 s].

Example C14_reassembly_nonvacuous :
  let p0 := ex_b 170 in let p1 := ex_b 85 in
  forallb (wf_item p0 p1) (ex_items p0 p1) = true /\ filler_ok p0 [ex_b 9] = true /\
  forallb chunk_ok (ex_chunks p0 p1) = true /\ concat (ex_chunks p0 p1) = stream_of (ex_items p0 p1) [ex_b 9] /\
  feed p0 p1 init (ex_chunks p0 p1) = Done init (map snd (ex_items p0 p1)) /\
  length (map snd (ex_items p0 p1)) = 3%nat.
Proof. vm_compute. repeat split; reflexivity. Qed.
Print Assumptions C14_reassembly_nonvacuous.

Example C14_reassembly_nonvacuous_equal_preamble_bytes :
  let p0 := ex_b 126 in let p1 := ex_b 126 in
  forallb (wf_item p0 p1) (ex_items p0 p1) = true /\ filler_ok p0 [ex_b 9] = true /\
  forallb chunk_ok (ex_chunks p0 p1) = true /\ concat (ex_chunks p0 p1) = stream_of (ex_items p0 p1) [ex_b 9] /\
  feed p0 p1 init (ex_chunks p0 p1) = Done init (map snd (ex_items p0 p1)).
Proof. vm_compute. repeat split; reflexivity. Qed.
Print Assumptions C14_reassembly_nonvacuous_equal_preamble_bytes.
