(* C14 -- The connection layer reassembles messages exactly under arbitrary fragmentation. *)
From Coq Require Import String Ascii List Bool Arith NArith ZArith.
From KV Require Import Lib.Str Lib.ByteSeq Gen.CxxConn Model.Conn Spec.StreamParse
                       Proofs.ByteSeqProofs Proofs.ConnProofs Proofs.StreamParseProofs Proofs.ConnSafe Proofs.ConnOversize
                       Model.ConnArm Proofs.ConnArmSafe Proofs.ConnArmProofs.
(* not used by the statements below: Model.Proto is extracted into build/kmodel together with Model.Conn, so its .vo has to be
   rebuilt with this closure whenever Gen/CxxConn.v is regenerated *)
From KV Require Model.Proto.
Import ListNotations.
Open Scope N_scope.
Open Scope list_scope.

(* Every stream F0 M1 F1 ... Mn Fn of well-formed messages Mi (header with the preamble, any type id, PayloadSize = number of
   payload bytes that follow, arbitrary payload bytes; header + payload < 2^32) and fillers Fi free of the preamble's first
   byte, cut into chunks at ARBITRARY positions (any list of chunks whose concatenation is the stream; empty chunks allowed;
   each chunk length + 8 <= 2^32), fed chunk by chunk to OnDataReceived from the initial state, for ANY preamble bytes p0 p1
   (equal or not): the calls OnMessageReceived are exactly M1 ... Mn, each once, in order, byte-exact, nothing else; the call
   sequence ends normally (no out-of-bounds read of the data, no failed assert, the recursion terminates) and the
   fragment buffer is empty again. *)
Theorem C14_reassembly : forall p0 p1 items tail chunks,
  forallb (wf_item p0 p1) items = true -> filler_ok p0 tail = true -> forallb chunk_ok chunks = true ->
  concat chunks = stream_of items tail ->
  feed p0 p1 init chunks = Done init (map snd items).
Proof. exact reassembly. Qed.
Print Assumptions C14_reassembly.

(* The same at every intermediate point: after the chunks received so far (any prefix of the stream) exactly the messages
   completely contained in them have been delivered; the fragment buffer holds a proper prefix of the next message or nothing. *)
Theorem C14_reassembly_prefix : forall p0 p1 items tail chunks fut,
  forallb (wf_item p0 p1) items = true -> filler_ok p0 tail = true -> forallb chunk_ok chunks = true ->
  concat chunks ++ fut = stream_of items tail ->
  exists st ds rest items' tail',
    feed p0 p1 init chunks = Done st ds /\
    map snd items = ds ++ cur_msgs (buf st) rest ++ map snd items' /\
    fut = rest ++ stream_of items' tail' /\
    (buf st = [] -> rest = [] /\ required st = 0) /\ (buf st <> [] -> rest <> []) /\
    forallb (wf_item p0 p1) items' = true /\ filler_ok p0 tail' = true.
Proof. exact reassembly_prefix. Qed.
Print Assumptions C14_reassembly_prefix.

(* The deliveries depend on the concatenated bytes only (the specification-side parser of the whole stream). *)
Theorem C14_chunking_unobservable : forall p0 p1 items tail chunks,
  forallb (wf_item p0 p1) items = true -> filler_ok p0 tail = true -> forallb chunk_ok chunks = true ->
  concat chunks = stream_of items tail ->
  feed p0 p1 init chunks = Done init (stream_parse p0 (concat chunks)).
Proof. exact reassembly_is_stream_parse. Qed.
Print Assumptions C14_chunking_unobservable.

(* A raw-data receiver sees every non-empty chunk unmodified, in order, and nothing else (count = 0 returns at once). *)
Theorem C14_raw : forall chunks,
  feed_raw chunks = filter (fun c => negb (len c =? 0)) chunks /\ concat (feed_raw chunks) = concat chunks.
Proof. intros chunks. split; [apply raw_exact | apply raw_bytes]. Qed.
Print Assumptions C14_raw.

(* SAFETY ON EVERY INPUT (the repaired code): arbitrary bytes -- no well-formedness whatsoever --, arbitrary preamble,
   arbitrary chunking (every chunk length + 8 <= 2^32): feeding the chunks from the initial state always ends normally, i.e.
   never reads outside the received data (OutOfBounds), never fails an assert (AssertFailed) and every call of OnDataReceived
   terminates within fuel 2*count+2 (OutOfFuel is not returned); the state reached satisfies the invariant [inv]. *)
Theorem C14_safe : forall p0 p1 chunks,
  forallb chunk_ok chunks = true ->
  exists st ds, feed p0 p1 init chunks = Done st ds /\ inv p0 p1 st.
Proof. exact safe_on_every_input. Qed.
Print Assumptions C14_safe.

Corollary C14_never_fails : forall p0 p1 chunks e ds,
  forallb chunk_ok chunks = true -> feed p0 p1 init chunks <> Fail e ds.
Proof.
  intros p0 p1 chunks e ds Hc H. destruct (safe_on_every_input p0 p1 chunks Hc) as (st & ds' & E & _). congruence.
Qed.
Print Assumptions C14_never_fails.

(* The inputs of the repaired defects K-C14-1 / K-C14-2: a header announcing 2^32 - 8 payload bytes is discarded (also when
   split over chunks), a message behind it is delivered; the FF-garbage that caused the 4 GiB read is rescanned. *)
Example C14_oversize_header_discarded :
  oversize (payload_size oversize_header) = true /\
  feed os_p0 os_p1 init [oversize_header] = Done init [] /\
  feed os_p0 os_p1 init [oversize_header ++ os_msg] = Done init [os_msg] /\
  feed os_p0 os_p1 init [firstn 3 oversize_header; skipn 3 oversize_header ++ os_msg] = Done init [os_msg] /\
  feed ff ff init [[ff; ff]; [ff; ff; ff; ff; ff; ff; Ascii.zero]] = Done (mkSt [ff; ff; ff; ff; ff; ff; Ascii.zero] 0) [].
Proof.
  destruct oversize_header_fields as (_ & _ & H). destruct oversize_header_discarded as (A & B & C).
  repeat split; auto; exact oversize_garbage_discarded.
Qed.
Print Assumptions C14_oversize_header_discarded.

(* ---- non-vacuity: a stream with fillers, an empty payload, payloads made of preamble look-alikes, equal preamble bytes ---- *)
Definition ex_b (n : N) : byte := ascii_of_N n.
Definition ex_msg (p0 p1 : byte) (payload : list byte) : list byte :=
  [p0; p1; ex_b 7; ex_b 0] ++ le_encode 4 (len payload) ++ payload.
Definition ex_items' (p0 p1 fb : byte) : list (list byte * list byte) :=
  [([ex_b 1; fb; ex_b 0], ex_msg p0 p1 [p0; p1; p0; p0; p1]);
   ([], ex_msg p0 p1 []);
   ([fb], ex_msg p0 p1 [p0])].
Definition ex_items (p0 p1 : byte) := ex_items' p0 p1 (if Ascii.eqb p0 p1 then ex_b 2 else p1).
Definition ex_chunks (p0 p1 : byte) : list (list byte) :=
  let s := stream_of (ex_items p0 p1) [ex_b 9] in
  [firstn 4 s; []; firstn 1 (skipn 4 s); firstn 9 (skipn 5 s); firstn 11 (skipn 14 s); skipn 25 s].

Example C14_reassembly_nonvacuous :
  let p0 := ex_b 170 in let p1 := ex_b 85 in
  forallb (wf_item p0 p1) (ex_items p0 p1) = true /\ filler_ok p0 [ex_b 9] = true /\
  forallb chunk_ok (ex_chunks p0 p1) = true /\ concat (ex_chunks p0 p1) = stream_of (ex_items p0 p1) [ex_b 9] /\
  feed p0 p1 init (ex_chunks p0 p1) = Done init (map snd (ex_items p0 p1)) /\
  length (map snd (ex_items p0 p1)) = 3%nat.
Proof. vm_compute. repeat split; reflexivity. Qed.
Print Assumptions C14_reassembly_nonvacuous.

Example C14_reassembly_nonvacuous_equal_preamble_bytes :
  let p0 := ex_b 126 in let p1 := ex_b 126 in
  forallb (wf_item p0 p1) (ex_items p0 p1) = true /\ filler_ok p0 [ex_b 9] = true /\
  forallb chunk_ok (ex_chunks p0 p1) = true /\ concat (ex_chunks p0 p1) = stream_of (ex_items p0 p1) [ex_b 9] /\
  feed p0 p1 init (ex_chunks p0 p1) = Done init (map snd (ex_items p0 p1)).
Proof. vm_compute. repeat split; reflexivity. Qed.
Print Assumptions C14_reassembly_nonvacuous_equal_preamble_bytes.

(* ================= the __arm__ configuration (Model/ConnArm.v: fixed buffer of FRAGMENT_BUF_SIZE = cap bytes, uint16 count) ================= *)

(* Reassembly: for ANY LargestMessageSize() the receiver announces (largest = that value as a uint16, capped at the buffer size),
   every well-formed stream whose messages are at most `largest` bytes long, cut into chunks of at most cap - largest + 1 bytes
   (so that a chunk plus the at most largest-1 pending bytes never exceeds the buffer: the code sets the exceed flag when
   count + pending > FRAGMENT_BUF_SIZE and then stops copying), is delivered exactly; the connection ends idle. *)
Theorem C14_reassembly_arm : forall p0 p1 lms items tail chunks,
  let largest := eff_largest lms in
  forallb (wf_item p0 p1) items = true -> forallb (msg_fits largest) items = true -> filler_ok p0 tail = true ->
  forallb (chunk_fits largest) chunks = true ->
  concat chunks = stream_of items tail ->
  exists sa, feed_arm p0 p1 largest ainit chunks = ADone sa (map snd items) /\
             cnt sa = 0 /\ areq sa = 0 /\ exc sa = false.
Proof. exact reassembly_arm. Qed.
Print Assumptions C14_reassembly_arm.

(* Safety of the repaired __arm__ code on EVERY input (arbitrary bytes, arbitrary chunking, arbitrary announced largest message
   size): never a read outside the received data or the fixed buffer, never a write past the buffer, never a failed assert,
   every call terminates within fuel 2*count+2. *)
Theorem C14_safe_arm : forall p0 p1 lms chunks,
  forallb achunk_ok chunks = true ->
  exists st ds, feed_arm p0 p1 (eff_largest lms) ainit chunks = ADone st ds /\ ainv p0 p1 (eff_largest lms) st.
Proof. exact arm_safe_on_every_input. Qed.
Print Assumptions C14_safe_arm.

(* The chunk bound of C14_reassembly_arm is forced (known finding K-C14-3): with largest = cap = 512, a 100 byte message of
   which 50 bytes are pending and a next chunk of 500 bytes (50 + 500 > 512): the pending message is lost (parsed over),
   only the messages behind it are delivered -- although every message fits and the stream is well-formed. *)
Definition k3_b (n : N) : byte := ascii_of_N n.
Definition k3_msg (payload : N) : list byte :=
  [k3_b 170; k3_b 85; k3_b 1; k3_b 0] ++ le_encode 4 payload ++ repeat (k3_b 7) (N.to_nat payload).
Definition k3_stream : list byte := k3_msg 92 ++ concat (repeat (k3_msg 20) 16) ++ firstn 2 (k3_msg 20).
Definition k3_chunks : list (list byte) := [firstn 50 k3_stream; skipn 50 k3_stream].

Theorem C14_reassembly_arm_chunk_bound_refuted :
  len (k3_msg 92) = 100 /\ wf_msg (k3_b 170) (k3_b 85) (k3_msg 92) = true /\ msg_fits (eff_largest 512) ([], k3_msg 92) = true /\
  map len k3_chunks = [50; 500] /\
  exists sa, feed_arm (k3_b 170) (k3_b 85) (eff_largest 512) ainit k3_chunks = ADone sa (repeat (k3_msg 20) 16).
Proof. repeat split; try (vm_compute; reflexivity). eexists. vm_compute. reflexivity. Qed.
Print Assumptions C14_reassembly_arm_chunk_bound_refuted.

Example C14_reassembly_arm_nonvacuous :
  let p0 := ex_b 170 in let p1 := ex_b 85 in let largest := eff_largest 64 in
  forallb (wf_item p0 p1) (ex_items p0 p1) = true /\ forallb (msg_fits largest) (ex_items p0 p1) = true /\
  forallb (chunk_fits largest) (ex_chunks p0 p1) = true /\
  concat (ex_chunks p0 p1) = stream_of (ex_items p0 p1) [ex_b 9] /\
  exists sa, feed_arm p0 p1 largest ainit (ex_chunks p0 p1) = ADone sa (map snd (ex_items p0 p1)).
Proof. repeat split; try (vm_compute; reflexivity). eexists. vm_compute. reflexivity. Qed.
Print Assumptions C14_reassembly_arm_nonvacuous.

