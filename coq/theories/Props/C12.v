(* C12 -- Protocol structs are padding-free; factories yield declared header and defaults; arguments land in
   the field of the same name.  Only statements, each closed by [exact], each followed by Print Assumptions.

   Reading guide.  [i : iface] is the interface definition as kojentypes holds it (structs in registration order,
   nested struct OBJECTS as trees, defaults as the strings LanguageCPP pastes).  [emit i] is the model of what
   kojentypes/LanguageCPP/smgen write into Protocol.h / <cls>.h / <cls>.cpp (compared with the real text on every
   run).  [layout_of], [call] are the model of GCC's struct layout and of C++ aggregate initialisation / default
   arguments on x86-64 (compared with g++ on every run).  [hdr_spec], [struct_spec], [msg_spec], [msg_value],
   [struct_value] (Spec/LayoutSpec.v) are read off the interface definition alone.
   [wf_iface] is the boolean input domain (see ASSUMPTIONS of harness/props/c12.py). *)
From Coq Require Import String Ascii List Bool NArith ZArith.
From KV Require Import Model.CValue Model.Layout Model.ProtoLang Spec.LayoutSpec
                       Proofs.LayoutBasics Proofs.LayoutEnv Proofs.LayoutPacked Proofs.LayoutFactory
                       Gen.LayoutSrc Proofs.LayoutSource.
Import ListNotations.
Open Scope string_scope.
Open Scope list_scope.

(* "The generated C++ compiles" -- PARTIAL: only in the sense that the model of C++ gives the emitted declarations a
   meaning (every member type is declared before it is used, no name is declared twice), and that meaning is exactly
   the environment of the specification.  Acceptance by g++ is observed on every case of the check, not proved. *)
Theorem C12_compiles_in_model_partial : forall i, wf_iface i = true ->
  build_env [] (cg_decls (emit i)) = Some (spec_env i).
Proof. exact env_exact. Qed.
Print Assumptions C12_compiles_in_model_partial.

(* Padding-free: the protocol header, every struct and every message of every well-formed interface has, in the
   generated program, exactly the layout [packed_info]: *)
Theorem C12_packed : forall i, wf_iface i = true ->
  layout_of (emit i) hdr_name = Some hdr_spec
  /\ (forall s, In s (i_structs i) -> layout_of (emit i) (s_name s) = Some (struct_spec s))
  /\ (forall m, In m (i_msgs i) -> layout_of (emit i) (m_name m) = Some (msg_spec m)).
Proof. exact packed_layouts. Qed.
Print Assumptions C12_packed.

(* ... where a [packed_info] has alignof 1, sizeof = the sum of the member sizes (no tail padding), the members in
   declaration order with their declared names and types, member k at offset = sum of the sizes of members 0..k-1 *)
Theorem C12_packed_meaning : forall l,
  let info := packed_info l in
  si_align info = 1%N
  /\ si_size info = sumN (map fi_size (si_fields info))
  /\ map (fun f => (fi_name f, fi_ty f, fi_size f)) (si_fields info) = l
  /\ (forall k f, nth_error (si_fields info) k = Some f -> fi_off f = sumN (map fi_size (firstn k (si_fields info)))).
Proof. exact packed_info_meaning. Qed.
Print Assumptions C12_packed_meaning.

(* ... and the size recorded for each member is sizeof(its type) in the generated program (so that "sum of the
   members' sizes" is meant recursively, through any nesting depth), the header having 8 bytes *)
Theorem C12_member_sizes : forall i, wf_iface i = true -> forall e, build_env [] (cg_decls (emit i)) = Some e ->
  (forall s m, In s (i_structs i) -> In m (s_members s) -> sizeof e (mem_ty m) = Some (m_size m))
  /\ (forall g m, In g (i_msgs i) -> In m (m_members g) -> sizeof e (mem_ty m) = Some (m_size m))
  /\ sizeof e hdr_name = Some hdr_size.
Proof. exact member_sizes. Qed.
Print Assumptions C12_member_sizes.

(* The constants of the model are the constants of the source as it is now (Gen/LayoutSrc.v, regenerated on every
   run): header struct name, name of the header member of a message, header fields (names, types, order), and the
   integer typedefs of basetypes.h (GCC/LP64 branch) have the sizes and signedness Model/CValue assumes. *)
Theorem C12_source_constants :
  src_hdr_name = hdr_name /\ src_hdr_member = hdr_member
  /\ src_hdr_fields = map (fun f => (fst f, prim_name (snd f))) hdr_fields
  /\ forallb typedef_ok all_prims = true.
Proof. exact source_constants. Qed.
Print Assumptions C12_source_constants.

(* ---- non-vacuity: three nesting levels, all eleven primitive types, defaults present / absent / empty at every level *)
Definition ex_inner : list member :=
  [MPrim "a" U8 (Some "5"); MPrim "b" U64 None; MPrim "c" PBool (Some "true"); MPrim "z" I32 (Some "")].
Definition ex_mid : list member :=
  [MPrim "x" F64 (Some "1.5"); MStruct "in1" "sInner" ex_inner; MPrim "y" I16 (Some "-3"); MPrim "w" U16 (Some "0xBEEF")].
Definition ex_outer : list member :=
  [MStruct "mid" "sMid" ex_mid; MPrim "f" F32 (Some "0.1"); MStruct "in2" "sInner" ex_inner; MPrim "g" I64 None; MPrim "h" I8 (Some "-128")].
Definition ex_iface : iface :=
  {| i_preamble := 48879;
     i_structs := [ {| s_name := "sInner"; s_members := ex_inner |}; {| s_name := "sMid"; s_members := ex_mid |};
                    {| s_name := "sOuter"; s_members := ex_outer |} ];
     i_msgs := [ {| m_name := "MsgA"; m_id := 7; m_members := [MPrim "q" U32 (Some "9"); MStruct "o" "sOuter" ex_outer; MPrim "t" I8 None] |};
                 {| m_name := "MsgEmpty"; m_id := 65535; m_members := [] |} ] |}.

Example C12_packed_nonvacuous :
  wf_iface ex_iface = true
  /\ option_map si_size (layout_of (emit ex_iface) "MsgA") = Some 66%N
  /\ option_map si_align (layout_of (emit ex_iface) "sOuter") = Some 1%N
  /\ option_map (fun s => map fi_off (si_fields s)) (layout_of (emit ex_iface) "sOuter") = Some [0; 26; 30; 44; 52]%N.
Proof. vm_compute. repeat split; reflexivity. Qed.
Print Assumptions C12_packed_nonvacuous.

(* Factories.  [call (emit i) "Create<M>" args] = the bytes of the object the generated factory returns when it is
   called with the first [length args] arguments, each argument being ANY object of the parameter's type (given
   by its bytes: only its size is constrained), the remaining parameters taking their generated default arguments.
   [msg_value i m args] = header {preamble, id, payload size = sizeof(M) - 8} ++ the arguments ++ the DECLARED
   defaults of the remaining members (zero where none), nested structs flattened through any depth. *)
Theorem C12_factory : forall i, wf_iface i = true -> forall m, In m (i_msgs i) ->
  forall args,
  (length args <= length (m_members m))%nat ->
  Forall2 (fun x a => N.of_nat (length a) = m_size x) (firstn (length args) (m_members m)) args ->
  call (emit i) ("Create" ++ m_name m) args = Some (msg_value i m args).
Proof. exact msg_factory_value. Qed.
Print Assumptions C12_factory.

(* called without arguments: interface preamble, the message's type id, payload size, every field at its default *)
Theorem C12_defaults : forall i, wf_iface i = true -> forall m, In m (i_msgs i) ->
  call (emit i) ("Create" ++ m_name m) []
  = Some (hdr_bytes (i_preamble i) (m_id m) (Z.of_N (si_size (msg_spec m) - hdr_size))
          ++ concat (map default_bytes (m_members m))).
Proof. exact msg_defaults. Qed.
Print Assumptions C12_defaults.

(* called with all arguments: header ++ the arguments, and argument j is found in the member of the same name *)
Theorem C12_args : forall i, wf_iface i = true -> forall m, In m (i_msgs i) ->
  forall args, Forall2 (fun x a => N.of_nat (length a) = m_size x) (m_members m) args ->
  call (emit i) ("Create" ++ m_name m) args
  = Some (hdr_bytes (i_preamble i) (m_id m) (Z.of_N (ms_size (m_members m))) ++ concat args)
  /\ forall j a x f, nth_error args j = Some a -> nth_error (m_members m) j = Some x ->
       nth_error (si_fields (msg_spec m)) (S j) = Some f ->
       fi_name f = mem_name x /\ field_bytes (msg_spec m) (S j) (msg_value i m args) = a.
Proof. exact msg_args. Qed.
Print Assumptions C12_args.

(* the payload-struct factories (Create<sStruct>) obey the same law, without header *)
Theorem C12_struct_factory : forall i, wf_iface i = true -> forall s, In s (i_structs i) ->
  forall args,
  (length args <= length (s_members s))%nat ->
  Forall2 (fun x a => N.of_nat (length a) = m_size x) (firstn (length args) (s_members s)) args ->
  call (emit i) ("Create" ++ s_name s) args = Some (struct_value s args).
Proof. exact struct_factory_value. Qed.
Print Assumptions C12_struct_factory.

Example C12_factory_nonvacuous :
  wf_iface ex_iface = true
  /\ In {| m_name := "MsgA"; m_id := 7; m_members := [MPrim "q" U32 (Some "9"); MStruct "o" "sOuter" ex_outer; MPrim "t" I8 None] |} (i_msgs ex_iface)
  /\ option_map (map N_of_ascii) (call (emit ex_iface) "CreateMsgA" [])
     = Some [239; 190; 7; 0; 58; 0; 0; 0;  9; 0; 0; 0;
             0; 0; 0; 0; 0; 0; 248; 63;  5;  0; 0; 0; 0; 0; 0; 0; 0;  1;  0; 0; 0; 0;  253; 255;  239; 190;
             205; 204; 204; 61;  5;  0; 0; 0; 0; 0; 0; 0; 0;  1;  0; 0; 0; 0;  0; 0; 0; 0; 0; 0; 0; 0;  128;  0]%N
  /\ option_map (map N_of_ascii) (call (emit ex_iface) "CreateMsgA" [le_bytes 4 305419896])
     = option_map (map N_of_ascii) (Some (msg_value ex_iface
          {| m_name := "MsgA"; m_id := 7; m_members := [MPrim "q" U32 (Some "9"); MStruct "o" "sOuter" ex_outer; MPrim "t" I8 None] |}
          [le_bytes 4 305419896])).
Proof. vm_compute. repeat split; auto. Qed.
Print Assumptions C12_factory_nonvacuous.

(* The hypotheses are needed (the faithful model refutes the statement without them):
   (1) a struct without members has sizeof 1, not 0 (K-C12-2);  (2) a message id beyond uint16 is a narrowing error, the
   factory has no meaning (K-C12-1);  (3) a struct registered after its user is used before its declaration (K-C12-3). *)
Definition ex_empty_struct : iface :=
  {| i_preamble := 1; i_structs := [ {| s_name := "sEmpty"; s_members := [] |} ]; i_msgs := [] |}.
Definition ex_big_id : iface :=
  {| i_preamble := 1; i_structs := []; i_msgs := [ {| m_name := "MsgBig"; m_id := 70000; m_members := [] |} ] |}.
Definition ex_order : iface :=
  {| i_preamble := 1;
     i_structs := [ {| s_name := "sOut"; s_members := [MStruct "i" "sIn" [MPrim "a" U8 None]] |};
                    {| s_name := "sIn"; s_members := [MPrim "a" U8 None] |} ];
     i_msgs := [] |}.

Example C12_packed_refuted_without_wf :
  (exists i s, In s (i_structs i) /\ layout_of (emit i) (s_name s) <> Some (struct_spec s)
               /\ option_map si_size (layout_of (emit i) (s_name s)) = Some 1%N)
  /\ (exists i, call (emit i) "CreateMsgBig" [] = None /\ wf_iface i = false)
  /\ (exists i, build_env [] (cg_decls (emit i)) = None /\ wf_iface i = false).
Proof.
  split; [|split].
  - exists ex_empty_struct, {| s_name := "sEmpty"; s_members := [] |}. vm_compute. repeat split; auto; discriminate.
  - exists ex_big_id. vm_compute. split; reflexivity.
  - exists ex_order. vm_compute. split; reflexivity.
Qed.
Print Assumptions C12_packed_refuted_without_wf.
