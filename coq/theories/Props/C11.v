(* C11 -- Threaded Python state machine: exactly-once FIFO, run to completion, stop() ends.
   The LTS (Model/PyThreads.v) runs the synchronisation skeleton translated from the template as it is now
   (Gen/PySync.v); [reach] = reachable under ANY schedule of main (constructor, own triggers, stop()), the worker and
   any number of producers with any scripts, events triggering further events from their callbacks; a get() with
   time-out may time out whenever the queue is empty.  Hypothesis wf_config: the machine is generated in threaded mode. *)
From Coq Require Import String List Bool Arith NArith.
From KV Require Import Model.PySyncIR Model.PyThreads Model.PyMachine Gen.PySync Spec.PyThreadsSpec
                       Proofs.PyThreadsInv Proofs.PyThreadsSim Proofs.PyThreadsTop Proofs.PyThreadsOld.
Import ListNotations.
Open Scope list_scope.

(* Every put is taken exactly once and in put order, and nothing else is ever processed: the sequence of events whose
   process() has begun, followed by the (at most one) event the worker has taken but not begun, followed by the queue,
   IS the sequence of all puts so far.  (Each Trigger call yields exactly one put: C11_per_producer_order.) *)
Theorem C11_exactly_once : forall c s, wf_config c = true -> reach the_prog c s ->
  exists infl, length infl <= 1 /\ begun (log (sh s)) ++ infl ++ queue (sh s) = map snd (puts (sh s)).
Proof. exact exactly_once. Qed.
Print Assumptions C11_exactly_once.

(* Identities: with pairwise distinct event identities in the scenario (wf_config), no identity is ever processed
   twice, and only identities of the scenario are processed. *)
Theorem C11_at_most_once_ids : forall c s, wf_config c = true -> reach the_prog c s ->
  NoDup (map ev_id (begun (log (sh s)))) /\ forall e, In e (begun (log (sh s))) -> In (ev_id e) (all_ids c).
Proof. exact at_most_once_ids. Qed.
Print Assumptions C11_at_most_once_ids.

(* ... and every event gets there (without stop(), or before it): in EVERY reachable state every step of every thread
   decreases [rank] except idle turns of the worker on an empty queue, and as long as the queue is non-empty the started
   worker has an enabled step, which decreases the rank.  With C11_exactly_once (FIFO) and a fair scheduler every queued
   event is therefore taken and processed; after stop() this is C11_stop_post. *)
Theorem C11_processing_progress : forall c s, wf_config c = true -> reach the_prog c s ->
  (forall t s' l, step the_prog (threaded c) t s = Some (s', l) -> rank s' < rank s \/ (rank s' = rank s /\ idle_step s t l)) /\
  (queue (sh s) <> [] -> started (sh s) = true -> finished (tworker s) = false ->
   exists s' l, step the_prog (threaded c) 1 s = Some (s', l) /\ rank s' < rank s).
Proof. exact processing_progress. Qed.
Print Assumptions C11_processing_progress.

(* The processed sequence is a prefix of the put sequence; the puts of each thread are a prefix of what that thread
   triggers, in its order: main's and every producer's script, and for the worker (events triggered from inside
   callbacks) the children of the processed events in processing order. *)
Theorem C11_per_producer_order : forall c s, wf_config c = true -> reach the_prog c s ->
  prefix (begun (log (sh s))) (map snd (puts (sh s))) /\
  prefix (puts_by 0 (puts (sh s))) (mscript c) /\
  (forall i sc, nth_error (pscripts c) i = Some sc -> prefix (puts_by (2 + i) (puts (sh s))) sc) /\
  prefix (puts_by 1 (puts (sh s))) (flat_map ev_children (begun (log (sh s)))).
Proof. exact per_producer_order. Qed.
Print Assumptions C11_per_producer_order.

(* One at a time, on the worker thread: the log is a sequence of closed (begin e, end e) pairs of thread 1, possibly
   followed by one open begin. *)
Theorem C11_run_to_completion : forall c s, wf_config c = true -> reach the_prog c s ->
  exists d o, log (sh s) = plog d ++ o /\ (o = [] \/ exists e, o = [LBegin 1 e]).
Proof. exact run_to_completion. Qed.
Print Assumptions C11_run_to_completion.

(* stop() makes progress under every schedule.  Once stop() has been called and has not returned:
   (1) no deadlock: main (the stopper) or the worker can move;
   (2) the explicit measure [rank] (Spec/PyThreadsSpec.v) strictly decreases with EVERY step of EVERY thread, except
       the idle turns of the worker's polling loop while the queue is empty (get() timing out, re-reading the loop
       condition), which leave it unchanged;
   (3) an idle turn never blocks: whenever the worker takes a step that leaves the rank unchanged, either main has an
       enabled (hence decreasing) step, or the worker's next step decreases the rank.
   Hence an execution in which stop() never returns would consist, from some point on, of idle turns of the worker
   only, while main stays enabled for ever: stop() returns under any scheduler that does not starve an enabled thread
   for ever (weak fairness) -- the only liveness assumption.  Producers' steps are covered by (2): rank also counts
   what is left of every script, so a (finite) burst of triggers during stop() cannot postpone it for ever. *)
Theorem C11_stop_progress : forall c s, wf_config c = true -> reach the_prog c s ->
  stop_called (sh s) = true -> stop_returned (sh s) = false ->
  (exists t s' l, (t = 0 \/ t = 1) /\ step the_prog (threaded c) t s = Some (s', l)) /\
  (forall t s' l, step the_prog (threaded c) t s = Some (s', l) ->
     rank s' < rank s \/ (rank s' = rank s /\ idle_step s t l)) /\
  (forall s' l, step the_prog (threaded c) 1 s = Some (s', l) -> rank s' = rank s ->
     (exists s'' l', step the_prog (threaded c) 0 s = Some (s'', l')) \/
     (exists s'' l', step the_prog (threaded c) 1 s' = Some (s'', l') /\ rank s'' < rank s')).
Proof. exact stop_progress. Qed.
Print Assumptions C11_stop_progress.

(* When stop() has returned: the worker thread has finished; every event put before stop() was called has been
   processed to completion; and in every continuation (producers may go on triggering) the log never changes again. *)
Theorem C11_stop_post : forall c s, wf_config c = true -> reach the_prog c s -> stop_returned (sh s) = true ->
  finished (tworker s) = true /\
  (forall te, In te (pre_stop (sh s)) -> In (LBegin 1 (snd te)) (log (sh s)) /\ In (LEnd 1 (snd te)) (log (sh s))) /\
  (forall s', reach_from the_prog c s s' -> log (sh s') = log (sh s) /\ finished (tworker s') = true).
Proof. exact stop_post. Qed.
Print Assumptions C11_stop_post.

(* No thread ever gets into one of the situations the LTS models as "cannot move because the real code would raise"
   (reading an unset flag, put()/process() without an event, task_done() below zero, start() twice, join() before
   start(), queue.Empty outside the try): before stop() is called main can always move; the worker, once started, can
   always move until it has finished (its get() has a time-out); every producer can always move until its script is done.
   (After stop() is called, main's blocking in Queue.join()/Thread.join() is the subject of C11_stop_progress.) *)
Theorem C11_no_thread_error : forall c s, wf_config c = true -> reach the_prog c s ->
  (stop_called (sh s) = false -> exists s' l, step the_prog (threaded c) 0 s = Some (s', l)) /\
  (started (sh s) = true -> finished (tworker s) = true \/ exists s' l, step the_prog (threaded c) 1 s = Some (s', l)) /\
  (inited (sh s) = true -> forall i t, nth_error (tprods s) i = Some t ->
     finished t = true \/ exists s' l, step the_prog (threaded c) (S (S i)) s = Some (s', l)).
Proof. exact no_thread_error. Qed.
Print Assumptions C11_no_thread_error.

(* ---- non-vacuity: a concrete scenario (main triggers 1 whose callback triggers 3, producer triggers 2, stop() is
   called with a non-empty queue) satisfies every hypothesis; the run ends with all three events processed *)
Example C11_safety_nonvacuous :
  wf_config ex_cfg = true /\ reach the_prog ex_cfg ex_final /\
  map ev_id (begun (log (sh ex_final))) = [1%N; 2%N; 3%N] /\ all_finished ex_final = true.
Proof. split; [apply ex_mid_facts|]. split; [apply ex_final_reach|]. split; apply ex_final_facts. Qed.
Print Assumptions C11_safety_nonvacuous.

Example C11_stop_progress_nonvacuous :
  wf_config ex_cfg = true /\ reach the_prog ex_cfg ex_mid /\ stop_called (sh ex_mid) = true /\
  stop_returned (sh ex_mid) = false /\ map ev_id (queue (sh ex_mid)) = [1%N; 2%N].
Proof. split; [apply ex_mid_facts|]. split; [apply ex_mid_reach|]. apply ex_mid_facts. Qed.
Print Assumptions C11_stop_progress_nonvacuous.

Example C11_stop_post_nonvacuous :
  wf_config ex_cfg = true /\ reach the_prog ex_cfg ex_final /\ stop_returned (sh ex_final) = true /\
  map (fun te => ev_id (snd te)) (pre_stop (sh ex_final)) = [1%N].
Proof. split; [apply ex_mid_facts|]. split; [apply ex_final_reach|]. split; apply ex_final_facts. Qed.
Print Assumptions C11_stop_post_nonvacuous.

(* ---- callbacks.  What the LTS does and does not cover.
   A callback (guard / action / entry / exit / NoTransition code of the controller) runs inside process(e), between the
   steps LProcess e and LProcEnd e of the executing thread.  It is NOT one atomic step: every Trigger call it makes is the
   three operations LCall, LReadFlag, LPut, and any other thread may be scheduled before, between and after them (all
   theorems above quantify over those interleavings; C11_callback_trigger_during_stop_nonvacuous exhibits a state inside
   a callback, during stop(), where main can move as well).  What IS atomic is the callback's own code between two
   synchronisation operations of the machine; a preemption there (the GIL may switch) cannot be observed through the
   machine's flags, queue or thread, so no interleaving of the machine's operations is lost.
   EXCLUDED by the model (assumptions on the user's callbacks, listed in the MANIFEST):
   (a) a callback that BLOCKS on a synchronisation primitive of its own (a lock, an Event, another queue, a join, sleeping
       until another thread acts): the segment LProcess .. LProcEnd is always able to proceed in the LTS, so a callback that
       waits for a thread which itself waits for the machine (e.g. for stop() to return, or for queue room) is not covered;
   (b) a callback that calls stop() (Queue.join() would wait for the task the callback itself is part of; Thread.join() on
       the current thread raises);
   (c) a callback that raises: run() only handles queue.Empty, so the worker thread would end without task_done() and
       stop() would block in Queue.join() for ever;
   (d) a callback that triggers without bound (events carry finite trees of follow-up events). *)
Example C11_callback_trigger_during_stop_nonvacuous :
  reach the_prog ex_cfg ex_cb /\ stop_called (sh ex_cb) = true /\ stop_returned (sh ex_cb) = false /\
  hd_error (cont (tworker ex_cb)) = Some (KCall (Ev 3 [])) /\ enabled_set the_prog true ex_cb = [0; 1] /\
  map ev_id (begun (log (sh ex_final))) = [1%N; 2%N; 3%N] /\ stop_returned (sh ex_final) = true.
Proof. split; [apply ex_cb_reach|]. pose proof ex_cb_facts as H. intuition. Qed.
Print Assumptions C11_callback_trigger_during_stop_nonvacuous.

(* ---- regression: the skeleton as it was before the two `fix:` commits, under the same LTS *)
Example C11_old_skeleton_stop_deadlocks :
  let s := fst (run_sched old_prog true old_deadlock_sched (init_state old_prog old_cfg)) in
  stop_called (sh s) = true /\ stop_returned (sh s) = false /\ enabled_set old_prog true s = [] /\ finished (tmain s) = false.
Proof. exact old_skeleton_stop_deadlocks. Qed.
Print Assumptions C11_old_skeleton_stop_deadlocks.

Example C11_old_skeleton_processes_on_producer :
  let s := fst (run_sched old_prog true old_overlap_sched (init_state old_prog old_cfg2)) in
  log (sh s) = [LBegin 1 (Ev 1 []); LBegin 2 (Ev 2 []); LEnd 2 (Ev 2 [])].
Proof. exact old_skeleton_processes_on_producer. Qed.
Print Assumptions C11_old_skeleton_processes_on_producer.
