(* C16 -- Template engine: per-element blocks expand once per element, in model order.   PARTIAL.
   FULL STATEMENT (not proved): for every template of a block grammar and every table/interface,
     generate m dict [] (render16 tmpl) = ref_expand tmpl (model of the table)
   where ref_expand is the flat_map over the element list of the block body with name tags replaced by the case variant,
   NUM/ALPH by index/letter, transitions lacking guard/action/target dropping the line or using the alternative text.
   Missing: the segment-wise reading of str.replace on rendered body lines (so that `second_lines` equals the declarative
   substitution), the equality of tt_model with the first-appearance-order specification, and the nested transition blocks.
   These parts are tied to the real code by differential execution and observed against the independent reference expander
   of harness/props/c16.py on every run.  Proved below: the structure around them. *)
From Coq Require Import String List Bool Arith.
From KV Require Import Lib.Str Lib.StrOps Lib.ODict Gen.Tags Gen.Pipeline Model.Engine Model.EngineSM Model.EngineDomain Spec.RefExpand
                       Proofs.EnginePipe Proofs.EngineC16.
Import ListNotations.
Open Scope string_scope.
Open Scope list_scope.

(* Text outside blocks: lines that contain no block / table keyword next to a tag pass all expander stages of
   expand_secondfiltering (the 15 stages in source order, Gen/Pipeline.v) unchanged, whatever the model is. *)
Theorem C16_outside_unchanged : forall m ls, forallb expand_inert ls = true -> second_filter m ls = Some ls.
Proof. exact second_filter_id. Qed.
Print Assumptions C16_outside_unchanged.

(* ... and the first filtering leaves them alone except for the blank-run collapse *)
Theorem C16_outside_load : forall dict ls,
  dict_ok dict = true -> forallb load_inert ls = true -> load_file dict ls = Some (filter_multiple_newlines ls).
Proof. exact load_file_collapse. Qed.
Print Assumptions C16_outside_load.

(* Blank-run collapse: after a kept blank line, every further blank line of the run produces no text; a non-blank line is
   kept as it is and ends the run. *)
Theorem C16_blank_collapse_partial : forall ls l rest, blank l = true -> forallb blank ls = true ->
  fmn_go false (nospace l) (ls ++ rest) = map (fun _ => EmptyString) ls ++ fmn_go false (nospace l) rest.
Proof. exact fmn_blank_run. Qed.
Print Assumptions C16_blank_collapse_partial.

Theorem C16_nonblank_kept : forall l last rest, blank l = false -> fmn_go false last (l :: rest) = l :: fmn_go false (nospace l) rest.
Proof. exact fmn_nonblank. Qed.
Print Assumptions C16_nonblank_kept.

(* Per-element blocks (state, event, action, guard; struct, message with the PROTO name function): the body is expanded
   exactly once per element, in the order of the element list, the k-th element with index k and the k-th alphabet value. *)
Theorem C16_once_per_element_partial : forall names items snippet,
  second_items names reset_alphabet 0 items snippet
  = opt_concat (map (fun ix => second_lines names (snd ix) (alpha_at (fst ix)) (fst ix) snippet) (enumerate_from 0 items)).
Proof. intros. exact (second_items_enum names items 0 snippet). Qed.
Print Assumptions C16_once_per_element_partial.

Theorem C16_once_per_signature_partial : forall sigs snippet,
  sig_items reset_alphabet 0 sigs snippet
  = flat_map (fun ix => map (sig_line (fst (snd (snd ix))) (sig_event (snd (snd (snd ix)))) (alpha_at (fst ix)) (fst ix)) snippet)
             (enumerate_from 0 sigs).
Proof. intros. exact (sig_items_enum sigs 0 snippet). Qed.
Print Assumptions C16_once_per_signature_partial.

(* The letter counter: a..z then A..Z, cycling, for every index. *)
Theorem C16_letter : forall i, alphabet_to_string (alpha_at i) = letter i.
Proof. exact alpha_letter. Qed.
Print Assumptions C16_letter.

(* non-vacuity: the CD player table of the README; a template with a per-state block and text around it *)
Definition cd_rows : list row :=
  [["StateStop"; "EventOpen"; "StateOpen"; "OnOpenDrive"; "None"]; ["StateStop"; "EventPlay"; "StatePlay"; "OnPlayTrack"; "GuardCDInside"];
   ["StateOpen"; "EventOpen"; "StateStop"; "OnCloseDrive"; "None"]; ["StatePlay"; "EventEndOfTrack"; "None"; "OnPlayNextTrack"; "GuardCDHasMoreTracks"]].
Definition cd_tmpl : list string :=
  map (fun s => (s ++ nl_str)%string)
    ["// states"; "<<<PER_STATE_BEGIN>>>"; "  <<<NUM>>><<<ALPH>>> <<<STATENAME>>> <<<stateName>>> <<<STATE_NAME>>>"; "<<<PER_STATE_END>>>"; "// end"].

Example C16_nonvacuous :
  forallb expand_inert ["// states" ++ nl_str; "// end" ++ nl_str]%string = true
  /\ option_map (fun m => generate_file m [] [] cd_tmpl) (tt_model cd_rows [] [] [])
     = Some (Some ("// states" ++ nl_str ++ "  0a StateStop stateStop state_stop" ++ nl_str ++ "  1b StateOpen stateOpen state_open" ++ nl_str
                   ++ "  2c StatePlay statePlay state_play" ++ nl_str ++ "// end" ++ nl_str)%string).
Proof. split; vm_compute; reflexivity. Qed.
Print Assumptions C16_nonvacuous.
