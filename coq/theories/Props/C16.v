(* C16 -- Template engine: per-element blocks expand once per element, in model order.
   Reference: Spec/RefExpand16.v (ref_block, ref16, elements_of); grammar: Model/EngineDomain16.v (in_grammar16, block_wf).
   FULL: a per-element block of every kind (state, event, action, guard, struct, protocol struct, message, action
   signature) equals the reference block, for every element list and every body of the grammar (C16_block_is_ref,
   C16_sig_block_is_ref); PairExpander.Expand of the block's stage replaces exactly the block (C16_block_stage); the
   engine's table model yields the first-appearance lists of the table (C16_model_first_appearance); str.replace of a tag
   acts segment-wise (C16_replace_segmentwise); text outside blocks, letter counter.
   FULL as well: the whole pipeline on a template with several blocks of several kinds (C16_engine_is_ref,
   C16_engine_is_ref_table): all 15 expander stages in source order, then user tags / FOR / write.
   FULL as well: the nested per-state / per-event / per-transition blocks with their alternative text are part of the template
   syntax of Spec/RefExpand16.v (TransBlock / titem / eitem; reference ref_trans): innerexpand_transitionsperstate on the
   rendered block is the reference for every transition structure (C16_nested_block_is_ref), the block is an item of the
   whole-template theorem, and the dictionary of dictionaries the table model builds is the declarative structure of the
   table (C16_model_transitions).  Restrictions of the nested grammar (computed by in_grammar16): no state tag inside a
   per-event block, at most one conditional (action / guard / next-state) tag on a line and no state / event tag on such a
   line, the alternative text closed.
   LITERAL TEXT may contain '<' and '>' (lit_ok, Model/EngineDomain.v): a literal contains no "<<<" and does not begin with
   '<'.  It may end in '<' or "<<" directly before a tag and begin with '>' directly after one ("Exit<<<<STATENAME>>>>()": the
   engine's tag_pattern and str.replace find the tag at the second '<', the model's match_tag / replace_go do exactly that);
   such literals are closed under concatenation and under the substitution of '<' '>'-free names (C16_literals_closed), and a
   text without "<<<" has no tag (C16_no_tag_without_open).  The criterion is sufficient, not necessary: the engine itself only
   needs that no text of the shape <<<[^<>]*>>> arises.  With it the transition blocks of the shipped TEMPLATEStateMachine.py
   and TEMPLATEInternals.cs ("-> None:", "<class '", "/// <summary>", "Exit<<<<STATENAMEIFNEXTSTATE>>>>()") are inside the
   grammar (checked by the harness through in_grammar16 on the block lines read from the shipped files).
   THE INITIAL STATE: a line outside blocks that mentions <<<STATE_0>>> / <<<state_0>>> (InitLine) is part of the syntax: the first
   stage, filterInitialState, rewrites exactly these lines (first row's start state, as it is / lowerCamelCase), every later stage
   and phase leaves the result alone; covered by C16_engine_is_ref(_table) (el_first of the element record = getfirststate).
   THE BOOST::SML TABLE: a line  pre <<<TTT_BOOST_SML>>>  /  pre <<<TTT_BOOST_SML_ENTRY_EXIT>>>  (TableLine) is part of the syntax: its
   single-tag stage replaces it by what smgen.innerexpand_sml prints (Model/EngineSM.sml_print, with pre as indentation); the
   reference is that printer, whose text is characterised in Props/C09.v (C09_engine_text: header line + the text of gen_sml's
   items).  The other table printers (PLANT_UML, MSM, MSMLITE) stay unmodelled: a template that reaches them is outside.
   STILL PARTIAL: signature / member / documentation / attribute tags are not modelled; the shipped TEMPLATEStateMachine.py /
   TEMPLATEInternals.cs as whole files are outside the grammar for that reason.  block_wf keeps three
   conditions that are evaluated per (template, table): substituted names carry no '<' '>', no expanded copy is whitespace
   only, none contains the name of an unmodelled tag. *)
From Coq Require Import String List Bool Arith.
From KV Require Import Lib.Str Lib.StrOps Lib.ODict Gen.Tags Gen.Pipeline Model.Engine Model.EngineSM Model.EngineDomain Spec.RefExpand
                       Model.EngineDomain16 Model.Parse16 Spec.RefExpand16 Lib.TableDef Model.TTable
                       Proofs.EngineStr Proofs.EnginePipe Proofs.EngineC16 Proofs.EngineRepl Proofs.EngineBlock Proofs.EngineTT Proofs.EngineTps Proofs.EngineTrans Proofs.EngineMsg Proofs.EngineEv Proofs.EngineWhole16.
Import ListNotations.
Open Scope string_scope.
Open Scope list_scope.

(* Text outside blocks: lines that contain no block / table keyword next to a tag pass all expander stages of
   expand_secondfiltering (the 15 stages in source order, Gen/Pipeline.v) unchanged, whatever the model is. *)
Theorem C16_outside_unchanged : forall m ls, forallb expand_inert ls = true -> second_filter m ls = Some ls.
Proof. exact second_filter_id. Qed.
Print Assumptions C16_outside_unchanged.

(* ... and the first filtering leaves them alone except for the blank-run collapse *)
Theorem C16_outside_load : forall dict ls,
  dict_ok dict = true -> forallb load_inert ls = true -> load_file dict ls = Some (filter_multiple_newlines ls).
Proof. exact load_file_collapse. Qed.
Print Assumptions C16_outside_load.

(* Blank-run collapse: after a kept blank line, every further blank line of the run produces no text; a non-blank line is
   kept as it is and ends the run. *)
Theorem C16_blank_collapse_partial : forall ls l rest, blank l = true -> forallb blank ls = true ->
  fmn_go false (nospace l) (ls ++ rest) = map (fun _ => EmptyString) ls ++ fmn_go false (nospace l) rest.
Proof. exact fmn_blank_run. Qed.
Print Assumptions C16_blank_collapse_partial.

Theorem C16_nonblank_kept : forall l last rest, blank l = false -> fmn_go false last (l :: rest) = l :: fmn_go false (nospace l) rest.
Proof. exact fmn_nonblank. Qed.
Print Assumptions C16_nonblank_kept.

(* Per-element blocks (state, event, action, guard; struct, message with the PROTO name function): the body is expanded
   exactly once per element, in the order of the element list, the k-th element with index k and the k-th alphabet value. *)
Theorem C16_once_per_element_partial : forall names items snippet,
  second_items names reset_alphabet 0 items snippet
  = opt_concat (map (fun ix => second_lines names (snd ix) (alpha_at (fst ix)) (fst ix) snippet) (enumerate_from 0 items)).
Proof. intros. exact (second_items_enum names items 0 snippet). Qed.
Print Assumptions C16_once_per_element_partial.

Theorem C16_once_per_signature_partial : forall sigs snippet,
  sig_items reset_alphabet 0 sigs snippet
  = flat_map (fun ix => map (sig_line (fst (snd (snd ix))) (sig_event (snd (snd (snd ix)))) (alpha_at (fst ix)) (fst ix)) snippet)
             (enumerate_from 0 sigs).
Proof. intros. exact (sig_items_enum sigs 0 snippet). Qed.
Print Assumptions C16_once_per_signature_partial.

(* The letter counter: a..z then A..Z, cycling, for every index. *)
Theorem C16_letter : forall i, alphabet_to_string (alpha_at i) = letter i.
Proof. exact alpha_letter. Qed.
Print Assumptions C16_letter.

(* str.replace("<<<k>>>", v) on a line rendered from segments (literal pieces of lit_ok, tags) replaces exactly the
   segments that are the tag <<<k>>> and leaves every other segment as it is. *)
Theorem C16_replace_segmentwise : forall k v l, no_lg k = true -> has_char EQ k = false -> line_ok l = true ->
  replace_all (pat k) v (render_line l) = render_line (map (put k v) l).
Proof. exact replace_all_render. Qed.
Print Assumptions C16_replace_segmentwise.

(* Literal text with '<' and '>': the literals of the grammar are closed under concatenation; values without '<' '>' are
   such literals; a text without "<<<" contains no tag; a literal followed by the end of the line, another literal or a tag
   has no position where exactly three '<' begin, which are the only positions where tag_pattern can match or an occurrence of
   <<<k>>> can begin. *)
Theorem C16_literals_closed : forall a b, lit_ok a = true -> lit_ok b = true -> lit_ok (a ++ b)%string = true.
Proof. exact lit_ok_app. Qed.
Print Assumptions C16_literals_closed.

Theorem C16_values_are_literals : forall v, no_lg v = true -> lit_ok v = true.
Proof. exact no_lg_lit_ok. Qed.
Print Assumptions C16_values_are_literals.

Theorem C16_no_tag_without_open : forall s, no3 s = true -> findall s = [].
Proof. exact no3_findall. Qed.
Print Assumptions C16_no_tag_without_open.

Theorem C16_literal_no_match_position : forall rest s, okhead rest = true -> no3 s = true -> nobad s rest = true.
Proof. intros rest s H. exact (nobad_lit rest H s). Qed.
Print Assumptions C16_literal_no_match_position.

Theorem C16_match_needs_three : forall t, bad t = false -> match_tag t = None.
Proof. exact match_tag_notbad. Qed.
Print Assumptions C16_match_needs_three.

Theorem C16_occurrence_needs_three : forall k t, no_lg k = true -> prefixb (pat k) t = true -> bad t = true.
Proof. exact prefix_pat_bad. Qed.
Print Assumptions C16_occurrence_needs_three.

Example C16_angle_literals :
  forallb (fun s => line_ok (parse_segs s))
    ["    def process<<<STATENAME>>>(self, event) -> None:"; "    /// <summary>"; "                sm.Exit<<<<STATENAMEIFNEXTSTATE>>>>();";
     "                sm.Enter<<<<NEXTSTATENAME>>>>();"; "replace(<class ',).replace('>,)); a << b; x<<<<<T>>>"] = true
  /\ replace_all (pat "STATENAMEIFNEXTSTATE") "Idle" (render_line (parse_segs "sm.Exit<<<<STATENAMEIFNEXTSTATE>>>>();")) = ("sm.Exit<Idle>();" ++ nl_str)%string
  /\ findall "sm.Exit<<<<STATENAMEIFNEXTSTATE>>>>();" = ["STATENAMEIFNEXTSTATE"]
  /\ line_ok [Lit "a<<<b"] = false /\ line_ok [Lit "a"; Lit "<b"] = false /\ line_ok [Tag "X" None; Lit "<b>"] = false.
Proof. repeat split; vm_compute; reflexivity. Qed.
Print Assumptions C16_angle_literals.

(* A block of any per-element kind: for EVERY element list and every body of the grammar, the engine's expansion function
   (innerexpand_secondfiltering / _PROTO) returns the reference block: the body once per element, in list order, every name
   tag replaced by the element's name in its case variant, NUM / ALPH by index and letter. *)
Theorem C16_block_is_ref : forall k items body,
  forallb (body_line_ok (keys_of k)) body = true -> block_wf (table_of_kind k) items body = true ->
  inner_of_kind k items (map render_line body) None = Some (ref_block (table_of_kind k) items body).
Proof. exact inner_block. Qed.
Print Assumptions C16_block_is_ref.

Theorem C16_sig_block_is_ref : forall sigs body,
  forallb (body_line_ok sig_keys) body = true -> block_wf sig_table (map snd sigs) body = true ->
  inner_actionsigs sigs (map render_line body) None = Some (ref_block sig_table (map snd sigs) body).
Proof. exact sig_block_is_ref. Qed.
Print Assumptions C16_sig_block_is_ref.

(* Per-message blocks with <<<MSGID>>> (MsgBlock; ids from the events interface: if_msgids, str(MessageTypeID)) and with text after the end
   tag on its line (TEMPLATETransmitter.cpp: "<<<PER_MSG_END>>>   ").  The stage of PER_MSG blocks is innerexpand_secondfiltering_PROTO over
   MessageNames(); the model (inner_msgs) replaces <<<MSGID>>> by the message's id when every message has one.  For every id table, every
   message list whose names all have an id and every body of the grammar (message name tags, NUM / ALPH, MSGID): the expansion is the
   reference block with the id in the table; and a body WITHOUT the id tag expands as before, whatever the ids are (so C16_block_is_ref for
   KMsg is what the engine does there).  With MsgBlock the shipped TEMPLATEReceiver.cpp / TEMPLATETransmitter.cpp are whole files of the
   grammar (Props/C13.v: C13_receiver_engine, C13_transmitter_engine). *)
Theorem C16_msg_block_is_ref : forall ids items body,
  forallb (fun n => ODict.mem String.eqb n ids) items = true ->
  forallb (body_line_ok msg_keys) body = true -> block_wf (msg_table ids) items body = true ->
  inner_msgs ids items (map render_line body) None = Some (ref_block (msg_table ids) items body).
Proof. exact msg_block_is_ref. Qed.
Print Assumptions C16_msg_block_is_ref.

(* Per-event blocks with <<<SIGNATURE>>> / <<<SIGNATUREWITHDEFAULTS>>> (EvBlock).  The signature strings are an INTERFACE ORACLE (sigs: event name ->
   get_event_signature(name, False / True), the Language* classes' output; "" for a name the interface has no struct for).  Modelled and proved:
   the tag logic of innerexpand_secondfiltering (hasSpecificTag SIGNATURE, the DEFAULTS variant chosen by substring, replacement after the name
   tags) and the cleanup  re.sub("\([^)]*\)", ...)  of the parenthesised groups (EngineSM.paren_clean).  For every oracle, every event list and every
   body of the grammar admitted for them (ev_block_wf: computed per (template, events, oracle) -- the line after the name tags is taken by the
   engine's tests for what it is, the signature carries no '<' '>', the result is neither blank nor tagged): the expansion is the reference, i.e. per
   event the body with the names, the signature in place of the tag and the groups cleaned.  The variant with user parameters in the tag
   (<<<SIGNATURE=...>>>) and the MEMBERS* / attribute / documentation tags are not modelled.  A per-event block WITHOUT signature tags expands as
   before, whatever the oracle says. *)
Theorem C16_ev_block_is_ref : forall sigs items body,
  forallb ev_line_ok body = true -> ev_block_wf sigs items body = true ->
  inner_events sigs items (map render_line body) None = Some (ref_ev_block sigs items body).
Proof. exact ev_block_is_ref. Qed.
Print Assumptions C16_ev_block_is_ref.

Theorem C16_plain_ev_block_is_ref : forall sigs items body,
  forallb (body_line_ok (keys_of KEvent)) body = true -> block_wf elem_table items body = true ->
  inner_events sigs items (map render_line body) None = Some (ref_block elem_table items body).
Proof. exact plain_ev_block_is_ref. Qed.
Print Assumptions C16_plain_ev_block_is_ref.

Example C16_paren_clean_nonvacuous :
  paren_clean "def TriggerE(self, ) -> None: f(a, b) g(, x) h( , )" = "def TriggerE(self) -> None: f(a, b) g( x) h()"
  /\ paren_clean "event = E()" = "event = E()" /\ paren_clean "x(a" = "x(a" /\ paren_clean "a(b(c, ) d) e( , f)" = "a(b(c) d) e(f)".   (* as re.sub answers *)
Proof. repeat split; vm_compute; reflexivity. Qed.
Print Assumptions C16_paren_clean_nonvacuous.

Theorem C16_plain_msg_block_is_ref : forall ids items body,
  forallb (body_line_ok (keys_of KMsg)) body = true -> block_wf proto_table items body = true ->
  inner_msgs ids items (map render_line body) None = Some (ref_block proto_table items body).
Proof. exact plain_msg_block_is_ref. Qed.
Print Assumptions C16_plain_msg_block_is_ref.

(* PairExpander.Expand with the stage tags of the block's kind (the stage is in the list read from the source, with the
   inner function used here: stage_in_source): text before the block is kept, the block is replaced by the reference block,
   the expander continues on the rest from its initial state (so several blocks of a kind, in any position, compose). *)
Theorem C16_block_stage : forall k ib ie items pre body rest,
  forallb (not_be (fst (stage_tags k)) (snd (stage_tags k))) pre = true ->
  forallb (not_be (fst (stage_tags k)) (snd (stage_tags k))) (map render_line body) = true ->
  item16_ok (Block k ib ie body) = true -> block_wf (table_of_kind k) items body = true ->
  pair_expand (fst (stage_tags k)) (snd (stage_tags k)) (inner_of_kind k items) (pre ++ render_item16 (Block k ib ie body) ++ rest)
  = option_map (fun t => pre ++ ref_block (table_of_kind k) items body ++ t)
               (pair_go (fst (stage_tags k)) (snd (stage_tags k)) (inner_of_kind k items) false [] None rest).
Proof. exact block_stage. Qed.
Print Assumptions C16_block_stage.

Theorem C16_stage_in_source : forall m k,
  existsb (fun st => let '(kind, b, e, inner, coll) := st in
                     String.eqb kind "Pair" && String.eqb b (fst (stage_tags k)) && String.eqb e (snd (stage_tags k))
                     && match inner_of m inner coll with Some _ => true | None => false end)
          (second_stages ++ second_stages_iface) = true.
Proof. exact stage_in_source. Qed.
Print Assumptions C16_stage_in_source.

(* Model order: the lists the engine's CTransitionTableModel builds by dictionary insertion (states: start then next state
   of each row; events, actions, guards; signatures keyed by the (action, event) pair; the generator's events = table events
   followed by the interface's structs not among them) are the first-appearance lists of the table, for every table. *)
Theorem C16_model_first_appearance : forall tt structs protos msgs m,
  tt_model tt structs protos msgs = Some m ->
  elements_of_model m = elements_of (table_of tt) structs protos msgs.
Proof. exact model_elements_full. Qed.
Print Assumptions C16_model_first_appearance.

(* ... in particular transitionsperstate, the dictionary of dictionaries set_transitions_per_state fills row by row and then
   closes with the target-only states: it is the declarative structure of the table (source states in first-appearance order,
   then the states that are only targets; per state its events in first-appearance order; per (state, event) the rows in
   table order, each as the table of the name tags it defines). *)
Theorem C16_model_transitions : forall tt structs protos msgs m,
  tt_model tt structs protos msgs = Some m -> sm_tps m = tps_of (table_of tt).
Proof. exact model_tps. Qed.
Print Assumptions C16_model_transitions.

(* The nested blocks: per state > per event > per transition.  For EVERY transition structure (states with their events with
   their transitions, each transition the table of the name tags it defines) and every body of the grammar,
   innerexpand_transitionsperstate returns the reference: the per-state lines once per state, inside them the per-event
   lines once per event of the state, inside those the per-transition lines once per transition, in order; a line that
   mentions a name the transition lacks (no guard / action / target) is dropped, or replaced by the alternative text given
   in the tag at the line's indentation. *)
Theorem C16_nested_block_is_ref : forall tps body,
  forallb titem_ok body = true -> tps_wf tps = true ->
  inner_tps tps (flat_map render_titem body) None = Some (ref_trans tps body).
Proof. exact inner_tps_is_ref. Qed.
Print Assumptions C16_nested_block_is_ref.

(* THE WHOLE TEMPLATE.  For every state-machine model m, every first-filter dictionary over the first-filter tags and every
   template of the grammar (text lines and any number of per-element / per-signature blocks of any kinds, in any order) that
   is admitted for the model's element lists: the file written by smgen.Generate's pipeline (phases and the 15 expander
   stages in the order the translator read from the source) is the reference expansion. *)
Theorem C16_engine_is_ref : forall m dict t,
  dict_ok dict = true -> in_grammar16 t = true -> wf_elements16 t (elements_of_model m) = true ->
  engine16 m dict t = Some (ref16 (elements_of_model m) t).
Proof. exact engine16_is_ref. Qed.
Print Assumptions C16_engine_is_ref.

(* USER TAGS OUTSIDE BLOCKS.  A line outside blocks with user tags <<<name>>> / <<<name=default>>> (UserLine; e.g.
   #define SM_THREAD_<<<StateMachineThread=1>>>) passes the expander stages as it stands and gets its values in the user-tag phase
   (C17_usertag: assigned -> value, else the default, else verbatim).  For every model, every ASSIGNMENT a of user tags and any
   template lines that the first filtering turns into a template of the grammar admitted for the element lists and a (a user
   line, after substitution, is not a FOR line: computed): the generated file is the reference expansion with el_user = a. *)
Theorem C16_generate_user : forall m dict t (a : usertags),
  in_grammar16 t = true -> wf_elements16 t (with_user a (elements_of_model m)) = true ->
  forall lines, load_file dict lines = Some (render16 t) ->
  generate_file m dict a lines = Some (ref16 (with_user a (elements_of_model m)) t).
Proof. exact generate_is_ref. Qed.
Print Assumptions C16_generate_user.

(* ... and with the element lists read off the transition table in first-appearance order *)
Theorem C16_engine_is_ref_table : forall tt structs protos msgs m dict t,
  tt_model tt structs protos msgs = Some m -> dict_ok dict = true -> in_grammar16 t = true ->
  wf16_rows tt structs protos msgs t = true ->
  engine16 m dict t = Some (ref16_rows tt structs protos msgs t).
Proof. exact engine16_is_ref_table. Qed.
Print Assumptions C16_engine_is_ref_table.

Definition ex16 : template16 :=
  [Text "// guards first"; Block KGuard "    " "  " [[Lit "g "; Tag "GUARDNAME" None; Lit " "; Tag "NUM" None]];
   Text "	x"; SigBlock "" "" [[Tag "actionName" None; Lit "("; Tag "EVENTNAME" None; Lit ")"]];
   Block KState "" "" [[Lit "  "; Tag "ALPH" None; Lit " "; Tag "STATE_NAME" None]; [Lit "  -"]];
   Block KGuard "	" "" [[Tag "guardName" None]];
   TransBlock "    " "    "
     [TLine [Lit "    def process"; Tag "STATENAME" None; Lit "(self, event):"];
      TEvent "        " "        "
        [ELine [Lit "        if isinstance(event, "; Tag "EVENTNAME" None; Lit "):"];
         EGuard "            " "            "
           [[Lit "            if self.context."; Tag "GUARDNAME" (Some "if True:"); Lit "(event):"];
            [Lit "                self.context.On"; Tag "STATENAMEIFNEXTSTATE" None; Lit "Exit(event)"];
            [Lit "                self.context."; Tag "ACTIONNAME" None; Lit "(event)"];
            [Lit "                self.currentState = c"; Tag "NEXTSTATENAME" None];
            [Lit "                return"]]];
      TLine [Lit "        self.context.NoTransition(event) # "; Tag "stateName" None]];
   Text "// end"].
Example C16_block_is_ref_nonvacuous :
  let body := [[Lit "  "; Tag "NUM" None; Tag "ALPH" None; Lit " "; Tag "STATENAME" None; Lit " "; Tag "stateName" None; Lit " "; Tag "STATE_NAME" None]] in
  forallb (body_line_ok (keys_of KState)) body = true
  /\ block_wf (table_of_kind KState) ["StateStop"; "StateOpen"] body = true
  /\ ref_block (table_of_kind KState) ["StateStop"; "StateOpen"] body
     = [("  0a StateStop stateStop state_stop" ++ nl_str)%string; ("  1b StateOpen stateOpen state_open" ++ nl_str)%string].
Proof. repeat split; vm_compute; reflexivity. Qed.
Print Assumptions C16_block_is_ref_nonvacuous.

(* non-vacuity: the CD player table of the README; a template with a per-state block and text around it *)
Definition cd_rows : list EngineSM.row :=
  [["StateStop"; "EventOpen"; "StateOpen"; "OnOpenDrive"; "None"]; ["StateStop"; "EventPlay"; "StatePlay"; "OnPlayTrack"; "GuardCDInside"];
   ["StateOpen"; "EventOpen"; "StateStop"; "OnCloseDrive"; "None"]; ["StatePlay"; "EventEndOfTrack"; "None"; "OnPlayNextTrack"; "GuardCDHasMoreTracks"]].
Definition cd_tmpl : list string :=
  map (fun s => (s ++ nl_str)%string)
    ["// states"; "<<<PER_STATE_BEGIN>>>"; "  <<<NUM>>><<<ALPH>>> <<<STATENAME>>> <<<stateName>>> <<<STATE_NAME>>>"; "<<<PER_STATE_END>>>"; "// end"].

Example C16_nonvacuous :
  forallb expand_inert ["// states" ++ nl_str; "// end" ++ nl_str]%string = true
  /\ option_map (fun m => generate_file m [] [] cd_tmpl) (tt_model cd_rows [] [] [])
     = Some (Some ("// states" ++ nl_str ++ "  0a StateStop stateStop state_stop" ++ nl_str ++ "  1b StateOpen stateOpen state_open" ++ nl_str
                   ++ "  2c StatePlay statePlay state_play" ++ nl_str ++ "// end" ++ nl_str)%string).
Proof. split; vm_compute; reflexivity. Qed.
Print Assumptions C16_nonvacuous.

Example C16_engine_is_ref_nonvacuous :
  in_grammar16 ex16 = true /\ wf16_rows cd_rows [] [] [] ex16 = true
  /\ option_map (fun m => engine16 m [] ex16) (tt_model cd_rows [] [] []) = Some (Some (ref16_rows cd_rows [] [] [] ex16))
  /\ option_map (fun m => list_eqb_tps (sm_tps m) (tps_of (table_of cd_rows))) (tt_model cd_rows [] [] []) = Some true
  /\ Nat.ltb 900 (String.length (ref16_rows cd_rows [] [] [] ex16)) = true.
Proof. split; [|split; [|split; [|split]]]; vm_compute; reflexivity. Qed.
Print Assumptions C16_engine_is_ref_nonvacuous.
