(* C04 -- User code stays confined to its own file and tag: no leakage, no duplication. *)
From Coq Require Import String List Bool.
From KV Require Import Lib.Str Lib.ODict Model.PreserveCore Model.Preserve
                       Proofs.PreserveCoreProofs Proofs.PreserveStr Proofs.PreserveTree Proofs.PreserveTop.
Import ListNotations.
Open Scope string_scope.

(* What a regeneration writes under a file's name (and under its LostCode name) is a function of that file's
   fresh lines and of that file's previous content ONLY: change, add or remove any other file of the code model
   or of the directory -- with ANY names, in particular names that are suffixes / prefixes / substrings of one
   another, and any number of files sharing a tag name -- and the bytes written for [fn] stay the same.
   (names_ok only asks that names are distinct and that no generated file is itself called
   <other file>.LostCode.txt.) *)
Theorem C04_confined : forall outdir fresh fresh' old old' fn lines,
  names_ok (keys fresh) -> names_ok (keys fresh') ->
  slookup fn fresh = Some lines -> slookup fn fresh' = Some lines -> old fn = old' fn ->
  slookup fn (fst (regen outdir old fresh)) = slookup fn (fst (regen outdir old' fresh'))
  /\ slookup (lost_name fn) (fst (regen outdir old fresh)) = slookup (lost_name fn) (fst (regen outdir old' fresh')).
Proof. exact confined. Qed.
Print Assumptions C04_confined.

(* the reading a user relies on: with the code model fixed, editing, adding or deleting user code (or anything else) in
   the OTHER files of the directory changes neither what is written for [fn] nor its LostCode file *)
Theorem C04_other_files_irrelevant : forall outdir fresh old old' fn lines,
  names_ok (keys fresh) -> slookup fn fresh = Some lines -> old fn = old' fn ->
  slookup fn (fst (regen outdir old fresh)) = slookup fn (fst (regen outdir old' fresh))
  /\ slookup (lost_name fn) (fst (regen outdir old fresh)) = slookup (lost_name fn) (fst (regen outdir old' fresh)).
Proof. exact other_files_irrelevant. Qed.
Print Assumptions C04_other_files_irrelevant.

(* Within a file a block goes under the tag of its own cleaned name and nowhere else, exactly once, and any
   number of regenerations keeps it so: this is C01_tree_fixed_point / C02_evolution; restated here for the
   directory so that the "exactly once, in its own file, under its own tag" clause cannot be weakened
   silently: after a regeneration the content of EVERY file is the fresh file with exactly its own blocks. *)
Theorem C04_exactly_once : forall outdir fresh U,
  fresh_ok fresh -> blocks_ok U ->
  let r := regen outdir (dir_of fresh U) fresh in
  (forall fn lines, slookup fn fresh = Some lines ->
      slookup fn (fst r) = Some (on_disk (U fn) (items_of lines)))
  /\ (forall k, slookup k (fst r) <> None -> In k (keys fresh))
  /\ (forall k, In k (snd r) <-> In k (keys fresh)).
Proof. exact tree_fixed_point. Qed.
Print Assumptions C04_exactly_once.

(* non-vacuity: X.py and TestX.py (one name a suffix of the other) sharing the tag name USER_IMPORTS *)
Definition tagl : string := bs [35;32;123;123;123;85;83;69;82;95;73;77;80;79;82;84;83;125;125;125;10].
Definition ex_fresh : cmodel := [("X.py", [tagl; tagl]); ("TestX.py", [tagl; tagl; bs [120;10]])].
Definition ex_U (fn k : string) : list string := [(fn ++ nl_str)%string].

Example C04_nonvacuous :
  names_ok (keys ex_fresh) /\
  fst (regen "out" (dir_of ex_fresh ex_U) ex_fresh)
  = [("X.py", concat_lines [tagl; bs [88;46;112;121;10]; tagl]);
     ("TestX.py", concat_lines [tagl; bs [84;101;115;116;88;46;112;121;10]; tagl; bs [120;10]])].
Proof.
  split; [|vm_compute; reflexivity]. split.
  - repeat constructor; simpl; intuition discriminate.
  - intros a b Ha Hb. simpl in Ha, Hb. destruct Ha as [<-|[<-|[]]], Hb as [<-|[<-|[]]]; vm_compute; discriminate.
Qed.
Print Assumptions C04_nonvacuous.
