(* C17 -- Template engine: user tags, IF/ELSEIF/ELSE and FOR follow their documented rules.
   Only statements, each closed by [exact], each followed by Print Assumptions.
   Model: Model/Engine.v (cgen.py), Model/EngineSM.v (smgen.Generate pipeline, stage/phase order from Gen/Pipeline.v);
   reference: Spec/RefExpand.v; grammar: Model/EngineDomain.v (in_grammar17, wf_assign17). *)
From Coq Require Import String List Bool.
From KV Require Import Lib.Str Lib.StrOps Lib.ODict Gen.Tags Gen.Pipeline Model.Engine Model.EngineSM Model.EngineDomain Spec.RefExpand
                       Proofs.EngineStr Proofs.EngineC17 Proofs.EngineFor Proofs.EnginePipe Proofs.EngineNI.
Import ListNotations.
Open Scope string_scope.
Open Scope list_scope.

(* User tags, every line of the syntax (any number of literal pieces and tags <<<n>>> / <<<n=d>>>, pieces that contain no "<<<" and do not begin with '<',
   names without '='), every assignment (any values): each tag on its own becomes its assigned value, else its inline
   default, else stays verbatim; the text around it is untouched. *)
Theorem C17_usertag : forall (a : assign) (l : uline),
  line_ok l = true -> replaceUserTags (render_line l) a = ref_line a l.
Proof. exact replaceUserTags_render. Qed.
Print Assumptions C17_usertag.

(* IF / ELSEIF* / ELSE? / ENDIF, any number of ELSEIF branches, any assignment: the scanner of do_user_tags emits the body of
   exactly the branches whose tag is assigned, and the ELSE body exactly when none was; it leaves the block in its initial
   state (so blocks compose: [rest] is arbitrary). *)
Theorem C17_if : forall (a : assign) dflts b elifs els rest,
  item_ok (Cond b elifs els) = true ->
  ut_scan a dflts ut_init (render_item (Cond b elifs els) ++ rest)
  = ref_cond a (b :: elifs) els ++ ut_scan a dflts ut_init rest.
Proof. exact scan_cond. Qed.
Print Assumptions C17_if.

(* FOR, the loop proper: for EVERY body (lines of the segment syntax, after the user-tag phase) and EVERY list / count, the
   engine's two nested loops with their FIRST / LAST / EACH / each / NUM / ALPH substitutions by str.replace produce exactly the
   reference: the first FIRST line (wherever it stands in the body, FIRST := first item) before everything, then for each item
   in order the ordinary lines with EACH / each / NUM / ALPH := item / small-first item / index / letter, then the first LAST
   line (LAST := last item); further FIRST / LAST lines are dropped.  [good_line]: the line is in the segment syntax, the
   engine's substring tests for FIRST / LAST agree with its segments, no line carries both.  A count n >= 1 stands for the
   items _0_ ... _(n-1)_ (the engine goes through the text "_0_,_1_,...," and back). *)
Theorem C17_for : forall v L items,
  no_lg v = true -> Forall good_line L -> for_items v = Some items -> items <> [] ->
  innerexpand_for_loop (map render_line L) (Some v) = Some (ref_for items L).
Proof. exact for_loop_is_ref. Qed.
Print Assumptions C17_for.

(* the FOR phase around the loop: block recognition by PairExpander, the flow of the list / count from the (substituted)
   header into the loop, accumulation of the body, the output position, for every FOR block of the grammar *)
Theorem C17_for_phase : forall (a : assign) dflts, assign_ok a = true -> forall h body r p,
  item_ok (For h body) = true -> item_wf a dflts (For h body) = true ->
  pair_go TAG_FOR_BEGIN TAG_FOR_END innerexpand_for_loop false [] p (ut_item a (For h body) ++ r)
  = match ref_item a (For h body) with
    | Some out => option_map (app out) (pair_go TAG_FOR_BEGIN TAG_FOR_END innerexpand_for_loop false [] (Some (hdr_value a h)) r)
    | None => None
    end.
Proof. exact pg_for. Qed.
Print Assumptions C17_for_phase.

(* The whole pipeline of smgen.Generate on a template file (phases and expander stages in the order the translator read
   from the source: load with first filtering and blank-line filter, the 15 expander stages, user tags, FOR, write with the
   TAB filter) equals the reference expander, for every state-machine model m, every first-filter dictionary over the
   first-filter tags, every template of the grammar and every assignment admitted for it. *)
Theorem C17_engine_is_ref : forall m dict (a : assign) t,
  dict_ok dict = true -> in_grammar17 t = true -> wf_assign17 t a = true ->
  engine17 m dict a t = ref17 a t.
Proof. exact engine17_is_ref. Qed.
Print Assumptions C17_engine_is_ref.

(* Changing the value of one user tag x (same tags assigned): both outputs are the item-wise concatenation of the reference
   lines; items that reference x neither in a line nor in their FOR header contribute identical lines, and a template line
   that does not reference x is rendered identically. *)
Theorem C17_noninterference : forall m dict x (a a' : assign) t,
  dict_ok dict = true -> in_grammar17 t = true -> wf_assign17 t a = true -> wf_assign17 t a' = true ->
  agree_except x a a' ->
  engine17 m dict a t = ref17 a t /\ engine17 m dict a' t = ref17 a' t
  /\ (forall it, In it t -> item_refs x it = false -> ref_item a it = ref_item a' it)
  /\ (forall l, line_refs x l = false -> ref_line a l = ref_line a' l).
Proof. exact noninterference17. Qed.
Print Assumptions C17_noninterference.

(* a template with every construct: mixed assigned / defaulted / unassigned tags on one line, an IF block with two ELSEIF
   branches and ELSE, FOR blocks over a literal list, a count given by a user tag, FIRST / LAST lines *)
Definition ex_t : template :=
  [ Plain [Lit "#define T_"; Tag "Thread" (Some "1"); Lit " "; Tag "Verbose" None; Lit " "; Tag "Other" None];
    Cond ("Alpha", [[Lit "a "; Tag "Alpha" None]]) [("Beta", [[Lit "b"]]); ("Gamma", [[Lit "c "; Tag "Gamma" (Some "g")]])] (Some [[Lit "none"]]);
    Cond ("Delta", [[Lit "d"]]) [] (Some [[Lit "no delta "; Tag "Delta" (Some "dd")]]);
    For (HLit "fee, fie ,foe") [[Lit "first "; Tag "FIRST" None]; [Lit "x_"; Tag "EACH" None; Lit "_"; Tag "NUM" None; Tag "ALPH" None; Lit " "; Tag "each" None; Lit " "; Tag "Verbose" None];
                                [Lit "last "; Tag "LAST" None]];
    For (HTag "N" (Some "2")) [[Lit "n"; Tag "EACH" None]];
    Plain [Lit "end"] ].
Definition ex_a : assign := [("Verbose", "0"); ("Beta", ""); ("Gamma", "G"); ("N", "3")].
Definition ex_m : smodel :=
  match tt_model [["SA"; "E1"; "SB"; "Act1"; "None"]] [] [] [] with Some m => m
  | None => Build_smodel [] [] [] [] [] [] "" [] [] [] [] [] [] end.

Example C17_engine_is_ref_nonvacuous :
  in_grammar17 ex_t = true /\ wf_assign17 ex_t ex_a = true
  /\ engine17 ex_m [] ex_a ex_t = ref17 ex_a ex_t
  /\ ref17 ex_a ex_t = Some ((bs [35;100;101;102;105;110;101;32;84;95;49;32;48;32;60;60;60;79;116;104;101;114;62;62;62;10] ++
       "b" ++ nl_str ++ "c G" ++ nl_str ++ "no delta dd" ++ nl_str ++ "first fee" ++ nl_str
       ++ "x_fee_0a fee 0" ++ nl_str ++ "x_fie_1b fie 0" ++ nl_str ++ "x_foe_2c foe 0" ++ nl_str ++ "last foe" ++ nl_str
       ++ "n_0_" ++ nl_str ++ "n_1_" ++ nl_str ++ "n_2_" ++ nl_str ++ "end" ++ nl_str)%string).
Proof. repeat split; vm_compute; reflexivity. Qed.
Print Assumptions C17_engine_is_ref_nonvacuous.

Example C17_usertag_nonvacuous :
  line_ok [Lit "#define T_"; Tag "Thread" (Some "1"); Lit " "; Tag "Verbose" None; Lit " "; Tag "Other" None] = true.
Proof. vm_compute. reflexivity. Qed.
Print Assumptions C17_usertag_nonvacuous.

Example C17_if_nonvacuous :
  item_ok (Cond ("Alpha", [[Lit "a "; Tag "Alpha" None]]) [("Beta", [[Lit "b"]]); ("Gamma", [[Lit "c "; Tag "Gamma" (Some "g")]])] (Some [[Lit "none"]])) = true.
Proof. vm_compute. reflexivity. Qed.
Print Assumptions C17_if_nonvacuous.

Example C17_for_nonvacuous :
  (* a body with LAST before FIRST, two FIRST lines, a user tag; a count given by a user tag *)
  item_ok (For (HTag "N" (Some "2")) [[Lit "z "; Tag "LAST" None]; [Lit "n"; Tag "EACH" None; Tag "NUM" None; Tag "ALPH" None; Lit " "; Tag "Verbose" None]; [Tag "FIRST" None; Lit " a"]; [Lit "b "; Tag "FIRST" None]]) = true /\
  item_wf ex_a [] (For (HTag "N" (Some "2")) [[Lit "z "; Tag "LAST" None]; [Lit "n"; Tag "EACH" None; Tag "NUM" None; Tag "ALPH" None; Lit " "; Tag "Verbose" None]; [Tag "FIRST" None; Lit " a"]; [Lit "b "; Tag "FIRST" None]]) = true /\
  item_wf ex_a [] (For (HTag "N" (Some "2")) [[Lit "n"; Tag "EACH" None]; [Tag "FIRST" None]]) = true.
Proof. split; [|split]; vm_compute; reflexivity. Qed.
Print Assumptions C17_for_nonvacuous.

Definition ex_a' : assign := [("Verbose", "1"); ("Beta", ""); ("Gamma", "G"); ("N", "3")].
Example C17_noninterference_nonvacuous :
  wf_assign17 ex_t ex_a' = true /\ agree_except "Verbose" ex_a ex_a' /\ ref17 ex_a ex_t <> ref17 ex_a' ex_t.
Proof.
  split; [vm_compute; reflexivity|]. split.
  - split; [|reflexivity]. intros n Hn. unfold value_of, ex_a, ex_a'. cbn [lookup].
    destruct (String.eqb n "Verbose") eqn:E; [apply String.eqb_eq in E; contradiction|reflexivity].
  - vm_compute. discriminate.
Qed.
Print Assumptions C17_noninterference_nonvacuous.

(* Outside the grammar the full statement is false of the faithful model (each witness is replayed on the real code by the
   check as a known finding). *)
Theorem C17_if_substring_refuted :
  engine17 ex_m [] [("A", "1")] [Plain [Lit "one"]; Plain [Lit "NOTIFY("; Tag "A" None; Lit ")"]; Plain [Lit "two"]]
  <> ref17 [("A", "1")] [Plain [Lit "one"]; Plain [Lit "NOTIFY("; Tag "A" None; Lit ")"]; Plain [Lit "two"]].
Proof. vm_compute. discriminate. Qed.
Print Assumptions C17_if_substring_refuted.

Theorem C17_for_count0_refuted :
  engine17 ex_m [] [] [For (HLit "0") [[Lit "x"; Tag "EACH" None]]] <> ref17 [] [For (HLit "0") [[Lit "x"; Tag "EACH" None]]].
Proof. vm_compute. discriminate. Qed.
Print Assumptions C17_for_count0_refuted.

Theorem C17_for_default_shared_refuted :
  engine17 ex_m [] [] [For (HTag "Items" (Some "a,b")) [[Tag "EACH" None]]; For (HTag "Items" (Some "p,q")) [[Tag "EACH" None]]]
  <> ref17 [] [For (HTag "Items" (Some "a,b")) [[Tag "EACH" None]]; For (HTag "Items" (Some "p,q")) [[Tag "EACH" None]]].
Proof. vm_compute. discriminate. Qed.
Print Assumptions C17_for_default_shared_refuted.
