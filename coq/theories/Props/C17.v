(* C17 -- Template engine: user tags, IF/ELSEIF/ELSE and FOR follow their documented rules. *)
From Coq Require Import String List Bool.
From KV Require Import Lib.Str Lib.StrOps Lib.ODict Gen.Tags Gen.Pipeline Model.Engine Model.EngineSM Model.EngineDomain Spec.RefExpand.
Import ListNotations.
Open Scope string_scope.

(* a template with every construct: mixed assigned / defaulted / unassigned tags on one line, an IF block with two ELSEIF
   branches and ELSE, FOR blocks over a literal list, a count given by a user tag, FIRST / LAST lines *)
Definition ex_t : template :=
  [ Plain [Lit "#define T_"; Tag "Thread" (Some "1"); Lit " "; Tag "Verbose" None; Lit " "; Tag "Other" None];
    Cond ("Alpha", [[Lit "a "; Tag "Alpha" None]]) [("Beta", [[Lit "b"]]); ("Gamma", [[Lit "c "; Tag "Gamma" (Some "g")]])] (Some [[Lit "none"]]);
    Cond ("Delta", [[Lit "d"]]) [] (Some [[Lit "no delta "; Tag "Delta" (Some "dd")]]);
    For (HLit "fee, fie ,foe") [[Lit "first "; Tag "FIRST" None]; [Lit "x_"; Tag "EACH" None; Lit "_"; Tag "NUM" None; Tag "ALPH" None; Lit " "; Tag "each" None; Lit " "; Tag "Verbose" None];
                                [Lit "last "; Tag "LAST" None]];
    For (HTag "N" (Some "2")) [[Lit "n"; Tag "EACH" None]];
    Plain [Lit "end"] ].
Definition ex_a : assign := [("Verbose", "0"); ("Beta", ""); ("Gamma", "G"); ("N", "3")].
Definition ex_m : smodel :=
  match tt_model [["SA"; "E1"; "SB"; "Act1"; "None"]] [] [] [] with Some m => m
  | None => Build_smodel [] [] [] [] [] [] "" [] [] [] end.

Example C17_engine_is_ref_nonvacuous :
  in_grammar17 ex_t = true /\ wf_assign17 ex_t ex_a = true
  /\ engine17 ex_m [] ex_a ex_t = ref17 ex_a ex_t
  /\ ref17 ex_a ex_t = Some (bs [35;100;101;102;105;110;101;32;84;95;49;32;48;32;60;60;60;79;116;104;101;114;62;62;62;10] ++
       "b" ++ nl_str ++ "c G" ++ nl_str ++ "no delta dd" ++ nl_str ++ "first fee" ++ nl_str
       ++ "x_fee_0a fee 0" ++ nl_str ++ "x_fie_1b fie 0" ++ nl_str ++ "x_foe_2c foe 0" ++ nl_str ++ "last foe" ++ nl_str
       ++ "n_0_" ++ nl_str ++ "n_1_" ++ nl_str ++ "n_2_" ++ nl_str ++ "end" ++ nl_str).
Proof. repeat split; vm_compute; reflexivity. Qed.
Print Assumptions C17_engine_is_ref_nonvacuous.
