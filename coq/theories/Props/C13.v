(* C13 -- Protocol round trip: a transmitted message reaches exactly the matching handler. *)
From Coq Require Import String Ascii List Bool Arith NArith ZArith.
From KV Require Import Lib.Str Lib.ByteSeq Gen.CxxConn Gen.ProtoTmpl Model.Conn Model.Proto
                       Proofs.ByteSeqProofs Proofs.ConnProofs Proofs.ProtoProofs Proofs.ProtoSize.
From KV Require Import Model.Engine Model.EngineSM Model.EngineDomain16 Model.Parse16 Spec.RefExpand Spec.RefExpand16 Model.ProtoRender Proofs.ProtoBridge.
Import KV.Lib.ByteSeq KV.Model.Conn KV.Model.Proto.
From KV Require Model.ProtoLang Model.Layout.
(* not used by the statements below: extracted into build/kmodel together with the models of this closure (see Props/C14.v) *)
From KV Require Spec.StreamParse.
Import ListNotations.
Open Scope N_scope.
Open Scope list_scope.

(* Loop-back: for ANY interface, ANY sequence of messages (well-formed: preamble, any type id, PayloadSize = sizeof - 8, any
   field bytes; sizeof < 2^16), ANY way the transport cuts or coalesces the bytes the connection accepted (any chunk list with
   that concatenation): the connection layer hands exactly these messages, in order, to the generated receiver, whose switch
   makes for each of them exactly the calls [dispatch] makes (next two theorems: the one matching handler, or only the
   not-handled hook). *)
Theorem C13_round_trip : forall p0 p1 ifc unh msgs chunks,
  forallb (sendable p0 p1) msgs = true -> forallb chunk_ok chunks = true ->
  concat chunks = concat (map sent_bytes msgs) ->
  feed p0 p1 init chunks = Done init msgs /\
  round_trip p0 p1 ifc unh chunks = Some (flat_map (dispatch ifc unh) msgs).
Proof. exact round_trip_ok. Qed.
Print Assumptions C13_round_trip.

(* A message whose type id is the id of the i-th message of the interface reaches the i-th handler, exactly once, with its
   first sizeof(Msg_i) bytes (all of it, when it was built by the factory of Msg_i), and nothing else is called. *)
Theorem C13_delivery : forall ifc unh m i id size,
  iface_ok ifc = true -> nth_error ifc i = Some (id, size) -> type_id m = id ->
  dispatch ifc unh m = [Handler i (take size m)].
Proof. exact dispatch_hit. Qed.
Print Assumptions C13_delivery.

(* A message whose type id the interface does not define reaches only the not-handled hook (nothing, if none is set). *)
Theorem C13_unknown_id : forall ifc unh m,
  (forall e, In e ifc -> fst e <> type_id m) ->
  dispatch ifc unh m = if unh then [NotHandled m] else [].
Proof. exact dispatch_miss. Qed.
Print Assumptions C13_unknown_id.

(* THE ENGINE'S OUTPUT.  The shipped protocol_templates/CPP/TEMPLATEReceiver.cpp and TEMPLATETransmitter.cpp lie, as whole files, in the template
   grammar of C16 (with <<<MSGID>>> in per-message blocks and text after an end tag).  For EVERY interface (message names, type ids,
   sizes, in interface order; the other struct lists arbitrary) with distinct message names that is admitted for the file (rx_wf / tx_wf:
   computed) and every assignment of user tags: what smgen's pipeline writes from the shipped Receiver template is the reference expansion of
   the file; its 26th item is the per-message block of the switch, and that block expands to exactly one line
       case <id>: On<Msg>Received(reinterpret_cast<const <Msg>*>(&data_buffer[0])); break;
   per message, in interface order, <id> being the type id as the interface prints it (0 is printed as 0: no case is dropped). *)
Theorem C13_receiver_engine : forall (structs protos : list string) (i : ifc3) (a : Engine.usertags),
  rx_wf structs protos i a = true ->
  EngineSM.generate_file (proto_model structs protos i) dict0 a rx_file = Some (rx_ref structs protos i a)
  /\ nth_error rx_file16 25 = Some (MsgBlock "        " "        " "" rx_body)
  /\ ref_item16 (with_user a (elements_of_model (proto_model structs protos i))) (MsgBlock "        " "        " "" rx_body)
     = map (fun x => rx_case (fst (fst x)) (id_text (snd (fst x)))) i.
Proof. exact rx_engine. Qed.
Print Assumptions C13_receiver_engine.

(* ... and from the Transmitter template: one function Transmit<Msg> with the retry loop (the text C13_retry's model reads) per message and one
   call in TestSendAll per message, in interface order. *)
Theorem C13_transmitter_engine : forall (structs protos : list string) (i : ifc3) (a : Engine.usertags),
  tx_wf structs protos i a = true ->
  EngineSM.generate_file (proto_model structs protos i) dict0 a tx_file = Some (tx_ref structs protos i a)
  /\ nth_error tx_file16 15 = Some (Block KMsg "    " "    " tx_body)
  /\ ref_item16 (with_user a (elements_of_model (proto_model structs protos i))) (Block KMsg "    " "    " tx_body) = flat_map tx_fn (names_of i)
  /\ nth_error tx_file16 19 = Some (MsgBlock "        " "        " "   " tx_test_body)
  /\ ref_item16 (with_user a (elements_of_model (proto_model structs protos i))) (MsgBlock "        " "        " "   " tx_test_body) = map tx_test (names_of i).
Proof. exact tx_engine. Qed.
Print Assumptions C13_transmitter_engine.

(* C13_delivery over the engine's output: the k-th case line the engine writes is the case of the k-th message of the interface (its id, its
   handler), and a message whose type id is that id reaches exactly that handler with its first sizeof bytes. *)
Theorem C13_delivery_engine : forall (structs protos : list string) (i : ifc3) (a : Engine.usertags),
  rx_wf structs protos i a = true -> iface_ok (ifc_of i) = true ->
  EngineSM.generate_file (proto_model structs protos i) dict0 a rx_file = Some (rx_ref structs protos i a)
  /\ ref_item16 (with_user a (elements_of_model (proto_model structs protos i))) (MsgBlock "        " "        " "" rx_body)
     = map (fun x => rx_case (fst (fst x)) (id_text (snd (fst x)))) i
  /\ forall unh msg k name id size, nth_error i k = Some (name, id, size) -> type_id msg = id ->
       nth_error (ref_item16 (with_user a (elements_of_model (proto_model structs protos i))) (MsgBlock "        " "        " "" rx_body)) k
         = Some (rx_case name (id_text id))
       /\ dispatch (ifc_of i) unh msg = [Handler k (take size msg)].
Proof. exact delivery_engine. Qed.
Print Assumptions C13_delivery_engine.

Example C13_receiver_engine_nonvacuous :
  rx_wf [] [] [("Ping"%string, 0, 12); ("Pong"%string, 7, 16)] [] = true
  /\ map (fun x => rx_case (fst (fst x)) (id_text (snd (fst x)))) [("Ping"%string, 0, 12); ("Pong"%string, 7, 16)]
     = [("        case 0: OnPingReceived(reinterpret_cast<const Ping*>(&data_buffer[0])); break;" ++ nl_str)%string;
        ("        case 7: OnPongReceived(reinterpret_cast<const Pong*>(&data_buffer[0])); break;" ++ nl_str)%string].
Proof. split; vm_compute; reflexivity. Qed.
Print Assumptions C13_receiver_engine_nonvacuous.

(* The transmitter, for every int8 retries argument and EVERY behaviour of the connection (accept k = answer of the k-th
   SendData call): it returns true iff one of the first retries+1 attempts (none, if retries < 0) is accepted; it stops
   right after the first accepted attempt (calls = index of the first accept + 1, every earlier attempt was rejected), and
   after retries+1 rejected attempts otherwise. *)
Theorem C13_retry : forall retries accept,
  int8_ok retries = true ->
  exists ok calls, transmit retries accept = Some (ok, calls) /\
    (ok = true <-> exists k, (k < attempts retries)%nat /\ accept k = true) /\
    (ok = true -> exists k, calls = S k /\ accept k = true /\ forall j, (j < k)%nat -> accept j = false) /\
    (ok = false -> calls = attempts retries) /\
    (calls <= attempts retries)%nat.
Proof. exact transmit_meaning. Qed.
Print Assumptions C13_retry.

(* sizeof(Msg) < 2^16 is forced: SendData takes `const uint16& number_of_bytes`.  A well-formed message of 65544 bytes is
   sent as its first 8 bytes only; the receiving side delivers nothing and waits for a payload that never comes. *)
Definition big_msg (p0 p1 : byte) : list byte :=
  [p0; p1; ascii_of_N 1; ascii_of_N 0] ++ le_encode 4 65536 ++ repeat zero_byte (N.to_nat 65536).

Theorem C13_round_trip_refuted :
  exists p0 p1 m, wf_msg p0 p1 m = true /\ len m = 65544 /\ len (sent_bytes m) = 8 /\
    exists st, feed p0 p1 init [sent_bytes m] = Done st [] /\ len (buf st) = 8 /\ required st = 65536.
Proof.
  exists (ascii_of_N 170), (ascii_of_N 85), (big_msg (ascii_of_N 170) (ascii_of_N 85)).
  split; [vm_compute; reflexivity |]. split; [vm_compute; reflexivity |]. split; [vm_compute; reflexivity |].
  eexists. split; [vm_compute; reflexivity |]. split; vm_compute; reflexivity.
Qed.
Print Assumptions C13_round_trip_refuted.

(* Which interfaces of the C12 domain the round trip covers.  In the generated program sizeof(<Msg>) = 8 + the recursive sum
   of the member sizes (C12), SendData is handed the whole message iff that is < 2^16 ([transmittable], evaluated by the check
   on every generated interface), and the C12 domain itself (wf_iface bounds payloads by 2^32 only) contains interfaces beyond
   it: struct nesting multiplies sizes (known finding K-C13-1, identified by the interface IBig / big_iface). *)
Theorem C13_transmittable_bound : forall i m, ProtoLang.wf_iface i = true -> In m (ProtoLang.i_msgs i) ->
  option_map Layout.si_size (Layout.layout_of (ProtoLang.emit i) (ProtoLang.m_name m)) = Some (msg_sizeof m) /\
  (forall bytes, len bytes = msg_sizeof m -> (sent_bytes bytes = bytes <-> transmittable m = true)).
Proof.
  intros i m W Hm. split; [exact (msg_sizeof_is_sizeof i m W Hm) |].
  intros bytes Hl. rewrite sent_whole_iff, Hl. unfold transmittable. change (2 ^ send_len_bits) with 65536.
  symmetry. apply N.ltb_lt.
Qed.
Print Assumptions C13_transmittable_bound.

Theorem C13_domain_exceeds_bound_refuted :
  ProtoLang.wf_iface big_iface = true /\
  forall m, In m (ProtoLang.i_msgs big_iface) -> msg_sizeof m = 65544 /\ transmittable m = false.
Proof. exact domain_exceeds_bound. Qed.
Print Assumptions C13_domain_exceeds_bound_refuted.

(* ---- non-vacuity ---- *)
Definition ex_b (n : N) : byte := ascii_of_N n.
Definition ex_m (tid : N) (payload : list byte) : list byte :=
  [ex_b 170; ex_b 85] ++ le_encode 2 tid ++ le_encode 4 (len payload) ++ payload.
Definition ex_ifc : iface := [(1, 9); (7, 8); (300, 12)].
Definition ex_msgs : list (list byte) :=
  [ex_m 300 [ex_b 1; ex_b 2; ex_b 170; ex_b 85]; ex_m 7 []; ex_m 9 [ex_b 5]; ex_m 1 [ex_b 170]].
Definition ex_chunks : list (list byte) :=
  let s := concat ex_msgs in [firstn 3 s; firstn 10 (skipn 3 s); []; firstn 9 (skipn 13 s); skipn 22 s].

Example C13_round_trip_nonvacuous :
  forallb (sendable (ex_b 170) (ex_b 85)) ex_msgs = true /\ forallb chunk_ok ex_chunks = true /\
  concat ex_chunks = concat (map sent_bytes ex_msgs) /\ iface_ok ex_ifc = true /\
  round_trip (ex_b 170) (ex_b 85) ex_ifc true ex_chunks
  = Some [Handler 2 (ex_m 300 [ex_b 1; ex_b 2; ex_b 170; ex_b 85]); Handler 1 (ex_m 7 []);
          NotHandled (ex_m 9 [ex_b 5]); Handler 0 (ex_m 1 [ex_b 170])].
Proof. vm_compute. repeat split; reflexivity. Qed.
Print Assumptions C13_round_trip_nonvacuous.

Example C13_retry_nonvacuous :
  int8_ok default_retries = true /\
  transmit default_retries (fun k => Nat.leb 3 k) = Some (true, 4%nat) /\     (* rejects the first 3 attempts *)
  transmit default_retries (fun k => Nat.leb 6 k) = Some (false, 6%nat) /\    (* rejects 6 = retries + 1 attempts *)
  transmit default_retries (fun k => Nat.leb 5 k) = Some (true, 6%nat) /\     (* accepted at the last allowed attempt *)
  transmit (-1) (fun _ => true) = Some (false, 0%nat) /\
  transmit 127 (fun _ => false) = Some (false, 128%nat).
Proof. vm_compute. repeat split; reflexivity. Qed.
Print Assumptions C13_retry_nonvacuous.
