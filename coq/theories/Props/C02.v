(* C02 -- Model evolution: surviving tags keep their code, the rest follows the new model. *)
From Coq Require Import String List Bool.
From KV Require Import Lib.Str Lib.ODict Model.PreserveCore Model.Preserve
                       Proofs.PreserveCoreProofs Proofs.PreserveStr Proofs.PreserveTree Proofs.PreserveTop.
Import ListNotations.
Open Scope string_scope.

(* One file.  Old content: model [its] with user blocks [u].  New fresh file [fresh'] of ANY other model
   (tag pairs added, removed, renamed, reordered, re-indented, other comment style).  The regenerated file
   is the new fresh file with, under each tag, the old block of the same cleaned name -- and nothing else:
   text outside tag pairs is the new model's, independent of the old model and of the user blocks; a block is
   never attached to a tag of a different name. *)
Theorem C02_evolution : forall path (u : string -> list string) its fresh' its',
  wfb its = true -> items_okb its = true -> (forall k, block_ok (u k) = true) ->
  parse_items fresh' = Some its' -> Forall (wf_fresh_item kof kpfx) its' ->
  fst (regen_file path fresh' (on_disk u its))
  = on_disk (fun k => if memk String.eqb k (pair_keys kof its) then u k else []) its'.
Proof. exact regen_file_evolution. Qed.
Print Assumptions C02_evolution.

(* "generated text outside tag pairs never depends on the old model": the regenerated file depends on the OLD file only
   through the blocks that survive -- two old files, of any two old models and with any text outside their tags, whose
   surviving blocks agree regenerate to the same bytes *)
Theorem C02_old_model_irrelevant : forall path (u1 u2 : string -> list string) its1 its2 fresh' its',
  wfb its1 = true -> items_okb its1 = true -> (forall k, block_ok (u1 k) = true) ->
  wfb its2 = true -> items_okb its2 = true -> (forall k, block_ok (u2 k) = true) ->
  parse_items fresh' = Some its' -> Forall (wf_fresh_item kof kpfx) its' ->
  (forall k, (if memk String.eqb k (pair_keys kof its1) then u1 k else [])
           = (if memk String.eqb k (pair_keys kof its2) then u2 k else [])) ->
  fst (regen_file path fresh' (on_disk u1 its1)) = fst (regen_file path fresh' (on_disk u2 its2)).
Proof. exact old_model_irrelevant. Qed.
Print Assumptions C02_old_model_irrelevant.

(* The whole directory. *)
Theorem C02_tree_evolution : forall outdir fresh0 fresh1 U,
  fresh_ok fresh0 -> blocks_ok U -> names_ok (keys fresh1) ->
  (forall fn lines, slookup fn fresh1 = Some lines -> wf_new_file lines = true) ->
  let r := regen outdir (dir_of fresh0 U) fresh1 in
  (forall fn lines1, slookup fn fresh1 = Some lines1 ->
     slookup fn (fst r) = Some (match slookup fn fresh0 with
                                | Some lines0 => on_disk (surviving lines0 (U fn)) (items_of lines1)
                                | None => concat_lines (map tab4 lines1)
                                end))
  /\ (forall k, ~ In k (keys fresh1) -> (forall fn, In fn (keys fresh1) -> k <> lost_name fn) ->
        slookup k (fst r) = None).
Proof. exact tree_evolution. Qed.
Print Assumptions C02_tree_evolution.

(* chains of models: a chain step is [C02_evolution]; because its result is again of the form [on_disk u' its']
   the next step applies to it (the blocks that did not survive step i are NOT restored at step j > i). *)
Theorem C02_chain_step_shape : forall path (u : string -> list string) its fresh' its',
  wfb its = true -> items_okb its = true -> (forall k, block_ok (u k) = true) ->
  parse_items fresh' = Some its' -> Forall (wf_fresh_item kof kpfx) its' ->
  exists u', (forall k, block_ok (u' k) = true) /\
             fst (regen_file path fresh' (on_disk u its)) = on_disk u' its' /\
             (forall k, u' k = u k \/ u' k = []).
Proof. exact chain_step_shape. Qed.
Print Assumptions C02_chain_step_shape.

(* chains of any length: after regenerating with the models f1, f2, ..., fn in turn, the directory holds the fresh file
   of fn with, under each tag, the ORIGINAL block iff that tag name was emitted by every model of the chain so far;
   text outside tags is fn's alone *)
Theorem C02_chain : forall path ms its (u : string -> list string),
  wfb its = true -> items_okb its = true -> (forall k, block_ok (u k) = true) ->
  Forall (fun f => wf_fresh_file f = true) ms ->
  chain path (on_disk u its) ms = on_disk (snd (chain_end its u ms)) (fst (chain_end its u ms)).
Proof. exact chain_evolution. Qed.
Print Assumptions C02_chain.

Definition ex_old : list (item string) :=
  [Plain (bs [97;10]); Pair (bs [47;47;32;123;123;123;85;83;69;82;95;88;125;125;125;10]) (bs [47;47;32;123;123;123;85;83;69;82;95;88;125;125;125;10]);
   Pair (bs [35;123;123;123;85;83;69;82;95;89;10]) (bs [35;123;123;123;85;83;69;82;95;89;10])].
Definition ex_new : list string :=
  [bs [35;32;32;123;123;123;85;83;69;82;95;89;10]; bs [35;32;32;123;123;123;85;83;69;82;95;89;10]; bs [110;101;119;10];
   bs [123;123;123;85;83;69;82;95;90;10]; bs [123;123;123;85;83;69;82;95;90;10]].
Definition ex_u2 (k : string) : list string := [bs [99;111;100;101;10]].

Example C02_evolution_nonvacuous :
  exists its', wfb ex_old = true /\ items_okb ex_old = true /\ (forall k, block_ok (ex_u2 k) = true)
    /\ parse_items ex_new = Some its' /\ forallb wf_fresh_itemb its' = true
    /\ fst (regen_file "p" ex_new (on_disk ex_u2 ex_old))
       = concat_lines [bs [35;32;32;123;123;123;85;83;69;82;95;89;10]; bs [99;111;100;101;10]; bs [35;32;32;123;123;123;85;83;69;82;95;89;10];
                       bs [110;101;119;10]; bs [123;123;123;85;83;69;82;95;90;10]; bs [123;123;123;85;83;69;82;95;90;10]].
Proof. eexists. repeat split; try (vm_compute; reflexivity). Qed.
Print Assumptions C02_evolution_nonvacuous.
