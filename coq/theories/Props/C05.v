(* C05 -- Interrupted generation never destroys an existing file (per-file atomicity). *)
From Coq Require Import String List Bool.
From KV Require Import Lib.Str Lib.ODict Model.Preserve Model.Output Model.Inventory Gen.Inventory
                       Proofs.OutputProofs Proofs.DeterminismProofs.
Import ListNotations.
Open Scope string_scope.

(* The output stage is a list of jobs (target path, chunks); createoutput and FileCopyUtil are instances.
   Interrupt it just before ANY operation k (any open, any line write, any close, any rename), from ANY initial state
   (file system + buffers): every path that is not a temporary name holds afterwards either exactly what it held before or
   the complete new content of its job.  Two interruption modes. *)

(* abrupt process death: buffers are lost, nothing else runs *)
Theorem C05_atomic_killed : forall jobs k s p, jobs_okb jobs = true -> is_tmp p = false ->
  let d := crash_kill k (jobs_ops jobs) s in
  fs_get p d = fs_get p (disk_fs s) \/ (new_content jobs p <> None /\ fs_get p d = new_content jobs p).
Proof. exact atomic_kill. Qed.
Print Assumptions C05_atomic_killed.

(* raised error (exception, full disk, encoding error): the with block closes the file, the handler removes the temporary *)
Theorem C05_atomic_exception : forall jobs k s p, jobs_okb jobs = true -> is_tmp p = false ->
  let d := crash_exn k (jobs_ops jobs) s in
  fs_get p d = fs_get p (disk_fs s) \/ (new_content jobs p <> None /\ fs_get p d = new_content jobs p).
Proof. exact atomic_exn. Qed.
Print Assumptions C05_atomic_exception.

(* an uninterrupted run gives every target its complete content and leaves every other non-temporary path alone *)
Theorem C05_complete_run : forall jobs s p, jobs_okb jobs = true -> is_tmp p = false ->
  fs_get p (disk_fs (run (jobs_ops jobs) s))
  = match new_content jobs p with Some c => Some c | None => fs_get p (disk_fs s) end.
Proof. exact complete_run. Qed.
Print Assumptions C05_complete_run.

(* Everything the generator does to the file system is one of the operations above: every file-system mutating call
   reachable from the public entry points (AST scan of /repo, regenerated on every run) is one the model accounts for.
   In particular nothing before the output stage touches a pre-existing file. *)
Theorem C05_fs_mutations_closed : closed scanned_fs_mutations known_fs_mutations = true.
Proof. exact fs_mutations_closed. Qed.
Print Assumptions C05_fs_mutations_closed.

(* non-vacuity: two jobs over a directory holding hand-written files; EVERY interruption point, both modes *)
Definition ex_jobs : list (string * list string) :=
  createoutput_jobs "out" [("A.py", [bs [97;9;10]; bs [98;10]]); ("d/B.h", [bs [99;10]])].
Definition ex_fs : pstate := mkP [("out/A.py", "precious"); ("out/d/B.h", "old B"); ("out/other.txt", "keep")] [].
Definition old_or_new (d : fsys) (p : string) : bool :=
  match fs_get p d, fs_get p (disk_fs ex_fs), new_content ex_jobs p with
  | Some c, Some o, Some n => String.eqb c o || String.eqb c n
  | Some c, Some o, None => String.eqb c o
  | _, _, _ => false
  end.
Example C05_nonvacuous :
  jobs_okb ex_jobs = true /\
  forallb (fun k => forallb (old_or_new (crash_kill k (jobs_ops ex_jobs) ex_fs)) ["out/A.py"; "out/d/B.h"; "out/other.txt"] &&
                    forallb (old_or_new (crash_exn k (jobs_ops ex_jobs) ex_fs)) ["out/A.py"; "out/d/B.h"; "out/other.txt"])
          (seq 0 (S (length (jobs_ops ex_jobs)))) = true /\
  fs_get "out/A.py" (crash_kill 3 (jobs_ops ex_jobs) ex_fs) = Some "precious" /\
  fs_get "out/A.py" (disk_fs (run (jobs_ops ex_jobs) ex_fs)) = Some (bs [97;32;32;32;32;10;98;10]).
Proof. repeat split; vm_compute; reflexivity. Qed.
Print Assumptions C05_nonvacuous.
