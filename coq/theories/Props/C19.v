(* C19 -- UML class generation is complete, namespace-faithful and self-consistent.
   Only statements, each closed by [exact], each followed by Print Assumptions. *)
From Coq Require Import String List Bool.
From KV Require Import Lib.Str Model.Vpp Gen.UmlSrc Model.Uml Proofs.UmlProofs.
Import ListNotations.
Open Scope string_scope.

(* Declarations vs definitions.  d: ANY abstract class diagram (classes with any flags, operations, any inheritance entries,
   also dangling or cyclic ones), c: any class, fuel: any recursion budget for which the header side (the three visibility
   sections) and the source side ("all") both return (None = Python RecursionError / KeyError).  Then for EVERY predicate P
   on emitted operations the header and the source emit the same number of operations satisfying P: the two lists are
   permutations of each other.  The declaration line (decl_line) and the definition head (def_head) are renderings of the
   SAME entry, so they carry the same signature (defaults appear only in decl_line). *)
Theorem C19_decl_def : forall (d : cdiagram) (fuel : nat) (c : cls) (dl df : list entry) (P : entry -> bool),
  wf_vis d = true -> forallb vis3 (c_ops c) = true ->
  decls_of fuel d c = Some dl -> defs_of fuel d c = Some df ->
  count P dl = count P df.
Proof. exact decl_def_count. Qed.
Print Assumptions C19_decl_def.

(* Multiplicity one: when the operations emitted for the source file are pairwise different (NoDup), every one of them is
   defined exactly once -- and by C19_decl_def declared exactly once.
   FULL STATEMENT (false, K-C19-1): "every declared operation has exactly one definition" without the NoDup hypothesis; an
   operation that is declared in the class and also realised from an interface, or reached through two interfaces, is
   emitted twice on both sides. *)
Theorem C19_decl_def_unique_partial : forall (eqb : entry -> entry -> bool) (df : list entry) (e : entry),
  (forall a b, eqb a b = true <-> a = b) -> NoDup df -> In e df -> count (eqb e) df = 1.
Proof. exact (fun eqb df e => count_one_of_nodup eqb df e). Qed.
Print Assumptions C19_decl_def_unique_partial.

(* Realised interfaces: if class c realises the pure virtual interface p (an inheritance entry whose CLASS_TO_ID mentions c's
   id, flagged as realisation), every operation o of p whose visibility matches the section is emitted for c -- defined as
   c::o, declared with 'override' (C19_realised_rendering) -- whenever generation returns at all. *)
Theorem C19_realised : forall (d : cdiagram) (fuel : nat) (vis : string) (c : cls) (i : inh) (p : cls) (o : oper) (l : list entry),
  In i (inhs d) -> contains (c_id c) (i_to i) = true -> i_real i = true ->
  find_class (classes d) (i_from i) = Some p -> c_pure p = true ->
  In o (c_ops p) -> vis_match vis o = true -> c_name c <> "" ->
  ops_of (S (S fuel)) d vis "" c = Some l ->
  In {| en_class := c_name c; en_owner := c_name p; en_owner_pure := true; en_realised := true; en_op := o |} l.
Proof. exact realised_emitted. Qed.
Print Assumptions C19_realised.

Theorem C19_realised_rendering : forall cn pn o, exists pre,
  decl_line {| en_class := cn; en_owner := pn; en_owner_pure := true; en_realised := true; en_op := o |} = pre ++ " override;".
Proof. exact realised_rendering. Qed.
Print Assumptions C19_realised_rendering.

(* Cyclic realisation: for the diagram  CImpl --realises--> ILoop --realises--> ILoop  no fuel suffices (Python: RecursionError);
   this is why the theorems above speak about runs that return. *)
Theorem C19_cycle_refuted : exists d c, forall fuel vis, ops_of fuel d vis "" c = None.
Proof. exact (ex_intro _ cyc_diagram (ex_intro _ cyc_class cycle_none)). Qed.
Print Assumptions C19_cycle_refuted.

(* The generator's classification still has the shape kind_of models (Gen/UmlSrc.v is regenerated from umlgen.py). *)
Theorem C19_source_shape : kind_tests =
  ["not classobj.IS_ENUM and (not classobj.IS_STRUCT) and (not classobj.AUTOGEN) and (not classobj.PURE_VIRTUAL_INTERFACE)";
   "not classobj.IS_ENUM and (not classobj.IS_STRUCT) and (not classobj.AUTOGEN) and classobj.PURE_VIRTUAL_INTERFACE";
   "classobj.IS_ENUM and (not classobj.IS_STRUCT)";
   "not classobj.IS_ENUM and classobj.IS_STRUCT"].
Proof. exact kind_tests_pinned. Qed.
Print Assumptions C19_source_shape.
