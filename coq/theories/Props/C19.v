(* C19 -- UML class generation is complete, namespace-faithful and self-consistent.
   Only statements, each closed by [exact], each followed by Print Assumptions. *)
From Coq Require Import String Ascii List Bool Sorting.Sorted.
From KV Require Import Lib.Str Model.Vpp Gen.UmlSrc Gen.UmlCsSrc Model.Uml Model.UmlCs Spec.UmlSpec Proofs.UmlProofs Proofs.UmlFiles
                       Proofs.UmlUnique Proofs.UmlCsFiles Proofs.UmlCsOps Proofs.UmlCsPins Proofs.UmlCsTop
                       Model.UmlIncl Gen.UmlInclSrc Proofs.SortedSet Proofs.UmlInclSorted Proofs.UmlInclCover Proofs.UmlInclPins
                       Model.UmlBlob Model.UmlWriter Gen.UmlBlobShipped Proofs.UmlBlobDefs Proofs.UmlBlobStruct Proofs.UmlBlobText
                       Proofs.UmlBlobTop Proofs.UmlBlobRound Proofs.UmlBlobVis Proofs.UmlBlobCompose Proofs.UmlBlobCalib Proofs.UmlBlobPins
                       Model.UmlDomain Model.UmlSem Gen.UmlSemShipped Proofs.UmlSemExample Proofs.UmlSemCalib Proofs.UmlSemTop Proofs.UmlCsFrom Proofs.UmlInclFrom.
Import ListNotations.
Open Scope string_scope.

(* Declarations vs definitions.  d: ANY abstract class diagram (classes with any flags, operations, any inheritance entries,
   also dangling or cyclic ones), c: any class, fuel: any recursion budget for which the header side (the three visibility
   sections) and the source side ("all") both return (None = Python RecursionError / KeyError).  Then for EVERY predicate P
   on emitted operations the header and the source emit the same number of operations satisfying P: the two lists are
   permutations of each other.  The declaration line (decl_line) and the definition head (def_head) are renderings of the
   SAME entry, so they carry the same signature (defaults appear only in decl_line). *)
Theorem C19_decl_def : forall (d : cdiagram) (fuel : nat) (c : cls) (dl df : list entry) (P : entry -> bool),
  wf_vis d = true -> forallb vis3 (c_ops c) = true ->
  decls_of fuel d c = Some dl -> defs_of fuel d c = Some df ->
  count P dl = count P df.
Proof. exact decl_def_count. Qed.
Print Assumptions C19_decl_def.

(* Multiplicity one.  once_hyp d c (boolean, extracted, evaluated on every generated diagram) = "no operation is reached through
   two paths": c declares no signature (name, parameter types, constness) twice, and among the operations of the pure virtual
   interfaces GetOperationPerVisibility visits from c -- every realisation path counted (visited) -- no signature occurs twice.
   Then EVERY operation emitted for c is defined exactly once in the source file and declared exactly once in the header
   (signatures compared: two different interfaces demanding the same member function count as the same operation).
   The known exception K-C19-1b is exactly the failure of the hypothesis (C19_twice_refuted: an interface reached through two
   realisation paths: once_hyp = false and its operation is defined twice, both times as  void C::f() ). *)
Theorem C19_decl_def_unique : forall (d : cdiagram) (c : cls) (df dl : list entry) (e : entry),
  c_name c <> "" -> once_hyp d c = true -> wf_vis d = true -> forallb vis3 (c_ops c) = true ->
  defs_of (List.length (classes d)) d c = Some df -> decls_of (List.length (classes d)) d c = Some dl -> In e df ->
  count (fun x => key_eqb (sig_key (en_op x)) (sig_key (en_op e))) df = 1
  /\ count (fun x => key_eqb (sig_key (en_op x)) (sig_key (en_op e))) dl = 1.
Proof. exact once_unique_count. Qed.
Print Assumptions C19_decl_def_unique.

(* ... for every visibility section: no two emitted operations share a signature *)
Theorem C19_ops_unique : forall (d : cdiagram) (vis : string) (c : cls) (l : list entry),
  c_name c <> "" -> once_hyp d c = true -> ops_of (List.length (classes d)) d vis "" [] c = Some l ->
  keys_nodup (map (fun e => sig_key (en_op e)) l) = true.
Proof. exact once_unique. Qed.
Print Assumptions C19_ops_unique.

Example C19_twice_refuted :
  once_hyp diamond diamond_c = false
  /\ (exists df, defs_of 4 diamond diamond_c = Some df /\ count (fun x => key_eqb (sig_key (en_op x)) (sig_key diamond_f)) df = 2).
Proof. exact diamond_twice. Qed.
Print Assumptions C19_twice_refuted.

Example C19_decl_def_unique_nonvacuous : once_hyp ok_diagram cyc_class = true /\ c_name cyc_class <> "".
Proof. exact once_nonvacuous. Qed.
Print Assumptions C19_decl_def_unique_nonvacuous.

(* Realised interfaces: if class c realises the pure virtual interface p (an inheritance entry whose CLASS_TO_ID mentions c's
   id, flagged as realisation), every operation o of p whose visibility matches the section is emitted for c -- defined as
   c::o, declared with 'override' (C19_realised_rendering) -- unless c declares an operation of the same signature (name,
   parameter types, constness) itself, which then IS the override (the repaired code no longer emits it twice). *)
Theorem C19_realised : forall (d : cdiagram) (fuel : nat) (vis : string) dcl (c : cls) (i : inh) (p : cls) (o : oper) (l : list entry),
  In i (inhs d) -> contains (c_id c) (i_to i) = true -> i_real i = true ->
  find_class (classes d) (i_from i) = Some p -> c_pure p = true ->
  In o (c_ops p) -> vis_match vis o = true -> c_name c <> "" ->
  existsb (key_eqb (sig_key o)) (declared_of c) = false ->
  ops_of (S (S fuel)) d vis "" dcl c = Some l ->
  In {| en_class := c_name c; en_owner := c_name p; en_owner_pure := true; en_realised := true; en_op := o |} l.
Proof. exact realised_emitted. Qed.
Print Assumptions C19_realised.

Theorem C19_realised_rendering : forall cn pn o, exists pre,
  decl_line {| en_class := cn; en_owner := pn; en_owner_pure := true; en_realised := true; en_op := o |} = pre ++ " override;".
Proof. exact realised_rendering. Qed.
Print Assumptions C19_realised_rendering.

(* Cyclic realisation: for the diagram  CImpl --realises--> ILoop --realises--> ILoop  no fuel suffices (Python: RecursionError);
   this is why the theorems above speak about runs that return. *)
Theorem C19_cycle_refuted : exists d c, forall fuel vis, ops_of fuel d vis "" [] c = None.
Proof. exact (ex_intro _ cyc_diagram (ex_intro _ cyc_class cycle_none)). Qed.
Print Assumptions C19_cycle_refuted.

(* The generator's classification still has the shape kind_of models (Gen/UmlSrc.v is regenerated from umlgen.py). *)
Theorem C19_source_shape : kind_tests =
  ["not classobj.IS_ENUM and (not classobj.IS_STRUCT) and (not classobj.AUTOGEN) and (not classobj.PURE_VIRTUAL_INTERFACE)";
   "not classobj.IS_ENUM and (not classobj.IS_STRUCT) and (not classobj.AUTOGEN) and classobj.PURE_VIRTUAL_INTERFACE";
   "classobj.IS_ENUM and (not classobj.IS_STRUCT)";
   "not classobj.IS_ENUM and classobj.IS_STRUCT"].
Proof. exact kind_tests_pinned. Qed.
Print Assumptions C19_source_shape.

(* Acyclic diagrams never run out of fuel: with acyclic d (no realisation / generalisation cycle among pure virtual interfaces
   reachable from a class; C19_acyclic_excludes_cycles) and closed d (no inheritance entry to a class outside the diagram), the
   recursion budget "number of classes" suffices for every class, so C19_decl_def is a statement about ALL such diagrams:
   header side and source side both return and emit the same operations. *)
Theorem C19_decl_def_acyclic : forall (d : cdiagram) (c : cls) (P : entry -> bool),
  acyclic d = true -> closed d = true -> wf_vis d = true -> In c (classes d) ->
  exists dl df, decls_of (List.length (classes d)) d c = Some dl /\ defs_of (List.length (classes d)) d c = Some df
                /\ count P dl = count P df.
Proof. exact acyclic_decl_def. Qed.
Print Assumptions C19_decl_def_acyclic.

(* acyclic is not a vacuous name: any set of classes in which every member has a parent edge into the set (the classes on a
   cycle) contains no class that is bounded by any n; so acyclic d = true excludes every cycle through a class of d.
   (The converse -- no cycle implies bounded by the number of classes -- is the pigeonhole principle; it is NOT proved here
   and no theorem above depends on it.) *)
Theorem C19_acyclic_excludes_cycles : forall (d : cdiagram) (S : list cls),
  (forall x, In x S -> exists y, In y S /\ In y (edge_parents d x)) -> forall n x, In x S -> bounded n d x = false.
Proof. exact cycle_unbounded. Qed.
Print Assumptions C19_acyclic_excludes_cycles.

Example C19_decl_def_acyclic_nonvacuous :
  acyclic ok_diagram = true /\ closed ok_diagram = true /\ wf_vis ok_diagram = true /\ acyclic cyc_diagram = false
  /\ option_map (map def_head) (defs_of 3 ok_diagram cyc_class) = Some ["int CImpl::G() const"; "void CImpl::F()"].
Proof. exact ok_diagram_facts. Qed.
Print Assumptions C19_decl_def_acyclic_nonvacuous.

(* Files.  For every diagram whose class names are non-empty and free of '.' and '/' (path_ok) and in which no two generated
   elements are asked into the same file (distinct_paths -- exactly what fails in K-C19-5), the code model built by
   loadtemplates_firstfiltering from the shipped C++ templates has exactly the keys expected_files lists, each owned by its
   class: for every element spec_exts gives the extensions (C19_files_meaning: a header for every element that is not
   stereotyped as generated elsewhere, a source file in addition exactly for concrete classes), placed under
   folder_chain(namespace)/ when namespace folders are requested (C19_folder_chain: A::B::C -> A/B/C). *)
Theorem C19_files : forall (nsf : bool) (d : cdiagram),
  files_hyp nsf d = true -> files_of template_files nsf d = expected_files nsf d.
Proof. exact files_of_expected. Qed.
Print Assumptions C19_files.

Theorem C19_files_meaning : forall c, c_autogen c = false -> c_enum c && c_struct c = false ->
  spec_exts c = ".h" :: (if concrete c then [".cpp"] else []).
Proof. exact spec_exts_meaning. Qed.
Print Assumptions C19_files_meaning.

Theorem C19_folder_chain : forall ns, ns_path ns = join "/" (split2 ":" ":" ns).
Proof. exact ns_path_chain. Qed.
Print Assumptions C19_folder_chain.

Example C19_files_nonvacuous :
  files_hyp true ok_diagram = true /\ files_hyp false ok_diagram = true
  /\ map fst (expected_files true ok_diagram) = ["N/CImpl.h"; "N/CImpl.cpp"; "N/ILoop.h"; "N/IBase.h"].
Proof. repeat split; vm_compute; reflexivity. Qed.
Print Assumptions C19_files_nonvacuous.

(* Namespace wrap.  With comps = ns.split("::"): ns_begin is the opening text without its first blank, ns_end the closing
   text without its first blank followed by the comment naming ns; opening ++ body ++ closing is EXACTLY the properly nested
   chain  namespace c1 { namespace c2 { ... body ... } }  (wrap: one closing brace per opened namespace, innermost first),
   and the comment names the same chain (ns = "::".join(comps)). *)
Theorem C19_namespace_balanced : forall ns body,
  ns_begin ns = lstrip_sp (ns_open_raw ns) /\ ns_end ns = lstrip (ns_close_raw ns) ++ " // end namespace " ++ ns
  /\ ns_open_raw ns = String SP (ns_begin ns) /\ ns_close_raw ns = String SP (lstrip (ns_close_raw ns))
  /\ ns_open_raw ns ++ body ++ ns_close_raw ns = wrap (split2 ":" ":" ns) body
  /\ join "::" (split2 ":" ":" ns) = ns.
Proof. exact namespace_balanced. Qed.
Print Assumptions C19_namespace_balanced.

(* ====================================================================================================================
   INCLUDES AND FORWARD DECLARATIONS of the generated C++ (Model/UmlIncl.v).  d : idiagram = the RAW diagram the computation works
   on: classes with the qualified type names, modifiers and multiplicities of their attributes, parameters and return types;
   inheritance entries with the qualified name of the base; associations with both ends.  nfd d c = Class.GetNotForwardDeclarable-
   NonPrimitiveTypesLinkedToThis (what the header needs COMPLETE: base classes / realised interfaces, value members, value
   parameters and returns, composition targets), fd d c = GetForwardDeclarable... (pointer / reference members, parameters,
   returns, association and aggregation ends, minus the value uses), header_includes / source_includes / forward_decls = the
   lines LanguageCPP puts into the header / the source file.  "Accepted by a C++ compiler" itself stays an observation (g++). *)

(* COVER: names well formed (class names non-empty without ':', namespace components likewise).  For every class k OF THE DIAGRAM
   whose qualified name the header of c uses by value, the header has the line  #include "<rel>/<k>.h"  where rel is k's namespace
   as seen from c's folder (nothing for c's own namespace, the remainder for a namespace nested in c's, the whole chain
   otherwise) when namespace folders are on, and nothing when they are off ... *)
Theorem C19_includes_cover : forall (fuel : nat) (nsf : bool) (d : idiagram) (c k : icls) (l : list string),
  incl_names_ok d = true -> In c (i_classes d) -> In k (i_classes d) ->
  In (qname k) (nfd_raw d c) ->
  header_includes fuel nsf d c = Some l ->
  In (spec_include nsf c k) l.
Proof. exact includes_cover. Qed.
Print Assumptions C19_includes_cover.

(* ... and that path IS the header C19_files generates for k (spec_folder / folder_chain of Spec/UmlSpec.v): relative to the
   folder of c's own header, or from the root of the output -- also for a same-named class of another package, a class
   without package and a class whose name occurs inside its package's name (K-C19-11 / K-C19-12 repaired) *)
Theorem C19_include_resolves : forall (nsf : bool) (c k : icls), incl_name_ok c = true -> incl_name_ok k = true ->
  let path := (if nsf && negb (String.eqb (rel_namespace c k) "") then replace_all "::" "/" (rel_namespace c k) ++ "/" else "") ++ ic_name k ++ ".h" in
  spec_folder nsf (ic_ns c) ++ path = spec_folder nsf (ic_ns k) ++ ic_name k ++ ".h"
  \/ path = spec_folder nsf (ic_ns k) ++ ic_name k ++ ".h".
Proof. exact include_resolves. Qed.
Print Assumptions C19_include_resolves.

(* a class used only through pointers / references is included by the SOURCE file *)
Theorem C19_source_includes_cover : forall (nsf : bool) (d : idiagram) (c k : icls),
  incl_names_ok d = true -> In c (i_classes d) -> In k (i_classes d) -> In (qname k) (fd d c) ->
  In (spec_include nsf c k) (source_includes nsf d c).
Proof. exact source_cover. Qed.
Print Assumptions C19_source_includes_cover.

(* every type a class uses through a pointer or reference (member, parameter, return, association / aggregation end) is forward
   declarable or -- when it is also used by value -- among the included ones; a forward declarable type is declared as
   class <name>;  inside  namespace <its namespace> { ... } *)
Theorem C19_pointer_use_covered : forall (d : idiagram) (c : icls) (t : string),
  In t (pointer_types c ++ assoc_pointers d c)%list -> In t (fd d c) \/ In t (nfd d c).
Proof. exact pointer_use_covered. Qed.
Print Assumptions C19_pointer_use_covered.

Theorem C19_forward_declared : forall (d : idiagram) (c : icls) (t : string), In t (fd d c) ->
  In (rstrip_char ":" (substring 0 (String.length t - String.length (List.last (split2 ":" ":" t) "")) t), List.last (split2 ":" ":" t) "")
     (flat_map (fun kv : string * list string => map (fun n => (fst kv, n)) (snd kv)) (ns_to_classes false (ic_ns c) (fd d c)))
  /\ In ("    class " ++ List.last (split2 ":" ":" t) "" ++ ";") (forward_decls d c)
  /\ In (ns_begin (rstrip_char ":" (substring 0 (String.length t - String.length (List.last (split2 ":" ":" t) "")) t))) (forward_decls d c).
Proof. exact forward_declared. Qed.
Print Assumptions C19_forward_declared.

(* <vector>: a to-many association end that becomes a member of c (or a to-many attribute / parameter, a [] return) brings
   #include <vector> into c's header *)
Theorem C19_vector_included : forall (fuel : nat) (nsf : bool) (d : idiagram) (c : icls) (l : list string),
  own_vector d c = true -> header_includes fuel nsf d c = Some l -> In "#include <vector>" l.
Proof. exact vector_included. Qed.
Print Assumptions C19_vector_included.

Theorem C19_to_many_end_vector : forall (d : idiagram) (c : icls) (m : string),
  In m (assoc_member_mults d c) -> is_vector m = true -> own_vector d c = true.
Proof. exact to_many_end_vector. Qed.
Print Assumptions C19_to_many_end_vector.

(* DETERMINISTIC ORDER: both dependency lists are sorted by FULL name (so two types of one name in different packages are
   ordered by their packages: le_s is a total order on the full names), hold no name twice, and depend only on the SET of names
   collected -- not on the order in which Python iterates the set, nor on how often a name was added (with
   C06_hash_order_irrelevant: sorted(set) is independent of the iteration order) *)
Theorem C19_includes_sorted : forall (d : idiagram) (c : icls),
  (StronglySorted le_s (nfd d c) /\ NoDup (nfd d c) /\ (forall x, In x (nfd d c) <-> In x (nfd_raw d c))
   /\ (forall l, (forall x, In x l <-> In x (nfd_raw d c)) -> sorted_set l = nfd d c))
  /\ (StronglySorted le_s (fd d c) /\ NoDup (fd d c) /\ (forall x, In x (fd d c) <-> In x (fd_raw d c))
      /\ (forall l, (forall x, In x l <-> In x (fd_raw d c)) -> sorted_set l = fd d c)).
Proof. exact (fun d c => conj (includes_sorted d c) (forward_sorted d c)). Qed.
Print Assumptions C19_includes_sorted.

Theorem C19_full_name_order : (forall a b : string, le_s a b \/ le_s b a) /\ (forall a b : string, le_s a b -> le_s b a -> a = b)
  /\ sorted_set ["B::K"; "A::K"; "B::K"] = ["A::K"; "B::K"].
Proof. exact (conj full_name_order (conj full_name_antisym same_name_tie)). Qed.
Print Assumptions C19_full_name_order.

(* the sources still have the shape the model was written against *)
Theorem C19_includes_source_shape : includes_expected.
Proof. exact include_pins. Qed.
Print Assumptions C19_includes_source_shape.

(* ====================================================================================================================
   THE C# BACK END (umlgen with LanguageCsharp; Model/UmlCs.v).  There is no C# compiler in this environment: nothing below
   says the output is accepted by one; the harness reads the generated .cs files with a tokenizer (brace balance, namespace
   chain, keyword and name of the type, the methods of the type with modifiers / body) as the independent oracle.
   The generator class is shared with C++; the template directory is classdiagram_templates/C# (one .cs template per kind,
   Gen/UmlSrc.v template_files_cs) plus the Project template; LanguageCsharp.GetOperationPerVisibility is the same recursion as
   LanguageCPP's on the C# view of the diagram (cs_view: constness is no part of a C# method; parameter types carry ref / out
   instead of const); C19_languages_source_shape pins the branch conditions, calls and templates of both back ends. *)

(* Files: under files_hyp_cs (well-formed names, no namespace starting with a separator, distinct paths -- evaluated on every
   generated input) the code model has exactly: ONE .cs file per generated element (class, interface = abstract class or
   Interface stereotype, enumeration, struct; nothing for enum+struct and for classes / interfaces generated elsewhere), in the
   folder chain of its namespace when namespace folders are requested, and the project files written after them -- one per
   namespace, in its folder, named after the FULLY QUALIFIED namespace (A/B/A::B.csproj: K-C19-9) with namespace folders, else
   one named after the diagram.  The C++ template directory has no Project template: C19_files is the whole C++ file set. *)
Theorem C19_files_cs : forall (nsf : bool) (dname : string) (d : cdiagram),
  files_hyp_cs nsf dname d = true -> files_all template_files_cs nsf dname d = expected_files_cs nsf dname d.
Proof. exact files_all_expected_cs. Qed.
Print Assumptions C19_files_cs.

Theorem C19_files_cs_meaning : forall c, c_autogen c = false -> c_enum c && c_struct c = false -> spec_exts_cs c = [".cs"].
Proof. exact spec_exts_cs_meaning. Qed.
Print Assumptions C19_files_cs_meaning.

Theorem C19_files_cpp_no_project : forall nsf dname d, files_all template_files nsf dname d = files_of template_files nsf d.
Proof. exact files_all_cpp. Qed.
Print Assumptions C19_files_cpp_no_project.

Example C19_files_cs_nonvacuous :
  files_hyp_cs true "D" ok_diagram = true /\ files_hyp_cs false "D" ok_diagram = true
  /\ map fst (expected_files_cs true "D" ok_diagram) = ["N/CImpl.cs"; "N/ILoop.cs"; "N/IBase.cs"; "N/N.csproj"].
Proof. exact files_cs_nonvacuous. Qed.
Print Assumptions C19_files_cs_nonvacuous.

(* Realised interfaces: every operation o of a pure virtual interface p that class c realises is emitted for c in the section
   of its visibility -- as a method of c WITH A BODY; when o is drawn abstract (virtual) and not static its text is
   visibility override ret name(params with defaults) (C19_realised_rendering_cs; only the keyword is rewritten since the repair of
   K-C19-8: C19_override_keyword_only_cs), otherwise it carries no override -- unless c declares an operation of the same C#
   signature (name, parameter types with ref / out) itself. *)
Theorem C19_realised_cs : forall (d : cdiagram) (fuel : nat) (vis : string) (c : cls) (i : inh) (p : cls) (o : oper) (l : list entry),
  In i (inhs d) -> contains (c_id c) (i_to i) = true -> i_real i = true ->
  find_class (classes d) (i_from i) = Some p -> c_pure p = true -> In o (c_ops p) -> vis_match vis o = true -> c_name c <> "" ->
  existsb (key_eqb (sig_key (cs_oper o))) (declared_of (cs_cls c)) = false ->
  ops_of_cs (S (S fuel)) d vis c = Some l ->
  In {| en_class := c_name c; en_owner := c_name p; en_owner_pure := true; en_realised := true; en_op := cs_oper o |} l.
Proof. exact realised_emitted_cs. Qed.
Print Assumptions C19_realised_cs.

Theorem C19_realised_rendering_cs : forall cn pn o,
  let e := {| en_class := cn; en_owner := pn; en_owner_pure := true; en_realised := true; en_op := o |} in
  cs_has_body e = true /\ cs_line e = cs_head e
  /\ (o_virtual o = true -> o_static o = false ->
      cs_head e = lower (o_vis o) ++ " override " ++ ret_of e ++ " " ++ o_name o ++ "(" ++ param_string true (o_params o) ++ ")").
Proof. exact realised_rendering_cs. Qed.
Print Assumptions C19_realised_rendering_cs.

(* an own operation: visibility [virtual | static] ret name(params); interfaces end it with ';' (defaults kept), classes give it a body *)
Theorem C19_own_rendering_cs : forall cn o pure,
  let e := {| en_class := cn; en_owner := cn; en_owner_pure := pure; en_realised := false; en_op := o |} in
  cs_has_body e = negb pure
  /\ cs_line e = lower (o_vis o) ++ " " ++ lstrip ((if o_virtual o && negb (o_static o) then "virtual " else if o_static o then "static " else "")
                                                   ++ ret_of e ++ " " ++ o_name o ++ "(" ++ param_string pure (o_params o) ++ ")") ++ (if pure then ";" else "").
Proof. exact own_rendering_cs. Qed.
Print Assumptions C19_own_rendering_cs.

Example C19_override_keyword_only_cs :
  cs_line {| en_class := "CImpl"; en_owner := "IFace"; en_owner_pure := true; en_realised := true;
             en_op := {| o_name := "virtualize"; o_vis := "public"; o_ret := "void";
                         o_params := [{| p_type := "int"; p_name := "_virtualAddress"; p_default := ""; p_ext := "" |}];
                         o_virtual := true; o_static := false; o_const := false |} |}
  = "public override void virtualize(int _virtualAddress)".
Proof. exact override_keyword_only_cs. Qed.
Print Assumptions C19_override_keyword_only_cs.

(* "Declared iff defined" has no header / source split in C#.  Its C# reading: the three visibility sections of the generated
   type (members_cs) together hold exactly the operations ONE call with visibility 'all' emits, each as often -- on acyclic,
   closed diagrams both return with fuel = number of classes -- and under once_hyp (on the C# view) each exactly once. *)
Theorem C19_once_cs : forall (d : cdiagram) (c : cls) (P : entry -> bool),
  acyclic d = true -> closed d = true -> wf_vis d = true -> In c (classes d) ->
  exists ms al, members_cs (List.length (classes d)) d c = Some ms /\ all_cs (List.length (classes d)) d c = Some al /\ count P ms = count P al.
Proof. exact once_cs. Qed.
Print Assumptions C19_once_cs.

Theorem C19_unique_cs : forall (d : cdiagram) (c : cls) (ms al : list entry) (e : entry),
  c_name c <> "" -> once_hyp (cs_view d) (cs_cls c) = true -> wf_vis d = true -> forallb vis3 (c_ops c) = true ->
  all_cs (List.length (classes d)) d c = Some al -> members_cs (List.length (classes d)) d c = Some ms -> In e al ->
  count (same_op e) al = 1 /\ count (same_op e) ms = 1.
Proof. exact once_unique_cs. Qed.
Print Assumptions C19_unique_cs.

(* Namespace wrap: LanguageCsharp's nested-namespace functions are, statement for statement, LanguageCPP's (pinned), so
   ns_begin ++ body ++ ns_end is the properly nested chain  namespace c1 { namespace c2 { ... } }  in the .cs files too; every
   C# template puts its type and its operation sections between the two tags, once (C19_templates_wrapped_cs). *)
Theorem C19_namespace_balanced_cs : ns_functions_cs = ns_functions_cpp /\ forall ns body,
  ns_begin ns = lstrip_sp (ns_open_raw ns) /\ ns_end ns = lstrip (ns_close_raw ns) ++ " // end namespace " ++ ns
  /\ ns_open_raw ns = String SP (ns_begin ns) /\ ns_close_raw ns = String SP (lstrip (ns_close_raw ns))
  /\ ns_open_raw ns ++ body ++ ns_close_raw ns = wrap (split2 ":" ":" ns) body
  /\ join "::" (split2 ":" ":" ns) = ns.
Proof. exact namespace_balanced_cs. Qed.
Print Assumptions C19_namespace_balanced_cs.

Theorem C19_templates_wrapped_cs :
  map (fun r => (fst r, fst (snd r))) template_files_cs_layout
  = [("ClassTemplate.cs", true); ("EnumTemplate.cs", true); ("InterfaceTemplate.cs", true); ("Project.csproj", false); ("StructTemplate.cs", true)].
Proof. exact templates_wrapped_cs. Qed.
Print Assumptions C19_templates_wrapped_cs.

(* Both back ends still have the shape the models were written against: the branch conditions, loops, DeclareFunction /
   recursive calls and signature of GetOperationPerVisibility, DeclareFunction, ParameterString (equal in both), the namespace
   functions (equal in both), the template layouts and the project-file block of umlgen (Gen/UmlCsSrc.v is regenerated). *)
Theorem C19_languages_source_shape : languages_expected.
Proof. exact language_pins. Qed.
Print Assumptions C19_languages_source_shape.

(* ====================================================================================================================
   THE INPUT ADAPTOR: project rows -> the class diagram the theorems above speak about (Model/UmlBlob.v: adaptor).
   W : wdiagram = a class diagram as the ASSUMED Visual Paradigm writer lays it out (Model/UmlWriter.v: structured blobs of
   fields, reference lists and owned elements, in any order); encode_cdiagram W = the project holding only W's rows;
   chosts d W = the project d contains W's rows, every other row (other diagrams, their shapes interleaved, unrelated model
   elements, any order) arbitrary. *)

(* The text layer is transparent.  For EVERY structured blob n (Model/UmlWriter.v) in the domain
     wf_node n    element NAMES: any printable text without double quote, backslash, apostrophe and ';' (= < > ( ) , : are ordinary
                  characters: operator<, operator(), Const: ... -- the reader takes a quoted name as it is: K-C19-7 repaired);
                  keys, ids, reference ids: plain text (printable ASCII without = < > ; \ double quote ( ) ', no blank at the
                  ends); values: plain text, quoted or not, commas allowed; layout strings made of line breaks, tabs, blanks, ( ) , ;
                  FREE TEXT properties (IRaw: e.g. documentation=<an HTML page with a CSS block>): anything whose quoted texts are
                  closed and that has no ';' and no brace OUTSIDE its quoted texts -- braces, ';', '=', ':', apostrophes INSIDE
                  the quotes are data (the repaired, quote-aware ParseBLOB_Recursive / Get_ValuesFromOutside: K-C19-6);
     nbq_node n   no brace in ids, names, types, keys, reference ids and UNQUOTED values (C19_adaptor_brace_refuted: needed);
     quote_ok     the bytes hold no apostrophe, or hold a double quote (then str(bytes) still delimits with apostrophes)
   ParseBLOB_Recursive applied to str(bytes) of its printed form returns exactly the dictionary the blob stands for (top_pv:
   fields by key with later duplicates overriding, reference lists as key_0, key_1, ..., owned elements as child_0, child_1, ...
   in text order, each with id / name / type; a free-text property contributes what Get_ValuesFromOutside makes of that one
   piece).  Composition of the stack-machine theorem with a string state (parse_blob_sem), the field theorem with the
   quote-aware split (values_segments) and mass_replace o str(bytes) = deletion of the separator characters (mass_repr). *)
Theorem C19_adaptor_text_transparent : forall n : wnode,
  wf_node n = true -> nbq_node n = true -> quote_ok (print_node n) = true ->
  parse_blob (py_str_bytes (print_node n)) = Some (top_pv n).
Proof. exact parse_top_q. Qed.
Print Assumptions C19_adaptor_text_transparent.

(* a brace in an UNQUOTED value is structure for the reader: outside the domain, and the statement fails there *)
Example C19_adaptor_brace_refuted :
  let n := WNode "a" None "T" [IField "" "k" "{"] "" in
  wf_node n = true /\ no_char SQ (print_node n) = true /\ parse_blob (py_str_bytes (print_node n)) <> Some (top_pv n).
Proof. exact parse_top_refuted. Qed.
Print Assumptions C19_adaptor_brace_refuted.

(* (the variant stated before the repair of K-C19-7 for rows whose NAME holds colons: wf_top / top_pv_c coincide with wf_node / top_pv
   now that the reader cuts the header at the colons outside quotes) *)
Theorem C19_adaptor_text_transparent_colon : forall n : wnode,
  wf_top n = true -> nbq_node n = true -> quote_ok (print_node n) = true ->
  parse_blob (py_str_bytes (print_node n)) = Some (top_pv_c n).
Proof. exact parse_top_c. Qed.
Print Assumptions C19_adaptor_text_transparent_colon.

(* The structural level, for EVERY structured class diagram whose drawn blobs lie in the text domain (any nesting, any inert
   owned elements, reference lists and free text among the properties): loading the project the writer produces equals loading
   with ParseBLOB_Recursive replaced by the structural reading of the drawn blobs (struct_of).  What the loaded objects MEAN is
   C19_adaptor_roundtrip (below). *)
Theorem C19_adaptor_structural : forall W : wdiagram, wf_drawn W = true ->
  load_cdiagram (encode_cdiagram W) (wd_name W) = load_gen (get_model_element (cmelem_rows W)) (struct_of W) (cdelem_rows W).
Proof. exact load_struct. Qed.
Print Assumptions C19_adaptor_structural.

(* Elements that are not on the selected diagram have no influence: whatever the diagram's own rows give, every project
   that hosts them gives (any two hosting projects agree). *)
Theorem C19_adaptor_others_no_influence : forall (d1 d2 : db) (W : wdiagram) (c : cdiagram),
  chosts d1 W = true -> chosts d2 W = true -> adaptor (encode_cdiagram W) (wd_name W) = Some c ->
  adaptor d1 (wd_name W) = Some c /\ adaptor d2 (wd_name W) = Some c.
Proof. exact adaptor_others_no_influence. Qed.
Print Assumptions C19_adaptor_others_no_influence.

(* Every class diagram the adaptor returns, from ANY rows, has public / protected / private operations only (the reader maps
   'package' to public + static): the hypothesis wf_vis of C19_decl_def holds for everything read from a project file. *)
Theorem C19_adaptor_visibilities : forall (d : db) (name : string) (c : cdiagram), adaptor d name = Some c -> wf_vis c = true.
Proof. exact adaptor_wf_vis. Qed.
Print Assumptions C19_adaptor_visibilities.

(* The generator theorems from the project rows (under the writer assumption). *)
Theorem C19_files_from_project : forall (d : db) (W : wdiagram) (c : cdiagram) (nsf : bool),
  chosts d W = true -> adaptor (encode_cdiagram W) (wd_name W) = Some c -> files_hyp nsf c = true ->
  adaptor d (wd_name W) = Some c /\ files_of template_files nsf c = expected_files nsf c.
Proof. exact files_from_project. Qed.
Print Assumptions C19_files_from_project.

Theorem C19_decl_def_from_project : forall (d : db) (W : wdiagram) (c : cdiagram) (k : cls) (P : entry -> bool),
  chosts d W = true -> adaptor (encode_cdiagram W) (wd_name W) = Some c ->
  acyclic c = true -> closed c = true -> In k (classes c) ->
  adaptor d (wd_name W) = Some c
  /\ exists dl df, decls_of (List.length (classes c)) c k = Some dl /\ defs_of (List.length (classes c)) c k = Some df
                   /\ count P dl = count P df.
Proof. exact decl_def_from_project. Qed.
Print Assumptions C19_decl_def_from_project.

Theorem C19_realised_from_project : forall (d : db) (W : wdiagram) (c : cdiagram) fuel vis dcl (k : cls) (i : inh) (p : cls) (o : oper) l,
  chosts d W = true -> adaptor (encode_cdiagram W) (wd_name W) = Some c ->
  In i (inhs c) -> contains (c_id k) (i_to i) = true -> i_real i = true ->
  find_class (classes c) (i_from i) = Some p -> c_pure p = true ->
  In o (c_ops p) -> vis_match vis o = true -> c_name k <> "" ->
  existsb (key_eqb (sig_key o)) (declared_of k) = false ->
  ops_of (S (S fuel)) c vis "" dcl k = Some l ->
  adaptor d (wd_name W) = Some c
  /\ In {| en_class := c_name k; en_owner := c_name p; en_owner_pure := true; en_realised := true; en_op := o |} l.
Proof. exact realised_from_project. Qed.
Print Assumptions C19_realised_from_project.

(* Calibration and non-vacuity on the shipped project (Gen/UmlBlobShipped.v, regenerated from kojen/test/blob.xml on every
   run): the assumed writer reproduces every row the two class diagrams draw or refer to, byte for byte, between the rows of
   the other diagrams; the reader model loads both (10 and 20 classes, 7 inheritance entries each), also from the projects
   holding only their own rows; ALL 39 and 49 of their blobs lie in the domain of the text theorem (38 and 41 of them hold no
   free text with braces or apostrophes -- the others have an HTML documentation with a CSS block, inside the domain since the
   reader is quote-aware; one association has a NAME with a colon, inside the domain since headers are cut at the colons outside
   quotes only); on every one of them the reader model returns the dictionary
   the theorem states (computed). *)
Theorem C19_adaptor_calibration :
  (forallb (chosts shipped_cdb) shipped_W = true /\ map wd_name shipped_W = ["ProtocolStack"; "TestClassDiagram"])
  /\ (map (fun W => (List.length (all_nodes W), List.length (filter in_text_domain_c (all_nodes W)), List.length (filter in_text_domain (all_nodes W)))) shipped_W
      = [(39, 39, 39); (49, 49, 49)]
      /\ flat_map (fun W => map (fun n => (node_id n, node_name n)) (filter (fun n => negb (no_char ":" (name_text (node_name n)))) (all_nodes W))) shipped_W
         = [("OUDfaI6GAqAA8xe8", Some "Const: This should appear in constructor")])
  /\ map (fun W => List.length (filter (fun n => wf_node n && nb_node n && no_char SQ (print_node n)) (all_nodes W))) shipped_W = [38; 41]
  /\ forallb (fun W => forallb (fun n => match parse_blob (py_str_bytes (print_node n)) with Some v => pv_eqb v (top_pv_c n) | None => false end)
                                (filter in_text_domain_c (all_nodes W))) shipped_W = true.
Proof. exact (conj calib_cwriter (conj calib_domain (conj calib_domain_before calib_parse))). Qed.
Print Assumptions C19_adaptor_calibration.

Example C19_adaptor_nonvacuous :
  forallb (fun se => wf_node (we_node (snd se))) (wd_drawn (one_class_W "Run")) = true
  /\ op_names (adaptor (encode_cdiagram (one_class_W "Run")) "D") = Some [["Run"]].
Proof. exact one_class_ok. Qed.
Print Assumptions C19_adaptor_nonvacuous.

(* Names with the characters the reader used to delete (K-C19-7, repaired): an operation drawn as operator<, operator(),
   operator== or a:b is read back under that name, and such blobs lie in the text domain (headok: a NAME is any printable text
   without double quote, backslash, apostrophe and ';').  What remains of the deletions concerns VALUES (K-C19-10). *)
Theorem C19_adaptor_operator_names :
  forallb (fun nm => forallb (fun se => wf_node (we_node (snd se))) (wd_drawn (one_class_W nm))) ["operator<"; "operator()"; "operator=="; "a:b"] = true
  /\ map (fun nm => op_names (adaptor (encode_cdiagram (one_class_W nm)) "D")) ["operator<"; "operator()"; "operator=="; "a:b"]
     = [Some [["operator<"]]; Some [["operator()"]]; Some [["operator=="]]; Some [["a:b"]]].
Proof. exact operator_names_ok. Qed.
Print Assumptions C19_adaptor_operator_names.

(* The adaptor's source still has the shape the model was written against: every string literal (keys, type names, codes,
   stereotype names) of the modelled functions, in source order (Gen/UmlBlobSrc.v is regenerated on every run). *)
Theorem C19_adaptor_source_shape : adaptor_literals_expected.
Proof. exact pins_all. Qed.
Print Assumptions C19_adaptor_source_shape.

(* ====================================================================================================================
   THE SEMANTIC READ-BACK.  D : sdiagram (Model/UmlSem.v) = a class diagram as what it MEANS: classes with stereotypes,
   abstract flag, documentation, operations (visibility, return type reference, modifier, abstract / query / static,
   parameters with basic or referenced type, direction, modifier, default, multiplicity), attributes, enumeration literals;
   packages with the paths of their members; generalisations / realisations between paths; ASSOCIATIONS (documentation, two
   ends in either order, each with the class path it is attached to, multiplicity or none, aggregation kind, visibility code or
   the static code 68, getter / setter / read-only flags); other shapes; the referenced elements (stereotypes, data types).
   Every element carries a layout: its properties in ANY order, with any number of INERT properties in between -- scalars (also
   with a blank value), reference lists, owned elements the reader has no interest in (model views, qualifiers, ...), free text
   (an HTML documentation) -- exactly as they are written, and its own line break style (CR LF or LF).  Documentation is a plain
   text or ANY quoted text (DRaw: line breaks, apostrophes, parentheses; the specification then says what mass_replace leaves of
   it: K-C19-7).  encode_project D = the project file the assumed writer produces (tree_of: the structured blobs).
   cdiagram_of D / rdiagram_of D = the specification (it never looks at a blob): names, namespaces from the package chain,
   stereotype flags, visibility, parameters with direction / multiplicity / default, realisation vs generalisation, exactly
   the shapes of the selected diagram.
   Association objects are specified by rassoc_of: type from the aggregation kind, the defaults of an end without multiplicity
   depend on the association type known when that end is read (written order), as Association.ParseAssociation does.
   Domain sdiagram_ok (boolean, extracted, evaluated by the harness on every generated diagram): ids and the names of classes,
   packages and referenced elements plain, brace-free, without ',' ':' and apostrophe, no blank at the ends; the NAMES of
   operations, attributes, parameters, literals and associations: any printable text without double quote, backslash,
   apostrophe, ';' and braces (operator<, operator(), Get:Set -- K-C19-7 repaired); VALUES (defaults, initial values,
   multiplicities, modifiers, documentation) plain but ',' allowed (nullptr, nullptr) unless nothing but commas is left (the
   characters = < > ; ( ) double quote in a value are still deleted by the reader: K-C19-10); noise keys not among the
   keys the reader looks for; inert properties: in the text domain, their keys none of the keys the reader looks up in that kind
   of element and containing none of the words it scans keys for, owned elements not of a type the reader would take for a
   member (inert_ok, per kind of element); str(bytes) of every row delimits with apostrophes (quote_ok); no property key written
   twice; every referenced
   id known; every element drawn once; a class on at most one package path; package paths made of drawn packages. *)
Theorem C19_adaptor_roundtrip : forall D : sdiagram, sdiagram_ok D = true ->
  adaptor (encode_project D) (sd_name D) = Some (cdiagram_of D).
Proof. exact adaptor_roundtrip. Qed.
Print Assumptions C19_adaptor_roundtrip.

(* ... object for object: Class / Operation / Attribute / Package / Association / Inheritance objects read back exactly as specified *)
Theorem C19_adaptor_roundtrip_objects : forall D : sdiagram, sdiagram_ok D = true ->
  load_cdiagram (encode_project D) (sd_name D) = Some (rdiagram_of D).
Proof. exact load_roundtrip. Qed.
Print Assumptions C19_adaptor_roundtrip_objects.

(* ... from ANY project that contains the diagram's rows *)
Theorem C19_adaptor_roundtrip_hosted : forall (D : sdiagram) (d : db), sdiagram_ok D = true -> chosts d (tree_of D) = true ->
  adaptor d (sd_name D) = Some (cdiagram_of D).
Proof. exact adaptor_roundtrip_hosted. Qed.
Print Assumptions C19_adaptor_roundtrip_hosted.

(* Calibration of the semantic domain on the shipped project: THE two shipped class diagrams as semantic diagrams
   (Gen/UmlSemShipped.v, regenerated on every run from kojen/test/blob.xml: what the semantic model knows about each element
   -- 157 and 357 properties -- and every other property of the rows, 461 and 999 of them, as inert properties: model views,
   qualifiers, reference lists, HTML documentation, author and time stamps; documentation texts with line breaks, apostrophes
   and parentheses as DRaw; defaults such as  nullptr, nullptr ; an association whose name holds a colon; rows with CR LF and rows
   with LF line breaks).  Writing them reproduces the shipped rows BYTE FOR BYTE (encode_project = the project of the rows read off
   blob.xml, which C19_adaptor_calibration ties to the stored file), and BOTH lie in the domain of C19_adaptor_roundtrip: the
   theorem speaks about the shipped project itself.  (The harness also runs the real adaptor on the shipped file and compares
   with the extracted rdiagram_of.) *)
Theorem C19_adaptor_semantic_calibration :
  map sd_name shipped_sem = ["ProtocolStack"; "TestClassDiagram"]
  /\ map sem_counts shipped_sem = [(10, 2, 1, 7); (20, 3, 8, 7)]
  /\ map encode_project shipped_sem = map encode_cdiagram shipped_W
  /\ (map sdiagram_ok shipped_sem = [true; true] /\ map count_slots shipped_sem = [(157, 461); (357, 999)]).
Proof. exact (conj calib_sem_names (conj calib_sem_counts (conj calib_sem_exact calib_sem_domain))). Qed.
Print Assumptions C19_adaptor_semantic_calibration.

Example C19_adaptor_roundtrip_nonvacuous :
  (sdiagram_ok ex_S = true /\ wf_drawn (tree_of ex_S) = true) /\ load_cdiagram (encode_project ex_S) "Example" = Some (rdiagram_of ex_S).
Proof. exact (conj ex_in_domain ex_read_back). Qed.
Print Assumptions C19_adaptor_roundtrip_nonvacuous.

(* The generator theorems from the semantic diagram THROUGH the project file. *)
Theorem C19_files_from_diagram : forall (D : sdiagram) (d : db) (nsf : bool),
  sdiagram_ok D = true -> chosts d (tree_of D) = true -> files_hyp nsf (cdiagram_of D) = true ->
  adaptor d (sd_name D) = Some (cdiagram_of D) /\ files_of template_files nsf (cdiagram_of D) = expected_files nsf (cdiagram_of D).
Proof. exact files_from_diagram. Qed.
Print Assumptions C19_files_from_diagram.

Theorem C19_decl_def_from_diagram : forall (D : sdiagram) (d : db) (k : cls) (P : entry -> bool),
  sdiagram_ok D = true -> chosts d (tree_of D) = true ->
  acyclic (cdiagram_of D) = true -> closed (cdiagram_of D) = true -> In k (classes (cdiagram_of D)) ->
  adaptor d (sd_name D) = Some (cdiagram_of D)
  /\ exists dl df, decls_of (List.length (classes (cdiagram_of D))) (cdiagram_of D) k = Some dl
                   /\ defs_of (List.length (classes (cdiagram_of D))) (cdiagram_of D) k = Some df /\ count P dl = count P df.
Proof. exact decl_def_from_diagram. Qed.
Print Assumptions C19_decl_def_from_diagram.

Theorem C19_realised_from_diagram : forall (D : sdiagram) (d : db) fuel vis dcl (k : cls) (i : inh) (p : cls) (o : oper) l,
  sdiagram_ok D = true -> chosts d (tree_of D) = true ->
  In i (inhs (cdiagram_of D)) -> contains (c_id k) (i_to i) = true -> i_real i = true ->
  find_class (classes (cdiagram_of D)) (i_from i) = Some p -> c_pure p = true ->
  In o (c_ops p) -> vis_match vis o = true -> c_name k <> "" ->
  existsb (key_eqb (sig_key o)) (declared_of k) = false ->
  ops_of (S (S fuel)) (cdiagram_of D) vis "" dcl k = Some l ->
  adaptor d (sd_name D) = Some (cdiagram_of D)
  /\ In {| en_class := c_name k; en_owner := c_name p; en_owner_pure := true; en_realised := true; en_op := o |} l.
Proof. exact realised_from_diagram. Qed.
Print Assumptions C19_realised_from_diagram.

(* ... and for the C# back end: cdiagram_cs_of D = the diagram as LanguageCsharp's helpers render the objects read (to_cdiagram_cs:
   qualified names with dots, no pointer / reference modifiers, List<> for vectors, T[] for arrays, ref / out parameter prefixes;
   tied to the real helpers at function level and on every project the harness synthesises) *)
Theorem C19_adaptor_cs_roundtrip : forall (D : sdiagram) (d : db), sdiagram_ok D = true -> chosts d (tree_of D) = true ->
  adaptor_cs d (sd_name D) = Some (cdiagram_cs_of D).
Proof. exact adaptor_cs_hosted. Qed.
Print Assumptions C19_adaptor_cs_roundtrip.

Theorem C19_files_cs_from_diagram : forall (D : sdiagram) (d : db) (nsf : bool) (dname : string),
  sdiagram_ok D = true -> chosts d (tree_of D) = true -> files_hyp_cs nsf dname (cdiagram_cs_of D) = true ->
  adaptor_cs d (sd_name D) = Some (cdiagram_cs_of D)
  /\ files_all template_files_cs nsf dname (cdiagram_cs_of D) = expected_files_cs nsf dname (cdiagram_cs_of D).
Proof. exact files_cs_from_diagram. Qed.
Print Assumptions C19_files_cs_from_diagram.

Theorem C19_once_cs_from_diagram : forall (D : sdiagram) (d : db) (k : cls) (P : entry -> bool),
  sdiagram_ok D = true -> chosts d (tree_of D) = true ->
  acyclic (cdiagram_cs_of D) = true -> closed (cdiagram_cs_of D) = true -> In k (classes (cdiagram_cs_of D)) ->
  adaptor_cs d (sd_name D) = Some (cdiagram_cs_of D)
  /\ exists ms al, members_cs (List.length (classes (cdiagram_cs_of D))) (cdiagram_cs_of D) k = Some ms
                   /\ all_cs (List.length (classes (cdiagram_cs_of D))) (cdiagram_cs_of D) k = Some al /\ count P ms = count P al.
Proof. exact once_cs_from_diagram. Qed.
Print Assumptions C19_once_cs_from_diagram.

Theorem C19_realised_cs_from_diagram : forall (D : sdiagram) (d : db) fuel vis (k : cls) (i : inh) (p : cls) (o : oper) l,
  sdiagram_ok D = true -> chosts d (tree_of D) = true ->
  In i (inhs (cdiagram_cs_of D)) -> contains (c_id k) (i_to i) = true -> i_real i = true ->
  find_class (classes (cdiagram_cs_of D)) (i_from i) = Some p -> c_pure p = true ->
  In o (c_ops p) -> vis_match vis o = true -> c_name k <> "" ->
  existsb (key_eqb (sig_key (cs_oper o))) (declared_of (cs_cls k)) = false ->
  ops_of_cs (S (S fuel)) (cdiagram_cs_of D) vis k = Some l ->
  adaptor_cs d (sd_name D) = Some (cdiagram_cs_of D)
  /\ In {| en_class := c_name k; en_owner := c_name p; en_owner_pure := true; en_realised := true; en_op := cs_oper o |} l.
Proof. exact realised_cs_from_diagram. Qed.
Print Assumptions C19_realised_cs_from_diagram.

(* ... and the includes: idiagram_of D = the raw diagram (qualified type names, modifiers, multiplicities, inheritance and
   association ends) of the objects read; from ANY project hosting D's rows the header of c includes every class of the diagram
   it uses by value, and <vector> for a to-many member *)
Theorem C19_includes_cover_from_diagram : forall (D : sdiagram) (d : db) (fuel : nat) (nsf : bool) (c k : icls) (l : list string),
  sdiagram_ok D = true -> chosts d (tree_of D) = true ->
  incl_names_ok (idiagram_of D) = true -> In c (i_classes (idiagram_of D)) -> In k (i_classes (idiagram_of D)) ->
  In (qname k) (nfd_raw (idiagram_of D) c) ->
  header_includes fuel nsf (idiagram_of D) c = Some l ->
  adaptor_incl d (sd_name D) = Some (idiagram_of D) /\ In (spec_include nsf c k) l.
Proof. exact includes_cover_from_diagram. Qed.
Print Assumptions C19_includes_cover_from_diagram.

Theorem C19_vector_from_diagram : forall (D : sdiagram) (d : db) (fuel : nat) (nsf : bool) (c : icls) (l : list string),
  sdiagram_ok D = true -> chosts d (tree_of D) = true ->
  own_vector (idiagram_of D) c = true -> header_includes fuel nsf (idiagram_of D) c = Some l ->
  adaptor_incl d (sd_name D) = Some (idiagram_of D) /\ In "#include <vector>" l.
Proof. exact vector_from_diagram. Qed.
Print Assumptions C19_vector_from_diagram.
