(* C03 -- No silent loss: code under vanished tags is written to LostCode next to its file;
   an unreadable file is never overwritten. *)
From Coq Require Import String List Bool.
From KV Require Import Lib.Str Lib.ODict Model.PreserveCore Model.Preserve Gen.Tags
                       Proofs.PreserveCoreProofs Proofs.PreserveStr Proofs.PreserveTree Proofs.PreserveTop.
Import ListNotations.
Open Scope string_scope.

(* Content: the LostCode pseudo-file of a file consists of exactly one labelled entry
   [path; tag; every line of the block (each followed by a newline); tag; separator], in the order of the old
   file, for every tag of the old file that (a) holds a non-empty block and (b) is not emitted by the new fresh
   file -- and of nothing else (surviving tags and empty tags produce no entry). *)
Theorem C03_lost_complete_and_only_lost : forall path (u : string -> list string) its fresh' its',
  wfb its = true -> items_okb its = true -> (forall k, block_ok (u k) = true) ->
  parse_items fresh' = Some its' -> Forall (wf_fresh_item kof kpfx) its' ->
  snd (regen_file path fresh' (on_disk u its)) = lost_lines path u its its'.
Proof. exact lost_complete. Qed.
Print Assumptions C03_lost_complete_and_only_lost.

(* Location and reporting: whenever there is lost code for file [fn], it is written under the name
   fn ++ ".LostCode.txt" of the SAME code model (so createoutput puts it next to fn: join outdir (fn++suffix)
   = join outdir fn ++ suffix for every spelling of outdir) and that name is in the returned list. *)
Theorem C03_lost_location : forall outdir old fresh fn lines c,
  names_ok (keys fresh) -> slookup fn fresh = Some lines -> old fn = Readable c ->
  snd (regen_file (join outdir fn) lines c) <> [] ->
  let r := regen outdir old fresh in
  slookup (lost_name fn) (fst r) = Some (concat_lines (snd (regen_file (join outdir fn) lines c)))
  /\ In (lost_name fn) (snd r)
  /\ (prefixb "/" fn = false -> fn <> "" -> join outdir (lost_name fn) = (join outdir fn ++ lost_suffix)%string).
Proof. exact lost_location. Qed.
Print Assumptions C03_lost_location.

(* the negative half for the directory: when no code of [fn] is lost (C03_lost_complete_and_only_lost says exactly when:
   every tag of the old file survives or is empty), or [fn] did not exist or could not be read, NO LostCode file is
   written for it *)
Theorem C03_nothing_lost_no_lostfile : forall outdir old fresh fn lines,
  names_ok (keys fresh) -> slookup fn fresh = Some lines ->
  match old fn with
  | Readable c => snd (regen_file (join outdir fn) lines c) = []
  | Missing => True
  | Unreadable => True
  end ->
  slookup (lost_name fn) (fst (regen outdir old fresh)) = None.
Proof. exact nothing_lost_no_lostfile. Qed.
Print Assumptions C03_nothing_lost_no_lostfile.

(* A generated file whose previous content cannot be read back is not written at all (it is left untouched),
   nor is a LostCode file produced for it, and it is not reported as generated. *)
Theorem C03_unreadable_untouched : forall outdir old fresh fn lines,
  names_ok (keys fresh) -> slookup fn fresh = Some lines -> old fn = Unreadable ->
  let r := regen outdir old fresh in
  slookup fn (fst r) = None /\ slookup (lost_name fn) (fst r) = None /\ ~ In fn (snd r).
Proof. exact unreadable_untouched. Qed.
Print Assumptions C03_unreadable_untouched.

(* ... decided by the model itself from the raw bytes found in the directory: strict UTF-8 (utf8_valid is compared with
   CPython's decoder on random byte strings on every run) *)
Theorem C03_undecodable_untouched : forall outdir (dir : string -> option string) fresh fn lines bytes,
  names_ok (keys fresh) -> slookup fn fresh = Some lines -> dir fn = Some bytes -> utf8_valid bytes = false ->
  let r := regen_dir outdir dir fresh in
  slookup fn (fst r) = None /\ slookup (lost_name fn) (fst r) = None /\ ~ In fn (snd r).
Proof. exact undecodable_untouched. Qed.
Print Assumptions C03_undecodable_untouched.

Example C03_undecodable_nonvacuous :
  utf8_valid (bs [99;97;102;233;10]) = false /\ utf8_valid (bs [255;254;117;0]) = false /\ utf8_valid (bs [226;130]) = false /\
  utf8_valid (bs [237;160;128]) = false /\ utf8_valid (bs [192;175]) = false /\ utf8_valid (bs [244;144;128;128]) = false /\
  utf8_valid (bs [103;114;195;188;195;159;101;32;228;184;173;32;240;159;152;128;0;10]) = true.
Proof. repeat split; vm_compute; reflexivity. Qed.
Print Assumptions C03_undecodable_nonvacuous.

Definition ex_old : list (item string) :=
  [Pair (bs [47;47;123;123;123;85;83;69;82;95;88;10]) (bs [47;47;123;123;123;85;83;69;82;95;88;10]);
   Pair (bs [35;123;123;123;85;83;69;82;95;89;10]) (bs [35;123;123;123;85;83;69;82;95;89;10]);
   Pair (bs [35;123;123;123;85;83;69;82;95;90;10]) (bs [35;123;123;123;85;83;69;82;95;90;10])].
Definition ex_new : list string := [bs [35;123;123;123;85;83;69;82;95;89;10]; bs [35;123;123;123;85;83;69;82;95;89;10]].
Definition ex_u (k : string) : list string :=
  if String.eqb k (bs [123;123;123;85;83;69;82;95;90]) then [] else [bs [99;10]].

(* X (non-empty) vanishes -> one entry; Y survives -> none; Z vanishes but is empty -> none *)
Example C03_lost_nonvacuous :
  snd (regen_file "out/F.h" ex_new (on_disk ex_u ex_old))
  = [bs [70;46;104;10]; bs [123;123;123;85;83;69;82;95;88;10]; bs [99;10;10]; bs [123;123;123;85;83;69;82;95;88;10];
     (lost_sep ++ nl_str)%string].
Proof. vm_compute. reflexivity. Qed.
Print Assumptions C03_lost_nonvacuous.
