(* C18 -- FileSync copies shared tag bodies and touches nothing else. *)
From Coq Require Import String List Bool.
From KV Require Import Lib.Str Lib.ODict Model.PreserveCore Model.Preserve
                       Proofs.PreserveCoreProofs Proofs.PreserveStr Proofs.PreserveSync.
Import ListNotations.
Open Scope string_scope.

(* B = any text in which tag pairs (with arbitrary bodies) and plain lines alternate arbitrarily.  The new
   content of B is B with the body of every pair whose cleaned name is a tag of A replaced by A's body; all
   other lines (text outside pairs, the tag lines themselves, bodies of pairs that exist only in B) are kept
   byte for byte, in order.  (The model writes nothing but B: A is not an output of [file_sync].)  A is ANY file: every key CollectFile produces
   contains the tag prefix (Proofs/CleanProofs.v: CleanUpLine never removes a character of the prefix, a source-derived
   obligation over the pattern chain). *)
Theorem C18_shared_replaced_rest_untouched : forall a (B : list bitem_s),
  lines_okb (bflatten_s B) = true -> Forall (wf_bitem_s (tags_of a)) B ->
  file_sync a (concat_lines (bflatten_s B)) = concat_lines (synced_s (tags_of a) B).
Proof. exact sync_bytes. Qed.
Print Assumptions C18_shared_replaced_rest_untouched.

Theorem C18_idempotent : forall a (B : list bitem_s),
  lines_okb (bflatten_s B) = true -> Forall (wf_bitem_s (tags_of a)) B ->
  bodies_ok_s (tags_of a) -> lines_okb (synced_s (tags_of a) B) = true ->
  let b1 := file_sync a (concat_lines (bflatten_s B)) in
  file_sync a b1 = b1.
Proof. exact sync_idempotent. Qed.
Print Assumptions C18_idempotent.

Definition ex_a : string :=
  concat_lines [bs [47;47;32;123;123;123;85;83;69;82;95;88;125;125;125;10]; bs [65;9;49;10]; bs [10]; bs [10];
                bs [47;47;32;123;123;123;85;83;69;82;95;88;125;125;125;10]].
Definition ex_B : list bitem_s :=
  [BPlain (bs [116;9;10]); BPlain (bs [10]); BPlain (bs [10]);
   BBlock (bs [32;35;32;123;123;123;85;83;69;82;95;88;10]) [bs [111;108;100;10]] (bs [32;35;32;123;123;123;85;83;69;82;95;88;10]);
   BBlock (bs [123;123;123;85;83;69;82;95;88;89;10]) [bs [9;107;10]; bs [10]; bs [10]] (bs [123;123;123;85;83;69;82;95;88;89;10]);
   BPlain (bs [101])].

Example C18_nonvacuous :
  lines_okb (bflatten_s ex_B) = true /\
  file_sync ex_a (concat_lines (bflatten_s ex_B))
  = concat_lines [bs [116;9;10]; bs [10]; bs [10]; bs [32;35;32;123;123;123;85;83;69;82;95;88;10]; bs [65;9;49;10]; bs [10]; bs [10];
                  bs [32;35;32;123;123;123;85;83;69;82;95;88;10]; bs [123;123;123;85;83;69;82;95;88;89;10]; bs [9;107;10]; bs [10]; bs [10];
                  bs [123;123;123;85;83;69;82;95;88;89;10]; bs [101]].
Proof. split; vm_compute; reflexivity. Qed.
Print Assumptions C18_nonvacuous.
