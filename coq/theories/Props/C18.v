(* C18 -- FileSync copies shared tag bodies and touches nothing else. *)
From Coq Require Import String List Bool.
From KV Require Import Lib.Str Lib.ODict Model.PreserveCore Model.Preserve
                       Proofs.PreserveCoreProofs Proofs.PreserveStr Proofs.PreserveSync Model.Output Proofs.OutputProofs.
Import ListNotations.
Open Scope string_scope.

(* B = any text in which tag pairs (with arbitrary bodies) and plain lines alternate arbitrarily.  The new
   content of B is B with the body of every pair whose cleaned name is a tag of A replaced by A's body; all
   other lines (text outside pairs, the tag lines themselves, bodies of pairs that exist only in B) are kept
   byte for byte, in order.  (That nothing but B -- and a LostCode sibling -- is written is C18_source_untouched below.)  A is ANY file: every key CollectFile produces
   contains the tag prefix (Proofs/CleanProofs.v: CleanUpLine never removes a character of the prefix, a source-derived
   obligation over the pattern chain). *)
Theorem C18_shared_replaced_rest_untouched : forall a (B : list bitem_s),
  lines_okb (bflatten_s B) = true -> Forall (wf_bitem_s (tags_of a)) B ->
  file_sync a (concat_lines (bflatten_s B)) = concat_lines (synced_s (tags_of a) B).
Proof. exact sync_bytes. Qed.
Print Assumptions C18_shared_replaced_rest_untouched.

Theorem C18_idempotent : forall a (B : list bitem_s),
  lines_okb (bflatten_s B) = true -> Forall (wf_bitem_s (tags_of a)) B ->
  bodies_ok_s (tags_of a) -> lines_okb (synced_s (tags_of a) B) = true ->
  let b1 := file_sync a (concat_lines (bflatten_s B)) in
  file_sync a b1 = b1.
Proof. exact sync_idempotent. Qed.
Print Assumptions C18_idempotent.

(* FileSync as file-system operations (Model/Output.filesync_ops, compared with the traced operations of real runs):
   every path other than B and B's LostCode sibling -- in particular A -- holds exactly what it held before *)
Theorem C18_source_untouched : forall path_b a b s p,
  jobs_okb (filesync_jobs path_b a b) = true -> is_tmp p = false ->
  ~ In p (targets (filesync_jobs path_b a b)) ->
  fs_get p (disk_fs (run (filesync_ops path_b a b) s)) = fs_get p (disk_fs s).
Proof. exact filesync_touches_only_its_targets. Qed.
Print Assumptions C18_source_untouched.

Theorem C18_b_receives_the_synchronised_content : forall path_b a b s,
  jobs_okb (filesync_jobs path_b a b) = true -> is_tmp path_b = false ->
  fs_get path_b (disk_fs (run (filesync_ops path_b a b) s))
  = Some (concat_lines (fst (emplace true (collect (read_lines a)) (read_lines b)))).
Proof. exact filesync_writes_b. Qed.
Print Assumptions C18_b_receives_the_synchronised_content.

(* whole-file form of "touches nothing else": if no tag pair of B carries a name that A defines, FileSync writes B back
   byte for byte, whatever else A contains *)
Theorem C18_no_shared_tag_b_unchanged : forall a (B : list bitem_s),
  lines_okb (bflatten_s B) = true -> Forall (wf_bitem_s (tags_of a)) B -> Forall (unshared (tags_of a)) B ->
  file_sync a (concat_lines (bflatten_s B)) = concat_lines (bflatten_s B).
Proof. exact sync_no_shared_identity. Qed.
Print Assumptions C18_no_shared_tag_b_unchanged.

Definition ex_a : string :=
  concat_lines [bs [47;47;32;123;123;123;85;83;69;82;95;88;125;125;125;10]; bs [65;9;49;10]; bs [10]; bs [10];
                bs [47;47;32;123;123;123;85;83;69;82;95;88;125;125;125;10]].
Definition ex_B : list bitem_s :=
  [BPlain (bs [116;9;10]); BPlain (bs [10]); BPlain (bs [10]);
   BBlock (bs [32;35;32;123;123;123;85;83;69;82;95;88;10]) [bs [111;108;100;10]] (bs [32;35;32;123;123;123;85;83;69;82;95;88;10]);
   BBlock (bs [123;123;123;85;83;69;82;95;88;89;10]) [bs [9;107;10]; bs [10]; bs [10]] (bs [123;123;123;85;83;69;82;95;88;89;10]);
   BPlain (bs [101])].

Example C18_nonvacuous :
  lines_okb (bflatten_s ex_B) = true /\
  file_sync ex_a (concat_lines (bflatten_s ex_B))
  = concat_lines [bs [116;9;10]; bs [10]; bs [10]; bs [32;35;32;123;123;123;85;83;69;82;95;88;10]; bs [65;9;49;10]; bs [10]; bs [10];
                  bs [32;35;32;123;123;123;85;83;69;82;95;88;10]; bs [123;123;123;85;83;69;82;95;88;89;10]; bs [9;107;10]; bs [10]; bs [10];
                  bs [123;123;123;85;83;69;82;95;88;89;10]; bs [101]].
Proof. split; vm_compute; reflexivity. Qed.
Print Assumptions C18_nonvacuous.

(* hypotheses of C18_no_shared_tag_b_unchanged are met by a B that has a tag pair (USER_XY) A does not define *)
Definition ex_B2 : list bitem_s :=
  [BPlain (bs [116;9;10]);
   BBlock (bs [123;123;123;85;83;69;82;95;88;89;10]) [bs [9;107;10]; bs [10]; bs [10]] (bs [123;123;123;85;83;69;82;95;88;89;10]);
   BPlain (bs [101])].
Example C18_no_shared_nonvacuous :
  lines_okb (bflatten_s ex_B2) = true /\ Forall (unshared (tags_of ex_a)) ex_B2 /\ tags_of ex_a <> [] /\
  file_sync ex_a (concat_lines (bflatten_s ex_B2)) = concat_lines (bflatten_s ex_B2).
Proof.
  split; [vm_compute; reflexivity|]. split; [|split; [vm_compute; discriminate|vm_compute; reflexivity]].
  repeat constructor; vm_compute; reflexivity.
Qed.
Print Assumptions C18_no_shared_nonvacuous.
