(* C15 -- C++ dispatcher/queue: at-most-once FIFO hand-off, clean shutdown, no data races.
   (1) C15_lockset is about the LOCKSET TABLE translated from threadsafe_queue.h / threaded_dispatcher.h as they are now
   (Gen/CxxSync.v): every read/write of a data member with the mutexes held and the life-cycle phase.
   (2) The other theorems are about the LTS of Model/CxxQueue.v (m workers, any producers with any scripts, the
   destroying thread), whose atomic steps are the critical sections of Gen/CxxSync.v (C15_skeleton_as_modelled);
   [reach m scripts] = reachable under ANY interleaving. *)
From Coq Require Import String List Bool Arith NArith.
From KV Require Import Model.CxxSyncIR Model.CxxQueue Model.CxxLifetime Model.CxxNotify Gen.CxxSync
                       Proofs.CxxQueueProofs Proofs.CxxLifetimeProofs Proofs.CxxNotifyProofs.
Import ListNotations.
Open Scope list_scope.

(* Every pair of conflicting accesses (same member, at least one write) of the two classes: a common mutex is held, or
   the member is a std::atomic, or the two accesses are ordered by thread creation / join / the life-cycle contract. *)
Theorem C15_lockset : forall a b, In a lockset_table -> In b lockset_table -> conflict a b = true ->
  (exists m, In m (a_locks a) /\ In m (a_locks b)) \/
  kind_in (a_var a) (members_of (a_cls a)) = Some KAtomic \/
  ordered (a_phase a) (a_phase b) = true.
Proof. exact lockset. Qed.
Print Assumptions C15_lockset.

(* No lost wake-up (the assumption under which the LTS treats a wait as enabled exactly when its predicate holds): in every
   public method of threadsafe_queue a push is followed by a notification of the condition variable the consumers wait
   on, and a write of a flag read by the wait predicate is followed by notify_all. *)
Theorem C15_wakeup_discipline : wake_discipline "threadsafe_queue" members_threadsafe_queue methods_threadsafe_queue = true.
Proof. exact wake_discipline_ok. Qed.
Print Assumptions C15_wakeup_discipline.

Example C15_wakeup_discipline_nonvacuous :
  let wp := ("wait_and_pop"%string, lookup_ir_nth 1 "wait_and_pop" methods_threadsafe_queue) in
  wake_discipline "threadsafe_queue" members_threadsafe_queue
    [wp; ("wake_up"%string, [Lock "m_mutex"; Write "m_stopped"; Unlock "m_mutex"])] = false /\
  wake_discipline "threadsafe_queue" members_threadsafe_queue
    [wp; ("wake_up"%string, [Lock "m_mutex"; Write "m_stopped"; Unlock "m_mutex"; NotifyOne "m_cond"])] = false /\
  wake_discipline "threadsafe_queue" members_threadsafe_queue
    [wp; ("push"%string, [Lock "m_mutex"; Write "m_data"; PushBack; Unlock "m_mutex"])] = false.
Proof. vm_compute. auto. Qed.
Print Assumptions C15_wakeup_discipline_nonvacuous.

(* the LTS is written for exactly the critical sections the headers have now *)
Theorem C15_skeleton_as_modelled :
  lookup_ir "push" methods_threadsafe_queue = [Lock "m_mutex"; Write "m_data"; PushBack; NotifyOne "m_cond"; Unlock "m_mutex"] /\
  lookup_ir_nth 1 "wait_and_pop" methods_threadsafe_queue =
    [Lock "m_mutex"; WaitUntil "m_cond" ["m_data"; "m_stopped"]; Read "m_data"; Write "m_data"; Write "m_data"; PopFront; Unlock "m_mutex"] /\
  lookup_ir "wake_up" methods_threadsafe_queue = [Lock "m_mutex"; Write "m_stopped"; Unlock "m_mutex"; NotifyAll "m_cond"] /\
  lookup_ir "dispatch" methods_threaded_dispatcher = [Call "m_queue" "push"] /\
  lookup_ir "handle_dispatch_internal" methods_threaded_dispatcher =
    [Read "m_shutting_down"; Call "m_queue" "wait_and_pop"; Read "m_shutting_down"; CallHandler] /\
  lookup_ir "~threaded_dispatcher" methods_threaded_dispatcher = [Call "this" "shutdown"] /\
  lookup_ir "shutdown" methods_threaded_dispatcher =
    [Write "m_shutting_down"; Call "m_queue" "wake_up"; Read "m_threads"; JoinAll "m_threads"].
Proof. exact skeleton_as_modelled. Qed.
Print Assumptions C15_skeleton_as_modelled.

(* One worker: the items taken from the queue (each with its fate: handled / dropped because the destructor had
   started), then the at most one item taken but undecided, then the queue, ARE the sequence of all pushes: every
   dispatched item is taken at most once, in dispatch order; and the handler has been entered exactly for the taken
   items that were not dropped, in that order. *)
Theorem C15_at_most_once : forall sc s, reach 1 sc s ->
  exists got, length got <= 1 /\ map fst (fates s) ++ got ++ q s = map snd (pushes s) /\ hbegun (hlog s) = handled_of (fates s).
Proof. exact at_most_once. Qed.
Print Assumptions C15_at_most_once.

(* One worker: never two at a time: the handler log is a sequence of closed (enter i, leave i) pairs, possibly one open. *)
Theorem C15_no_overlap : forall sc s, reach 1 sc s ->
  exists dn o, hlog s = hpairs 0 dn ++ o /\ (o = [] \/ exists i, o = [HB 0 i]).
Proof. exact no_overlap. Qed.
Print Assumptions C15_no_overlap.

(* Any number of workers: items leave the queue in push order, and each producer's pushes are a prefix of its script. *)
Theorem C15_per_producer_order : forall m sc s, reach m sc s ->
  prefix (popped s) (map snd (pushes s)) /\ forall p, prefix (pushes_by p (pushes s)) (nth p sc []).
Proof. exact per_producer_order. Qed.
Print Assumptions C15_per_producer_order.

(* While the dispatcher is alive: no taken item is dropped; every step of a producer or worker decreases the explicit
   measure rank_alive; and a non-empty queue lets every worker move.  So under a fair scheduler (an enabled worker is not
   starved for ever) every dispatched item is taken and handed to the handler. *)
Theorem C15_eventually_handled : forall m sc s, reach m sc s -> d s = DAlive ->
  forallb snd (fates s) = true /\
  (forall t s', t <> TDestroy -> step t s = Some s' -> rank_alive s' < rank_alive s) /\
  (forall w pc, q s <> [] -> nth_error (workers s) w = Some pc -> exists s', step (TWorker w) s = Some s').
Proof.
  intros m sc s R Hd. split; [eapply alive_nothing_dropped; eauto|]. split.
  - intros t s' Ht H. eapply alive_decreases; eauto.
  - intros w pc Hq W. eapply alive_enabled; eauto.
Qed.
Print Assumptions C15_eventually_handled.

(* Destruction: from the moment the destructor has set the flag, some step of the destroyer or of a worker is always
   possible (no deadlock: in particular a worker waiting on the empty queue is released by wake_up), EVERY step
   decreases the explicit measure rank_down, producers are out (contract), and when the joins have returned every
   worker has left its loop and nothing can move any more. *)
Theorem C15_shutdown_terminates : forall m sc s, reach m sc s ->
  (d s = DFlagSet \/ (exists k, d s = DJoin k) -> exists t s', (t = TDestroy \/ exists w, t = TWorker w) /\ step t s = Some s') /\
  (d s <> DAlive -> forall t s', step t s = Some s' -> rank_down s' < rank_down s) /\
  (d s = DJoined -> all_done (workers s) = true /\ forall t, step t s = None).
Proof.
  intros m sc s R. split; [|split].
  - intros Hd. eapply down_enabled; eauto.
  - intros Hd t s' H. eapply down_decreases; eauto.
  - intros Hd. eapply joined_final; eauto.
Qed.
Print Assumptions C15_shutdown_terminates.

(* ---- non-vacuity: 1 worker, 2 producers; destruction starts while item 3 is still queued and 2 is being handled *)
Definition ex_sc : list (list N) := [[1; 2]; [3]]%N.
Definition ex_sched : list tid :=
  [TProd 0; TWorker 0; TWorker 0; TWorker 0; TWorker 0; TProd 0; TProd 1; TWorker 0; TWorker 0; TWorker 0; TDestroy;
   TWorker 0; TWorker 0; TDestroy; TDestroy].
Definition ex_s : st := run ex_sched (init 1 ex_sc).

Lemma run_reach : forall m sc l s, reach m sc s -> reach m sc (run l s).
Proof.
  intros m sc l. induction l as [|t r IH]; intros s R; cbn; auto.
  destruct (step t s) eqn:E; [apply IH; eapply reach_step; eauto|apply IH; exact R].
Qed.

Example C15_nonvacuous :
  reach 1 ex_sc ex_s /\ d ex_s = DJoined /\ fates ex_s = [(1, true); (2, true)]%N /\ q ex_s = [3]%N /\
  hlog ex_s = [HB 0 1; HE 0 1; HB 0 2; HE 0 2]%N /\ map snd (pushes ex_s) = [1; 2; 3]%N.
Proof. split; [apply run_reach; apply reach_init|]. vm_compute. auto 10. Qed.
Print Assumptions C15_nonvacuous.

(* ... and an item already taken when the destructor sets the flag is dropped, not handled (at MOST once) *)
Definition ex_sched2 : list tid :=
  [TProd 0; TWorker 0; TWorker 0; TDestroy; TWorker 0; TWorker 0; TDestroy; TDestroy].
Example C15_nonvacuous_drop :
  let s := run ex_sched2 (init 1 ex_sc) in
  reach 1 ex_sc s /\ d s = DJoined /\ fates s = [(1, false)]%N /\ hlog s = [].
Proof. split; [apply run_reach; apply reach_init|]. vm_compute. auto. Qed.
Print Assumptions C15_nonvacuous_drop.

Example C15_lockset_nonvacuous :
  exists a b, In a lockset_table /\ In b lockset_table /\ conflict a b = true /\
              a_var a = "m_shutting_down"%string /\ a_phase a = PDtor /\ a_phase b = PWorker /\ a_locks a = [] /\ a_locks b = [].
Proof.
  exists (mkAcc "threaded_dispatcher" "shutdown" "m_shutting_down" AWrite [] PDtor),
         (mkAcc "threaded_dispatcher" "handle_dispatch_internal" "m_shutting_down" ARead [] PWorker).
  vm_compute. intuition.
Qed.
Print Assumptions C15_lockset_nonvacuous.

(* ================================================================ one notification per push
   Source: in every method of threadsafe_queue each push on the container is followed, before the next push or the end of
   the method, by a notification of the condition variable the consumers wait on, and no notification is conditional
   (the translator refuses a notify under if/for/while).  Variants without, with a shared, or with a preceding
   notification are rejected (C15_notify_per_push_nonvacuous); the last one is a purely syntactic restriction -- a
   notification issued before the push but under the same lock would be harmless -- kept so that the accepted shape is
   exactly "push, then notify". *)
Theorem C15_notify_per_push : notify_per_push methods_threadsafe_queue = true /\ notifications_unconditional = true.
Proof. exact notify_per_push_ok. Qed.
Print Assumptions C15_notify_per_push.

Example C15_notify_per_push_nonvacuous :
  let wp := ("wait_and_pop"%string, lookup_ir_nth 1 "wait_and_pop" methods_threadsafe_queue) in
  notify_per_push [wp; ("push"%string, [Lock "m_mutex"; Write "m_data"; PushBack; Unlock "m_mutex"])] = false /\
  notify_per_push [wp; ("push2"%string, [Lock "m_mutex"; Write "m_data"; PushBack; Write "m_data"; PushBack; NotifyOne "m_cond"; Unlock "m_mutex"])] = false /\
  notify_per_push [wp; ("push"%string, [Lock "m_mutex"; NotifyOne "m_cond"; Write "m_data"; PushBack; Unlock "m_mutex"])] = false /\
  notify_per_push [wp; ("push"%string, [Lock "m_mutex"; Write "m_data"; PushBack; Unlock "m_mutex"; NotifyOne "m_cond"])] = true.
Proof. exact notify_per_push_rejects. Qed.
Print Assumptions C15_notify_per_push_nonvacuous.

(* Semantics (Model/CxxNotify.v: notifications explicit, consumers sleep until signalled, no spurious wake-ups, handlers of
   arbitrary duration): with one notify_one per push, for ANY number of consumers and pushes and ANY schedule, whenever a
   consumer sleeps without a pending notification every queued item is matched by a consumer that is awake at the
   predicate or has a notification pending -- and then one of those can move. *)
Theorem C15_notify_per_push_no_missed_wakeup : forall c p s, nreach NotifyEveryPush c p s ->
  work_matched s /\
  (nq s > 0 -> count is_asleep (cons s) > 0 -> exists i, enabled_n NotifyEveryPush s (NCons i) = true).
Proof. intros c p s R. split; [eapply notify_per_push_no_missed_wakeup; eauto|eapply notify_per_push_someone_moves; eauto]. Qed.
Print Assumptions C15_notify_per_push_no_missed_wakeup.

(* Notifying only on the empty -> non-empty transition is NOT enough with two consumers: both asleep, two pushes, one
   notification; then one item stays queued next to a sleeping consumer whom nobody will ever notify, while the only
   awake consumer is inside its handler (for a rendezvous job: for ever). *)
Theorem C15_notify_on_transition_only_refuted :
  exists s, nreach NotifyOnTransition 2 2 s /\ ~ work_matched s /\
            let s2 := nrun NotifyOnTransition tr_sched_stuck (ninit 2 2) in
            nreach NotifyOnTransition 2 2 s2 /\ nq s2 = 1 /\ todo s2 = 0 /\ cons s2 = [CHandling; CWaiting false] /\
            enabled_n NotifyOnTransition s2 NProd = false /\ enabled_n NotifyOnTransition s2 (NCons 1) = false.
Proof. exact notify_on_transition_only_refuted. Qed.
Print Assumptions C15_notify_on_transition_only_refuted.

(* ================================================================ object lifetime (derived dispatcher, Model/CxxLifetime.v)
   The source offers the protocol: shutdown() is protected and idempotent (every join guarded by joinable()), sets the
   atomic flag, wakes the queue, joins; ~threaded_dispatcher calls it; handle_dispatch is a protected pure virtual. *)
Theorem C15_shutdown_protocol_shape :
  existsb (fun p => String.eqb (fst p) "shutdown" && match snd p with AProtected => true | _ => false end) access_threaded_dispatcher = true /\
  existsb (String.eqb "handle_dispatch") pure_virtual_threaded_dispatcher = true /\
  lookup_ir "~threaded_dispatcher" methods_threaded_dispatcher = [Call "this" "shutdown"] /\
  lookup_ir "shutdown" methods_threaded_dispatcher =
    [Write "m_shutting_down"; Call "m_queue" "wake_up"; Read "m_threads"; JoinAll "m_threads"] /\
  joins_guarded_by_joinable = true.
Proof. pose proof shutdown_protocol_shape as H. intuition. Qed.
Print Assumptions C15_shutdown_protocol_shape.

(* If the derived destructor calls shutdown() first: under every schedule, for every number of workers and producers and
   every queue content, no virtual call and no running derived handler ever meets a derived part that is not alive; and
   from the moment the derived part begins to be destroyed every worker has left its loop and none can move. *)
Theorem C15_lifetime_safe_with_shutdown : forall m sc l, lreach true m sc l ->
  hazard l = false /\
  (part l <> PartAlive ->
     all_done (workers (base l)) = true /\ (forall w, lstep true (TWorker w) l = None) /\ (forall w, is_vcall (base l) w = false)).
Proof. exact lifetime_safe_with_shutdown. Qed.
Print Assumptions C15_lifetime_safe_with_shutdown.

(* If it does not (known finding K-C15-2, a design decision of the inherit-and-join-in-the-base-destructor pattern): a
   schedule on which a worker performs the virtual call handle_dispatch while the derived part is being destroyed. *)
Theorem C15_lifetime_refuted_without_shutdown :
  exists m sc l, lreach false m sc l /\ hazard l = true /\ part l = PartDying /\ is_vcall (base l) 0 = false
                 /\ nth_error (workers (base l)) 0 = Some (WHandling 1%N).
Proof. exact lifetime_refuted_without_shutdown. Qed.
Print Assumptions C15_lifetime_refuted_without_shutdown.

Example C15_lifetime_nonvacuous :
  hazard (lrun false haz_sched_running (linit 1 haz_sc)) = true /\ hazard (lrun true haz_sched_running (linit 1 haz_sc)) = false
  /\ hazard (lrun true haz_sched_vcall (linit 1 haz_sc)) = false.
Proof. exact lifetime_refuted_handler_running. Qed.
Print Assumptions C15_lifetime_nonvacuous.
