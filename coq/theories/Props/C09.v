(* C09 -- The generated C++ (boost::sml) encodes exactly the table and is self-consistent. *)
From Coq Require Import String List Bool Arith.
From KV Require Import Lib.TableDef Model.TTable Gen.SmlTmpl Model.SmlTT Model.DeclShape Gen.DeclTmpl Model.Decls
                       Proofs.TTableProofs Proofs.SmlProofs Proofs.DeclProofs Spec.TableInterp Proofs.SmlSemProofs
                       Lib.Str Model.Engine Model.EngineSM Model.EngineDomain16 Model.SmlRender Proofs.SmlBridge.
Import KV.Lib.TableDef KV.Model.TTable KV.Model.SmlTT.
Import ListNotations.
Open Scope string_scope.

(* One sml row per input row, in input order, carrying the same source state, event, guard, action and target: an
   absent guard is the always-true guard `gnone`, an absent action the no-op `none` (both declared so in the
   template: checked by the translator), names appear as the lowerCamelCase functor instances, a row without next
   state (spelled '' or any capitalisation of none) has NO target, i.e. stays internal; the first row, and only the
   first, carries the initial marker.  With or without the entry/exit hook rows (ee). *)
Theorem C09_rows : forall ee t, forallb row_ok t = true -> rows_of (gen_sml ee t) = spec_rows t.
Proof. exact sml_rows. Qed.
Print Assumptions C09_rows.

(* Exactly one entry hook row and exactly one exit hook row (wired to that state's own functor instance) for every
   state of the table, including states that are only targets ... *)
Theorem C09_entry_exit : forall t, forallb row_ok t = true -> forall s ex, In s (states t) ->
  count (is_hook_of ex s) (gen_sml true t) = 1.
Proof. exact sml_entry_exit. Qed.
Print Assumptions C09_entry_exit.

(* ... and hook rows for nothing else. *)
Theorem C09_hooks_only_states : forall t, forallb row_ok t = true -> forall i s,
  In i (gen_sml true t) -> hook_state i = Some s -> In s (states t).
Proof. exact sml_hooks_only_states. Qed.
Print Assumptions C09_hooks_only_states.

(* What the emitted table DOES, under the semantics of boost::sml stated in Model/SmlTT.v (initial state marked `*` and its
   entry hooks at construction; rows tried in table order, first row of the current state for the event whose guard holds
   fires; `= state<T>` external -- exit hooks, action, entry hooks, also for T = source -- otherwise internal; nothing
   happens when no row fires): for every non-empty table of well-formed rows in which no guard takes the instance name of
   the always-true guard, every event sequence and every guard oracle (on the instance names the text carries), reading
   the generated table makes exactly the callbacks of the table interpreter (in those names) and passes through exactly
   its states.  The sml semantics is the ASSUMPTION (the sml submodule is empty here); the check runs the same reading in
   Python over the rows parsed back from the real text, and the generated unit compiled against a functional mini-sml
   header (harness/stubs/boost/sml.hpp) that implements the same stated semantics. *)
Theorem C09_sem : forall t, t <> [] -> forallb row_ok t = true -> sml_names_ok t = true -> forall evs gv,
  sml_run (gen_sml true t) evs gv = camel_steps (table_interp_quiet t evs (fun n g => gv n (camel_small g))).
Proof. exact sml_sem. Qed.
Print Assumptions C09_sem.

(* THE ENGINE'S PRINTER.  gen_sml is not a separately written model of the table any more: the engine model (Model/EngineSM.v) contains
   smgen.innerexpand_sml, the Python code behind <<<TTT_BOOST_SML>>> / <<<TTT_BOOST_SML_ENTRY_EXIT>>>, string by string (header
   comment, padding to the longest present start state / event / guard / action, the `none` / `gnone` / msmf::none replacements
   with their "__" and "msmf::" strippings, rstrip, the once-only entry / exit hook rows, the trailing loop over the states), as the
   expansion function of the two single-tag stages.  For EVERY table of well-formed rows and every indentation: the text it appends
   is the header line followed by the text of the items of gen_sml (Model/SmlRender.v: one line per item), so C09_rows /
   C09_entry_exit / C09_sem are statements about what the engine writes. *)
Theorem C09_engine_text : forall (tt : list EngineSM.row) (structs protos msgs : list string) (m : smodel) (ee : bool) (ws : string),
  tt_model tt structs protos msgs = Some m -> forallb row_ok (table_of tt) = true ->
  single_of m "innerexpand_sml" (if ee then "smmodel,True" else "smmodel,False") = Some (sml_print (sm_states m) (sm_rows m) ee)
  /\ String.concat "" (sml_print (sm_states m) (sm_rows m) ee ws) = sml_text ws ee (table_of tt).
Proof. exact sml_stage_text. Qed.
Print Assumptions C09_engine_text.

(* ... and the items that text consists of execute the table *)
Theorem C09_sem_engine : forall (tt : list EngineSM.row) (structs protos msgs : list string) (m : smodel) (ws : string),
  tt_model tt structs protos msgs = Some m -> table_of tt <> [] -> forallb row_ok (table_of tt) = true -> sml_names_ok (table_of tt) = true ->
  String.concat "" (sml_print (sm_states m) (sm_rows m) true ws)
  = (header_text ws (table_of tt) ++ String.concat "" (map (item_text ws (table_of tt)) (gen_sml true (table_of tt))))%string
  /\ forall evs gv, sml_run (gen_sml true (table_of tt)) evs gv
                    = camel_steps (table_interp_quiet (table_of tt) evs (fun n g => gv n (camel_small g))).
Proof. exact sml_sem_engine. Qed.
Print Assumptions C09_sem_engine.

Example C09_engine_text_nonvacuous :
  String.concat "" (sml_print ["SA"; "SB"] [["SA"; "EvX"; "SB"; "OnA"; "GuardG"]; ["SB"; "EvY"; "none"; "None"; ""]] true "  ")
  = ("  // Start     +Event       [ Guard ]   / Action = Next" ++ nl_str ++
     "   *state<SA>  +event<EvX>   [guardG]   / onA   = state<SB>" ++ nl_str ++
     "  , state<SA> + boost::sml::on_entry<_> / sAOnEntry" ++ nl_str ++
     "  , state<SA> + boost::sml::on_exit<_> / sAOnExit" ++ nl_str ++
     "  , state<SB>  +event<EvY>   [gnone]    / none" ++ nl_str ++
     "  , state<SB> + boost::sml::on_entry<_> / sBOnEntry" ++ nl_str ++
     "  , state<SB> + boost::sml::on_exit<_> / sBOnExit" ++ nl_str)%string.   (* the text the real smgen.innerexpand_sml prints for this table *)
Proof. vm_compute. reflexivity. Qed.
Print Assumptions C09_engine_text_nonvacuous.

(* Self-consistency, at the level of (declaration kind, name, parameter list) triples.  [decls_file f t i] is what file f
   declares: for every declaration line that translator/decltmpl.py finds inside a per-element block of f's template
   (Gen/DeclTmpl.v, regenerated on every run) one declaration per element of the list that block iterates over -- states,
   events (the table's, then the interface's other event structs), actions, (action, event) signatures, guards --
   with the event's parameter list as the event interface declares it.  [refs_cpp t i] is what the rows make the units
   refer to and where it must be declared:
     every start / next state : struct S; (impl), S_on_entry / S_on_exit (controller, and the test unit's overrides),
       the SOnEntry / SOnExit functors and their instances (impl), Is<S>() in the interface and its override in the impl;
     every event : struct E with its members and E_ptr (controller), Trigger<E>(parameters of E) in the interface AND,
       with the same parameter list, its override in the impl, E::Dispatch (impl);
     every guard : G() and m_G (controller), the functor G and its instance (impl), the override (test unit);
     every action : the functor A and its instance (impl); and for the (action, event) pair of the row
       A(E const&) in the controller and its override in the test unit.
   Each of these is declared EXACTLY ONCE in the file that must declare it, for every table (any number of rows sharing
   states, events, guards, actions, signatures) and every event interface.
   What stays observed, not proved: that g++ accepts the units (name lookup, overload resolution, the member types
   themselves) -- `g++ -std=c++17 -fsyntax-only` against the interface-only boost::sml stub in the check -- and that the
   per-kind regexes of the check read the same declarations out of the real files as decls_file predicts. *)
Theorem C09_self_consistent : forall t i, forallb row_ok t = true ->
  forall f d, In (f, d) (refs_cpp t i) -> dcount (decls_file f t i) d = 1.
Proof. exact cpp_self_consistent. Qed.
Print Assumptions C09_self_consistent.

(* ... and a file declares nothing but elements of the table model / event interface. *)
Theorem C09_declares_only_elements : forall f t i k n p, In (k, n, p) (decls_file f t i) ->
  exists b, In (b, k) (shape_of f) /\ In (n, p) (elements t i b).
Proof. exact decls_only_elements. Qed.
Print Assumptions C09_declares_only_elements.

Definition ex_table : table :=
  [mkRow "SA" "BEv" "SA" "OnA" "GuardG"; mkRow "SA" "Ev" "" "OnAB" "None"; mkRow "SA" "EvZ" "SC" "none" "NONE";
   mkRow "SB" "Ev" "SA" "OnA" "GuardG"].

Example C09_rows_nonvacuous :
  forallb row_ok ex_table = true /\
  rows_of (gen_sml true ex_table) =
    [mkSml true "SA" "BEv" "guardG" "onA" (Some "SA"); mkSml false "SA" "Ev" "gnone" "onAB" None;
     mkSml false "SA" "EvZ" "gnone" "none" (Some "SC"); mkSml false "SB" "Ev" "guardG" "onA" (Some "SA")].
Proof. vm_compute. split; reflexivity. Qed.
Print Assumptions C09_rows_nonvacuous.

(* SC is only a target; SB appears as a start state late *)
Example C09_entry_exit_nonvacuous :
  states ex_table = ["SA"; "SC"; "SB"] /\
  filter (fun i => match i with IRow _ => false | _ => true end) (gen_sml true ex_table) =
    [IEntry "SA" "sAOnEntry"; IExit "SA" "sAOnExit"; IEntry "SB" "sBOnEntry"; IExit "SB" "sBOnExit";
     IEntry "SC" "sCOnEntry"; IExit "SC" "sCOnExit"].
Proof. vm_compute. split; reflexivity. Qed.
Print Assumptions C09_entry_exit_nonvacuous.

Definition ex_iface : iface := [("Ev", ["uint8_t m0"; "double m1"]); ("Extra0", ["bool p0"])].

Example C09_self_consistent_nonvacuous :
  In (FCtl, (KCtlAction, "OnAB", ["Ev"])) (refs_cpp ex_table ex_iface) /\
  In (FImpl, (KImplTrigger, "Ev", ["uint8_t m0"; "double m1"])) (refs_cpp ex_table ex_iface) /\
  dcount (decls_file FCtl ex_table ex_iface) (KCtlAction, "OnAB", ["Ev"]) = 1 /\
  dcount (decls_file FCtl ex_table ex_iface) (KCtlAction, "OnA", ["Ev"]) = 1 /\
  dcount (decls_file FCtl ex_table ex_iface) (KCtlAction, "OnA", ["EvZ"]) = 0 /\
  dcount (decls_file FIfc ex_table ex_iface) (KIfcTrigger, "Extra0", ["bool p0"]) = 1.
Proof. vm_compute. repeat split; try reflexivity; repeat (first [left; reflexivity | right]). Qed.
Print Assumptions C09_self_consistent_nonvacuous.

Example C09_sem_nonvacuous :
  sml_names_ok ex_table = true /\
  sml_run (gen_sml true ex_table) ["BEv"; "Ev"; "EvZ"; "Ev"] (fun n _ => Nat.even n) =
    [([CEntry "SA" "EventStartup"], "SA");
     ([CGuard "guardG" "BEv"; CExit "SA" "BEv"; CAction "onA" "BEv"; CEntry "SA" "BEv"], "SA");
     ([CAction "onAB" "Ev"], "SA");
     ([CExit "SA" "EvZ"; CEntry "SC" "EvZ"], "SC");
     ([], "SC")].
Proof. vm_compute. split; reflexivity. Qed.
Print Assumptions C09_sem_nonvacuous.

(* Known finding K-C09-4 in the reading: a guard named Gnone has the instance name of the always-true guard, so its row
   fires without the guard being asked -- outside sml_names_ok. *)
Example C09_sem_guard_named_Gnone_refuted :
  let t := [mkRow "S" "E" "T" "OnA" "Gnone"] in
  sml_names_ok t = false /\
  sml_run (gen_sml true t) ["E"] (fun _ _ => false) <> camel_steps (table_interp_quiet t ["E"] (fun _ _ => false)).
Proof. split; [reflexivity|]. vm_compute. discriminate. Qed.
Print Assumptions C09_sem_guard_named_Gnone_refuted.

(* The key that was used before the fix: commit (string concatenation action+event): (OnA,BEv) and (OnAB,Ev) collide and
   the signature OnAB(Ev) is never declared. *)
Example C09_signature_key_refuted_before_fix :
  exists t r, forallb row_ok t = true /\ In r t /\ opt (r_act r) = Some (r_act r) /\
              ~ In (r_act r, r_ev r) (actionsignatures_concat t).
Proof.
  exists ex_table, (mkRow "SA" "Ev" "" "OnAB" "None"). split; [reflexivity|]. split; [right; left; reflexivity|].
  split; [reflexivity|]. vm_compute. intro H. repeat (destruct H as [H|H]; [discriminate|]). destruct H.
Qed.
Print Assumptions C09_signature_key_refuted_before_fix.
