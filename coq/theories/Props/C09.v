(* C09 -- The generated C++ (boost::sml) encodes exactly the table and is self-consistent. *)
From Coq Require Import String List Bool Arith.
From KV Require Import Lib.TableDef Model.TTable Gen.SmlTmpl Model.SmlTT Proofs.TTableProofs Proofs.SmlProofs.
Import ListNotations.
Open Scope string_scope.

(* One sml row per input row, in input order, carrying the same source state, event, guard, action and target: an
   absent guard is the always-true guard `gnone`, an absent action the no-op `none` (both declared so in the
   template: checked by the translator), names appear as the lowerCamelCase functor instances, a row without next
   state (spelled '' or any capitalisation of none) has NO target, i.e. stays internal; the first row, and only the
   first, carries the initial marker.  With or without the entry/exit hook rows (ee). *)
Theorem C09_rows : forall ee t, forallb row_ok t = true -> rows_of (gen_sml ee t) = spec_rows t.
Proof. exact sml_rows. Qed.
Print Assumptions C09_rows.

(* Exactly one entry hook row and exactly one exit hook row (wired to that state's own functor instance) for every
   state of the table, including states that are only targets ... *)
Theorem C09_entry_exit : forall t, forallb row_ok t = true -> forall s ex, In s (states t) ->
  count (is_hook_of ex s) (gen_sml true t) = 1.
Proof. exact sml_entry_exit. Qed.
Print Assumptions C09_entry_exit.

(* ... and hook rows for nothing else. *)
Theorem C09_hooks_only_states : forall t, forallb row_ok t = true -> forall i s,
  In i (gen_sml true t) -> hook_state i = Some s -> In s (states t).
Proof. exact sml_hooks_only_states. Qed.
Print Assumptions C09_hooks_only_states.

(* FULL STATEMENT of the self-consistency clause: every state, event, guard and action the generated units reference
   is declared exactly once in the generated controller and state-machine interfaces with matching event parameters,
   so that the translation units type-check together.
   PROVED (partial): at the level of the element lists that the per-element template blocks iterate over -- every
   state / event / guard / action / (action, event) signature a row refers to is a member of the corresponding list,
   and each list is duplicate free, so each per-element declaration is emitted exactly once.
   MISSING: a Coq model of the four templates' per-element blocks and of C++ name lookup / overload resolution; that
   each list element becomes exactly one declaration in each file, with the event's parameter list, is observed on the
   real files by the check (declaration regexes, counts) and by `g++ -fsyntax-only` against an interface-only stub of
   boost/sml.hpp, not proved. *)
Theorem C09_self_consistent_partial : forall t, forallb row_ok t = true ->
  (forall r, In r t ->
     In (r_src r) (states t) /\ In (r_ev r) (events t) /\
     (forall n, opt (r_next r) = Some n -> In n (states t)) /\
     (forall g, opt (r_guard r) = Some g -> In g (guards t)) /\
     (forall a, opt (r_act r) = Some a -> In a (actions t) /\ In (a, r_ev r) (actionsignatures t))) /\
  NoDup (states t) /\ NoDup (events t) /\ NoDup (guards t) /\ NoDup (actions t) /\ NoDup (actionsignatures t).
Proof. intros t H. split; [exact (sml_refs_declared t H)|exact (sml_decl_lists_nodup t)]. Qed.
Print Assumptions C09_self_consistent_partial.

Definition ex_table : table :=
  [mkRow "SA" "BEv" "SA" "OnA" "GuardG"; mkRow "SA" "Ev" "" "OnAB" "None"; mkRow "SA" "EvZ" "SC" "none" "NONE";
   mkRow "SB" "Ev" "SA" "OnA" "GuardG"].

Example C09_rows_nonvacuous :
  forallb row_ok ex_table = true /\
  rows_of (gen_sml true ex_table) =
    [mkSml true "SA" "BEv" "guardG" "onA" (Some "SA"); mkSml false "SA" "Ev" "gnone" "onAB" None;
     mkSml false "SA" "EvZ" "gnone" "none" (Some "SC"); mkSml false "SB" "Ev" "guardG" "onA" (Some "SA")].
Proof. vm_compute. split; reflexivity. Qed.
Print Assumptions C09_rows_nonvacuous.

(* SC is only a target; SB appears as a start state late *)
Example C09_entry_exit_nonvacuous :
  states ex_table = ["SA"; "SC"; "SB"] /\
  filter (fun i => match i with IRow _ => false | _ => true end) (gen_sml true ex_table) =
    [IEntry "SA" "sAOnEntry"; IExit "SA" "sAOnExit"; IEntry "SB" "sBOnEntry"; IExit "SB" "sBOnExit";
     IEntry "SC" "sCOnEntry"; IExit "SC" "sCOnExit"].
Proof. vm_compute. split; reflexivity. Qed.
Print Assumptions C09_entry_exit_nonvacuous.

(* The key that was used before the fix: commit (string concatenation action+event): (OnA,BEv) and (OnAB,Ev) collide and
   the signature OnAB(Ev) is never declared. *)
Example C09_signature_key_refuted_before_fix :
  exists t r, forallb row_ok t = true /\ In r t /\ opt (r_act r) = Some (r_act r) /\
              ~ In (r_act r, r_ev r) (actionsignatures_concat t).
Proof.
  exists ex_table, (mkRow "SA" "Ev" "" "OnAB" "None"). split; [reflexivity|]. split; [right; left; reflexivity|].
  split; [reflexivity|]. vm_compute. intro H. repeat (destruct H as [H|H]; [discriminate|]). destruct H.
Qed.
Print Assumptions C09_signature_key_refuted_before_fix.
