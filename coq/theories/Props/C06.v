(* C06 -- Generation is deterministic: same inputs give byte-identical trees everywhere. *)
From Coq Require Import String List Bool Permutation.
From KV Require Import Lib.Str Lib.ODict Model.PreserveCore Model.Preserve Model.Inventory Gen.Inventory Gen.Templates Gen.Tags
                       Proofs.PreserveTree Proofs.PreserveTop Proofs.DeterminismProofs Proofs.SortedSet Gen.SetOrder.
Import ListNotations.
Open Scope string_scope.

(* Every read of process environment (clock, platform, cwd, directory listings, package location, hash-ordered sets)
   reachable from the public entry points is one of those Model/Inventory.v accounts for (AST scan regenerated from /repo
   on every run: a new time.time(), os.getcwd(), os.listdir, set iteration ... anywhere breaks this obligation). *)
Theorem C06_env_reads_closed : closed scanned_env_reads known_env_reads = true.
Proof. exact env_reads_closed. Qed.
Print Assumptions C06_env_reads_closed.

(* Nothing survives from one generation to the next inside one interpreter: the module-level and class-level mutable bindings,
   `global` declarations, decorators (memoisation), mutable default arguments and attributes stored on class objects of the
   generator's modules are exactly the four harmless ones Model/Inventory.v lists (a class-level dict, an lru_cache, a cache kept
   on a class ... anywhere in these modules breaks this obligation). *)
Theorem C06_process_state_closed : closed scanned_process_state known_process_state = true.
Proof. exact process_state_closed. Qed.
Print Assumptions C06_process_state_closed.

(* clock / platform: only substituted into <<<DATETIME>>> / <<<PLATFORM>>>; no line of any shipped template contains them *)
Theorem C06_datetime_platform_unused :
  forall set file l, In set all_templates -> In file (snd set) -> In l (snd file) ->
  contains dt_tag l = false /\ contains pf_tag l = false.
Proof. exact datetime_platform_unused_spec. Qed.
Print Assumptions C06_datetime_platform_unused.

(* listing order of the template folder: it only permutes the code model; what is written under every name is the same *)
Theorem C06_listing_order_irrelevant : forall outdir old (fresh fresh' : cmodel),
  Permutation fresh fresh' -> names_ok (keys fresh) ->
  (forall k, slookup k (fst (regen outdir old fresh)) = slookup k (fst (regen outdir old fresh')))
  /\ Permutation (keys fresh) (keys fresh').
Proof. exact regen_permutation_invariant. Qed.
Print Assumptions C06_listing_order_irrelevant.

(* spelling of the output directory (relative, absolute, trailing separator, un-normalised): everything that is written
   (relative name -> bytes, LostCode files included) and the reported list are identical *)
Theorem C06_outdir_spelling_irrelevant : forall o1 o2 old (fresh : cmodel),
  (forall fn, In fn (keys fresh) -> prefixb "/" fn = false) ->
  regen o1 old fresh = regen o2 old fresh.
Proof. exact regen_outdir_independent. Qed.
Print Assumptions C06_outdir_spelling_irrelevant.

(* hash order: the only hash-ordered containers whose iteration reaches the output are the sets of type / namespace names
   built by the functions listed in Gen/SetOrder.v; the translator refuses unless every one of them hands its set out through
   sorted(...) (and unless no other function of the module builds a set).  Two iterations of one set are permutations of each
   other, and sorting a permutation gives the same list: *)
Theorem C06_hash_order_irrelevant : forall l1 l2 : list string,
  Permutation l1 l2 -> py_sorted l1 = py_sorted l2.
Proof. exact sorted_independent_of_iteration_order. Qed.
Print Assumptions C06_hash_order_irrelevant.

Theorem C06_sorted_set_functions :
  sorted_set_functions = ["Class.GetNotForwardDeclarableNonPrimitiveTypesLinkedToThis";
                          "Class.GetForwardDeclarableNonPrimitiveTypesLinkedToThis";
                          "ClassDiagram.GetNamespaceDependencies"].
Proof. exact sorted_set_functions_are. Qed.
Print Assumptions C06_sorted_set_functions.

Definition tagl : string := bs [35;32;123;123;123;85;83;69;82;95;88;10].
Definition ex_fresh : cmodel := [("a/F.py", [bs [120;10]]); ("G.py", [tagl; tagl])].
Definition ex_old (fn : string) : old_state :=
  if String.eqb fn "a/F.py" then Readable (concat_lines [tagl; bs [117;10]; tagl]) else Missing.
Example C06_nonvacuous :
  regen "out" ex_old ex_fresh = regen "/abs/x/../out/" ex_old ex_fresh /\
  slookup "a/F.py.LostCode.txt" (fst (regen "./out" ex_old ex_fresh)) <> None /\
  slookup "G.py" (fst (regen "out" ex_old ex_fresh)) = slookup "G.py" (fst (regen "out" ex_old (rev ex_fresh))).
Proof. repeat split; vm_compute; try reflexivity; discriminate. Qed.
Print Assumptions C06_nonvacuous.
