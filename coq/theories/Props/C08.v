(* C08 -- The generated Python state machine executes exactly the transition table. *)
From Coq Require Import String List Bool Arith.
From KV Require Import Lib.TableDef Model.TTable Model.PyShape Spec.TableInterp Gen.PyTmpl Model.PySM
                       Proofs.PySMGen Proofs.PySMSem Model.PySyncIR Gen.PySync Model.PyTrigger Proofs.PyTriggerProofs.
Import ListNotations.
Open Scope string_scope.

(* For every well-formed table, every event sequence (events are arbitrary names, also ones the table never
   mentions) and every guard oracle (indexed by call count, so guards may change between calls): the lines that
   smgen produces from the shipped template parse by Python's block rule, and running the parsed program
   (constructor, then process(event) per event) makes exactly the callbacks, in order, and passes through exactly
   the states that the independent table interpreter computes (the state after each event determines every
   Is<State>() answer). *)
Theorem C08_sem : forall t, wf_table t = true -> py_names_ok t = true -> forall evs gv,
  exists prog, parse_indent (gen_py t) = Some prog /\ run_py prog evs gv = Some (table_interp t evs gv).
Proof. intros t H _. exact (py_sem t H). Qed.
Print Assumptions C08_sem.

(* "For each triggered event": the same, with the machine driven through Trigger<Event> in non-threaded mode
   (StateMachineThread = 0).  What Trigger does is read from the synchronisation IR that translator/pysync.py extracts
   from the template's PER_EVENT block (Gen/PySync.v, the IR property C11 uses for the threaded mode): with the private
   flag runThreaded false it calls self.process(event) synchronously exactly once and touches neither queue nor thread. *)
Theorem C08_sem_triggered : forall t, wf_table t = true -> py_names_ok t = true -> forall evs gv,
  exists prog, parse_indent (gen_py t) = Some prog /\ run_triggered prog evs gv = Some (table_interp t evs gv).
Proof. intros t H _. exact (py_sem_triggered t H). Qed.
Print Assumptions C08_sem_triggered.

Example C08_sem_triggered_nonvacuous : trigger_calls_unthreaded = Some 1.
Proof. vm_compute. reflexivity. Qed.
Print Assumptions C08_sem_triggered_nonvacuous.

(* The name domain.  The model abstracts identifiers, so the theorems above cannot see a table name that collides with a
   bare module-level name of the template (an event named Enum is re-bound by `from enum import Enum`).  The hypothesis
   py_names_ok excludes exactly the names that translator/pytmpl.py computes from the template NOW: the names bound by its
   import statements after the controller's star import (which the translator requires to be the FIRST import, so that a
   controller name can never replace a library name), the classes it defines, and every other bare name it loads.  This
   lemma pins that list; the check generates only tables inside the domain and probes every reserved name on the real code. *)
Theorem C08_name_domain :
  py_reserved_names = ["Enum"; "EventStartup"; "auto"; "queue"; "threading"; "unique"] /\
  py_reserved_suffixes = ["StateId"; "StateMachine"].
Proof. exact py_reserved_as_assumed. Qed.
Print Assumptions C08_name_domain.

(* The machine starts in the first row's start state after that state's entry callback (and nothing else). *)
Theorem C08_init : forall t, wf_table t = true -> forall gv,
  exists prog, parse_indent (gen_py t) = Some prog /\
    run_py prog [] gv = Some [([CEntry (first_state t) startup_event], first_state t)].
Proof. exact py_init_state. Qed.
Print Assumptions C08_init.

(* The block structure of the generated behaviour section is valid Python for EVERY table (no IndentationError),
   whatever mixture of guarded and unguarded rows a (state, event) pair has. *)
Theorem C08_block_structure : forall t, parse_indent (gen_py t) = Some (prog_of t).
Proof. exact parse_gen_py. Qed.
Print Assumptions C08_block_structure.

(* guarded row + unguarded fallback, unguarded row followed by a guarded one, a target-only state (SC),
   a row without target, all spellings of "absent", a repeated row, a self loop *)
Definition ex_table : table :=
  [mkRow "SA" "EvX" "SB" "OnA" "GuardG"; mkRow "SA" "EvX" "SC" "OnB" "None";
   mkRow "SB" "EvX" "SA" "OnA" ""; mkRow "SB" "EvX" "none" "OnB" "GuardG";
   mkRow "SB" "EvY" "SB" "NONE" "GuardH"; mkRow "SB" "EvY" "SB" "NONE" "GuardH"].

Example C08_sem_nonvacuous :
  wf_table ex_table = true /\ py_names_ok ex_table = true /\
  table_interp ex_table ["EvX"; "EvX"; "EvZ"; "EvX"; "EvX"] (fun n _ => Nat.even n) =
    [([CEntry "SA" "EventStartup"], "SA");
     ([CGuard "GuardG" "EvX"; CExit "SA" "EvX"; CAction "OnA" "EvX"; CEntry "SB" "EvX"], "SB");
     ([CExit "SB" "EvX"; CAction "OnA" "EvX"; CEntry "SA" "EvX"], "SA");
     ([CNoTrans "EvZ"], "SA");
     ([CGuard "GuardG" "EvX"; CExit "SA" "EvX"; CAction "OnB" "EvX"; CEntry "SC" "EvX"], "SC");
     ([CNoTrans "EvX"], "SC")].
Proof. vm_compute. repeat split; reflexivity. Qed.
Print Assumptions C08_sem_nonvacuous.

Example C08_init_nonvacuous : wf_table ex_table = true /\ first_state ex_table = "SA".
Proof. vm_compute. split; reflexivity. Qed.
Print Assumptions C08_init_nonvacuous.

(* The template as it was before the `fix:` commits (guard line without alternative text): the same model
   reproduces the two block-structure defects that were observed on the real code.  (The third one, silence in a
   target-only state, was a property of transitionsperstate, which now lists target-only states: corpus/C08.) *)
Definition old_template : list tline :=
  (py_init ++
   [(4, KDefProcess); (8, KSkip); (8, KBegin 1); (8, KIfState); (12, KCallState); (12, KReturn); (8, KEnd 1); (0, KSkip);
    (4, KBegin 1); (4, KDefProcessState); (8, KBegin 2); (8, KIfEvent); (12, KBegin 3); (12, KIfGuard false);
    (16, KExit); (16, KAction); (16, KEntry); (16, KSetState); (16, KReturn); (12, KEnd 3); (8, KEnd 2); (8, KSkip);
    (8, KNoTrans); (0, KSkip); (4, KEnd 1); (4, KSkip)])%list.

Example C08_old_template_refuted :
  (* unguarded row followed by a guarded row: IndentationError *)
  parse_indent (gen_from old_template [mkRow "SA" "EvX" "SB" "OnA" "None"; mkRow "SA" "EvX" "SA" "OnB" "GuardG"]) = None /\
  (* guarded row + fallback: the fallback never fires *)
  (let t := [mkRow "SA" "EvX" "SB" "OnA" "GuardG"; mkRow "SA" "EvX" "SB" "OnB" "None"] in
   match parse_indent (gen_from old_template t) with
   | Some p => run_py p ["EvX"; "EvX"] (fun _ _ => false)
   | None => None
   end = Some [([CEntry "SA" "EventStartup"], "SA"); ([CGuard "GuardG" "EvX"; CNoTrans "EvX"], "SA"); ([CGuard "GuardG" "EvX"; CNoTrans "EvX"], "SA")]).
Proof. vm_compute. repeat split; reflexivity. Qed.
Print Assumptions C08_old_template_refuted.
