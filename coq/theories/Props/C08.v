(* C08 -- The generated Python state machine executes exactly the transition table. *)
From Coq Require Import String List Bool Arith.
From KV Require Import Lib.Str Lib.TableDef Model.TTable Model.PyShape Spec.TableInterp Gen.PyTmpl Model.PySM
                       Proofs.PySMGen Proofs.PySMSem Model.PySyncIR Gen.PySync Model.PyTrigger Proofs.PyTriggerProofs
                       Model.Engine Model.EngineSM Model.EngineDomain Model.EngineDomain16 Spec.RefExpand16 Model.Parse16 Model.PyRender Proofs.PyBridge.
Import KV.Model.PyShape KV.Model.PySM.
Import ListNotations.
Open Scope string_scope.

(* For every well-formed table, every event sequence (events are arbitrary names, also ones the table never
   mentions) and every guard oracle (indexed by call count, so guards may change between calls): the lines that
   smgen produces from the shipped template parse by Python's block rule, and running the parsed program
   (constructor, then process(event) per event) makes exactly the callbacks, in order, and passes through exactly
   the states that the independent table interpreter computes (the state after each event determines every
   Is<State>() answer). *)
Theorem C08_sem : forall t, wf_table t = true -> py_names_ok t = true -> forall evs gv,
  exists prog, parse_indent (gen_py t) = Some prog /\ run_py prog evs gv = Some (table_interp t evs gv).
Proof. intros t H _. exact (py_sem t H). Qed.
Print Assumptions C08_sem.

(* THE ENGINE'S OUTPUT.  gen_py is not a separately recognised shape any more: for EVERY well-formed table, the file that the
   engine's pipeline (Model/EngineSM.v: all expander stages in source order, user tags, FOR, write) produces from the
   "State Processing" region of the SHIPPED template (Model/PyRender.py_proc16: the lines of Gen/Templates.v from
   def process(self, event) to the end of the file, first-filtered with the state machine name X, read into the template
   syntax and checked to render back) is a sequence of lines L that read one by one as the process part of gen_py
   (reads: a line is exactly  indentation ++ the Python statement of the abstract line ; blank / comment / print lines are
   recognised); gen_py is the three constructor lines followed by that part; and that program parses and executes the
   table.  The harness compares the real generated module's text from def process on with L on every case. *)
Theorem C08_sem_engine : forall tt structs protos msgs m dict,
  tt_model tt structs protos msgs = Some m -> dict_ok dict = true -> wf_table (table_of tt) = true -> forall evs gv,
  exists L prog,
    engine16 m dict py_proc16 = Some (concat_lines (map tab4 L))
    /\ reads_all "X" L (gen_proc (table_of tt)) = true
    /\ gen_py (table_of tt) = ([(4, ADef "__init__"); (8, AEntryStartup (getfirststate (table_of tt))); (8, ASetState (getfirststate (table_of tt)))]
                               ++ gen_proc (table_of tt))%list
    /\ parse_indent (gen_py (table_of tt)) = Some prog
    /\ run_py prog evs gv = Some (table_interp (table_of tt) evs gv).
Proof. exact py_sem_engine. Qed.
Print Assumptions C08_sem_engine.

(* ... and with the constructor: its behaviour-deciding lines (the def line and the two lines that mention <<<STATE_0>>>, selected from
   the shipped file as translator/pytmpl.py selects them: Model/PyRender.py_init16) go through the engine's filterInitialState, which is
   now part of the template grammar of C16 (InitLine).  Everything gen_py consists of is text the engine writes. *)
Theorem C08_sem_engine_full : forall tt structs protos msgs m dict,
  tt_model tt structs protos msgs = Some m -> dict_ok dict = true -> wf_table (table_of tt) = true -> forall evs gv,
  exists L0 L prog,
    engine16 m dict py_init16 = Some (concat_lines (map tab4 L0))
    /\ engine16 m dict py_proc16 = Some (concat_lines (map tab4 L))
    /\ reads_all "X" (L0 ++ L) (gen_py (table_of tt)) = true
    /\ parse_indent (gen_py (table_of tt)) = Some prog
    /\ run_py prog evs gv = Some (table_interp (table_of tt) evs gv).
Proof. exact py_sem_engine_full. Qed.
Print Assumptions C08_sem_engine_full.

Theorem C08_init_reads : forall (t : table) structs protos msgs,
  reads_all "X" (flat_map (ref_item16 (elements_of t structs protos msgs)) py_init16) (gen_init t) = true.
Proof. exact py_init_reads. Qed.
Print Assumptions C08_init_reads.

Example C08_init_is_shipped : py_init16_opt = Some py_init16 /\ List.length py_init16 = 3.
Proof. split; vm_compute; reflexivity. Qed.
Print Assumptions C08_init_is_shipped.

(* THE WHOLE FILE.  The shipped TEMPLATEStateMachine.py as a whole lies in the template grammar of C16: text, the <<<TTT_BOOST_SML>>> line, per-state
   blocks, the user-tag line, the <<<STATE_0>>> lines, the per-event block of the Trigger methods with <<<SIGNATURE>>>, the two transition blocks.
   The signature strings (smgen.get_event_signature = LanguagePython.ParameterString(GetFactoryCreateParams(...)), without / with defaults) are an
   INTERFACE ORACLE: a parameter [sigs] of the model and of the theorem (event name -> the two strings), supplied per case by the harness from the
   real Language objects; the tag logic and the paren-cleanup regex around them are modelled and proved (Props/C16.v: C16_ev_block_is_ref).
   For every table, interface, oracle and assignment of user tags admitted for the file (py_file_wf, computed per case): what smgen.Generate's
   pipeline writes from the WHOLE file is Lpre ++ L, where L (the expansion of the file's last eight items) reads line by line as the process part of
   gen_py and the items 34 / 40 / 41 (def __init__ and the two <<<STATE_0>>> lines) expand to lines reading as its constructor part; gen_py parses
   and executes the table.  That the real engine produces the process region inside the whole real file is no longer only observed. *)
Theorem C08_sem_engine_whole : forall (tt : list EngineSM.row) (structs protos msgs : list string) (m : smodel)
                                      (sigs : list (string * (string * string))) (a : Engine.usertags),
  tt_model tt structs protos msgs = Some m -> py_file_wf tt structs protos msgs sigs a = true -> wf_table (table_of tt) = true -> forall evs gv,
  exists Lpre L L0 prog,
    EngineSM.generate_file (with_sigs sigs m) Parse16.dict0 a py_file = Some (concat_lines (map tab4 (Lpre ++ L)))
    /\ reads_all "X" L (gen_proc (table_of tt)) = true
    /\ L0 = flat_map (ref_item16 (py_elements tt structs protos msgs sigs a))
                     (flat_map (fun k => match nth_error py_file16 k with Some it => [it] | None => [] end) [34; 40; 41])
    /\ reads_all "X" L0 (gen_init (table_of tt)) = true
    /\ gen_py (table_of tt) = (gen_init (table_of tt) ++ gen_proc (table_of tt))%list
    /\ parse_indent (gen_py (table_of tt)) = Some prog
    /\ run_py prog evs gv = Some (table_interp (table_of tt) evs gv).
Proof. exact py_sem_engine_whole. Qed.
Print Assumptions C08_sem_engine_whole.

Example C08_whole_file_is_shipped :
  py_file16_opt = Some py_file16 /\ skipn 79 py_file16 = py_proc16 /\ map (nth_error py_file16) [34; 40; 41] = map Some py_init16 /\ List.length py_file16 = 87.
Proof. split; [|split; [|split]]; vm_compute; reflexivity. Qed.
Print Assumptions C08_whole_file_is_shipped.

(* the reading alone, at the level of the reference expansion: every table (well-formed or not), every interface *)
Theorem C08_ref_reads : forall (t : table) structs protos msgs,
  reads_all "X" (flat_map (ref_item16 (elements_of t structs protos msgs)) py_proc16) (gen_proc t) = true.
Proof. exact py_ref_reads_b. Qed.
Print Assumptions C08_ref_reads.

(* the region is the shipped text: it parses into the syntax, renders back to the shipped lines, lies in the grammar *)
Example C08_region_is_shipped : py_proc16_opt = Some py_proc16 /\ Nat.ltb 20 (List.length py_proc_lines) = true.
Proof. split; vm_compute; reflexivity. Qed.
Print Assumptions C08_region_is_shipped.

(* well-formed tables need no side condition: their names are admitted by the engine theorem *)
Theorem C08_wf_table_admitted : forall (t : table), forallb row_ok t = true -> tps_wf (tps_of t) = true.
Proof. exact tps_wf_table. Qed.
Print Assumptions C08_wf_table_admitted.

(* "For each triggered event": the same, with the machine driven through Trigger<Event> in non-threaded mode
   (StateMachineThread = 0).  What Trigger does is read from the synchronisation IR that translator/pysync.py extracts
   from the template's PER_EVENT block (Gen/PySync.v, the IR property C11 uses for the threaded mode): with the private
   flag runThreaded false it calls self.process(event) synchronously exactly once and touches neither queue nor thread. *)
Theorem C08_sem_triggered : forall t, wf_table t = true -> py_names_ok t = true -> forall evs gv,
  exists prog, parse_indent (gen_py t) = Some prog /\ run_triggered prog evs gv = Some (table_interp t evs gv).
Proof. intros t H _. exact (py_sem_triggered t H). Qed.
Print Assumptions C08_sem_triggered.

Example C08_sem_triggered_nonvacuous : trigger_calls_unthreaded = Some 1.
Proof. vm_compute. reflexivity. Qed.
Print Assumptions C08_sem_triggered_nonvacuous.

(* The name domain.  The model abstracts identifiers, so the theorems above cannot see a table name that collides with a
   bare module-level name of the template (an event named Enum is re-bound by `from enum import Enum`).  The hypothesis
   py_names_ok excludes exactly the names that translator/pytmpl.py computes from the template NOW: the names bound by its
   import statements after the controller's star import (which the translator requires to be the FIRST import, so that a
   controller name can never replace a library name), the classes it defines, and every other bare name it loads.  This
   lemma pins that list; the check generates only tables inside the domain and probes every reserved name on the real code. *)
Theorem C08_name_domain :
  py_reserved_names = ["Enum"; "EventStartup"; "auto"; "queue"; "threading"; "unique"] /\
  py_reserved_suffixes = ["StateId"; "StateMachine"].
Proof. exact py_reserved_as_assumed. Qed.
Print Assumptions C08_name_domain.

(* The machine starts in the first row's start state after that state's entry callback (and nothing else). *)
Theorem C08_init : forall t, wf_table t = true -> forall gv,
  exists prog, parse_indent (gen_py t) = Some prog /\
    run_py prog [] gv = Some [([CEntry (first_state t) startup_event], first_state t)].
Proof. exact py_init_state. Qed.
Print Assumptions C08_init.

(* The block structure of the generated behaviour section is valid Python for EVERY table (no IndentationError),
   whatever mixture of guarded and unguarded rows a (state, event) pair has. *)
Theorem C08_block_structure : forall t, parse_indent (gen_py t) = Some (prog_of t).
Proof. exact parse_gen_py. Qed.
Print Assumptions C08_block_structure.

(* ... so the block structure of what the engine writes is valid Python: its lines read as a program that parses *)
Theorem C08_block_structure_engine : forall tt structs protos msgs m dict,
  tt_model tt structs protos msgs = Some m -> dict_ok dict = true -> wf_table (table_of tt) = true ->
  exists L, engine16 m dict py_proc16 = Some (concat_lines (map tab4 L)) /\ reads_all "X" L (gen_proc (table_of tt)) = true.
Proof. exact py_engine_reads. Qed.
Print Assumptions C08_block_structure_engine.

(* guarded row + unguarded fallback, unguarded row followed by a guarded one, a target-only state (SC),
   a row without target, all spellings of "absent", a repeated row, a self loop *)
Definition ex_table : table :=
  [mkRow "SA" "EvX" "SB" "OnA" "GuardG"; mkRow "SA" "EvX" "SC" "OnB" "None";
   mkRow "SB" "EvX" "SA" "OnA" ""; mkRow "SB" "EvX" "none" "OnB" "GuardG";
   mkRow "SB" "EvY" "SB" "NONE" "GuardH"; mkRow "SB" "EvY" "SB" "NONE" "GuardH"].

Example C08_sem_nonvacuous :
  wf_table ex_table = true /\ py_names_ok ex_table = true /\
  table_interp ex_table ["EvX"; "EvX"; "EvZ"; "EvX"; "EvX"] (fun n _ => Nat.even n) =
    [([CEntry "SA" "EventStartup"], "SA");
     ([CGuard "GuardG" "EvX"; CExit "SA" "EvX"; CAction "OnA" "EvX"; CEntry "SB" "EvX"], "SB");
     ([CExit "SB" "EvX"; CAction "OnA" "EvX"; CEntry "SA" "EvX"], "SA");
     ([CNoTrans "EvZ"], "SA");
     ([CGuard "GuardG" "EvX"; CExit "SA" "EvX"; CAction "OnB" "EvX"; CEntry "SC" "EvX"], "SC");
     ([CNoTrans "EvX"], "SC")].
Proof. vm_compute. repeat split; reflexivity. Qed.
Print Assumptions C08_sem_nonvacuous.

Example C08_init_nonvacuous : wf_table ex_table = true /\ first_state ex_table = "SA".
Proof. vm_compute. split; reflexivity. Qed.
Print Assumptions C08_init_nonvacuous.

(* The template as it was before the `fix:` commits (guard line without alternative text): the same model
   reproduces the two block-structure defects that were observed on the real code.  (The third one, silence in a
   target-only state, was a property of transitionsperstate, which now lists target-only states: corpus/C08.) *)
Definition old_template : list tline :=
  (py_init ++
   [(4, KDefProcess); (8, KSkip); (8, KBegin 1); (8, KIfState); (12, KCallState); (12, KReturn); (8, KEnd 1); (0, KSkip);
    (4, KBegin 1); (4, KDefProcessState); (8, KBegin 2); (8, KIfEvent); (12, KBegin 3); (12, KIfGuard false);
    (16, KExit); (16, KAction); (16, KEntry); (16, KSetState); (16, KReturn); (12, KEnd 3); (8, KEnd 2); (8, KSkip);
    (8, KNoTrans); (0, KSkip); (4, KEnd 1); (4, KSkip)])%list.

Example C08_old_template_refuted :
  (* unguarded row followed by a guarded row: IndentationError *)
  parse_indent (gen_from old_template [mkRow "SA" "EvX" "SB" "OnA" "None"; mkRow "SA" "EvX" "SA" "OnB" "GuardG"]) = None /\
  (* guarded row + fallback: the fallback never fires *)
  (let t := [mkRow "SA" "EvX" "SB" "OnA" "GuardG"; mkRow "SA" "EvX" "SB" "OnB" "None"] in
   match parse_indent (gen_from old_template t) with
   | Some p => run_py p ["EvX"; "EvX"] (fun _ _ => false)
   | None => None
   end = Some [([CEntry "SA" "EventStartup"], "SA"); ([CGuard "GuardG" "EvX"; CNoTrans "EvX"], "SA"); ([CGuard "GuardG" "EvX"; CNoTrans "EvX"], "SA")]).
Proof. vm_compute. repeat split; reflexivity. Qed.
Print Assumptions C08_old_template_refuted.
