(* Model of the C# back end of the UML class generator (kojen/umlgen.py with kojen/LanguageCsharp.py) over the abstract class
   diagram of Model/Uml.v.

   Modelled: the same per-kind template selection and file naming as for C++ (CUMLGenerator is shared; the template directory is
   classdiagram_templates/C#: one .cs template per kind), the project file(s) written after the classes (the "Project" template:
   one per namespace when namespace folders are requested, else one named after the diagram), LanguageCsharp.GetOperationPerVisibility:
   the SAME recursion through realised pure-virtual interfaces as LanguageCPP's (Uml.ops_of) on the C# view of the diagram --
   constness is no part of a C# method: GetOperationSignature has no constness and DeclareFunction is called with is_const=False --
   and the text of an emitted operation (visibility word, DeclareFunction, the keyword  virtual  becoming  override  in realised
   operations, a body for everything but the own operations of an interface).  The nested namespace text is the shared
   _getFormatNestedNamespaceBegin/End (Uml.ns_begin / ns_end).
   The abstract diagram is the one LanguageCsharp's own helpers render (parameter types with their ref / out prefix instead of
   const): harness/umlsynth.abstract with the C# language object.
   NOT modelled: attributes, getters / setters, constructors of const members, includes, comments, the content of the project file.
   No proofs here. *)
From Coq Require Import String Ascii List Bool Arith.
From KV Require Import Lib.Str Lib.ODict Model.Vpp Gen.UmlSrc Model.Uml.
Import ListNotations.
Open Scope string_scope.

(* ---------------------------------------------------------------- the C# view: no constness *)

Definition cs_oper (o : oper) : oper :=
  {| o_name := o_name o; o_vis := o_vis o; o_ret := o_ret o; o_params := o_params o; o_virtual := o_virtual o; o_static := o_static o;
     o_const := false |}.
Definition cs_cls (c : cls) : cls :=
  {| c_id := c_id c; c_name := c_name c; c_ns := c_ns c; c_enum := c_enum c; c_struct := c_struct c; c_autogen := c_autogen c;
     c_pure := c_pure c; c_ops := map cs_oper (c_ops c) |}.
Definition cs_view (d : cdiagram) : cdiagram := {| classes := map cs_cls (classes d); inhs := inhs d |}.

(* LanguageCsharp.GetOperationPerVisibility(classObj, _, visibility) *)
Definition ops_of_cs (fuel : nat) (d : cdiagram) (vis : string) (c : cls) : option (list entry) :=
  ops_of fuel (cs_view d) vis "" [] (cs_cls c).

(* the members of the generated type: the three visibility sections of ClassTemplate.cs / InterfaceTemplate.cs, in template order *)
Definition members_cs (fuel : nat) (d : cdiagram) (c : cls) : option (list entry) := decls_of fuel (cs_view d) (cs_cls c).
(* ... and what one call with visibility 'all' emits (no template uses it; the C# reading of 'every operation once') *)
Definition all_cs (fuel : nat) (d : cdiagram) (c : cls) : option (list entry) := defs_of fuel (cs_view d) (cs_cls c).

(* ---------------------------------------------------------------- the text of one emitted operation *)

(* is_impl = not classObj.PURE_VIRTUAL_INTERFACE: the operations of an interface (also when they are realised) carry their
   default values; a body follows unless it is an interface's own operation *)
Definition cs_has_body (e : entry) : bool := negb (en_owner_pure e) || en_realised e.

Definition cs_head (e : entry) : string :=
  let o := en_op e in
  let body := ret_of e ++ " " ++ o_name o ++ "(" ++ param_string (en_owner_pure e) (o_params o) ++ ")" in
  let decl := lstrip (if o_virtual o && negb (o_static o) then "virtual " ++ body else (if o_static o then "static " else "") ++ body) in
  (* once a realising class is known the KEYWORD virtual becomes override (only the keyword: K-C19-8 repaired) *)
  lower (o_vis o) ++ " "
  ++ (if en_realised e && prefixb "virtual " decl then "override " ++ substring 8 (String.length decl - 8) decl else decl).

Definition cs_line (e : entry) : string := cs_head e ++ (if cs_has_body e then "" else ";").

(* ---------------------------------------------------------------- files *)

(* CGenerator.loadtemplates_firstfiltering(..., filter): the template files whose lower-cased name contains the lower-cased filter *)
Definition templates_by (flt : string) (tf : list string) : list string :=
  filter (fun f => contains (lower flt) (lower f) && negb (contains ".removed" (lower f))) tf.

(* keys of GetNamespaceDependencies(): the namespaces of the classes, each once, in order of first occurrence *)
Fixpoint first_occ (l : list string) (seen : list string) : list string :=
  match l with
  | [] => []
  | x :: r => if existsb (String.eqb x) seen then first_occ r seen else x :: first_occ r (x :: seen)
  end.

Definition project_names (nsf : bool) (dname : string) (d : cdiagram) : list string :=
  if nsf then first_occ (map c_ns (classes d)) [] else [if String.eqb dname "" then "Project" else dname].

(* dict_to_replace_filenames["Project"] = namespace; update_filename_path_from_namespace(namespace, ...) *)
Definition project_files (tf : list string) (nsf : bool) (dname : string) (d : cdiagram) : list string :=
  flat_map (fun ns => map (fun t => placed nsf ns (replace_all "Project" ns t)) (templates_by "Project" tf)) (project_names nsf dname d).

(* the whole code model: the files of the classes, then the project files (a later file of the same name replaces the earlier
   one); project files are tagged with the empty class id *)
Definition files_all (tf : list string) (nsf : bool) (dname : string) (d : cdiagram) : list (string * string) :=
  fold_left (fun acc f => upsert String.eqb f "" acc) (project_files tf nsf dname d) (files_of tf nsf d).
