(* C12 -- what kojentypes.py / LanguageCPP.py / smgen.py emit for a protocol Interface.

   Input (kojentypes): an Interface is ONE ordered dict name -> object holding the protocol header 'sMsgHeader'
   (always first), Struct objects and Message objects in registration order.  A Struct/Message is an ordered dict
   member name -> (type string | Struct OBJECT) plus a dict of defaults.  A nested struct is the OBJECT, not a
   name: Decompose() unfolds it recursively, so the model carries it as a tree.  The harness abstracts the real
   objects to this form (harness/layoutgen.py: abstract_iface) and refuses everything else (type strings outside
   basetypes' eleven names, Message objects used as members, non-integer ids).

   Modelled functions (the same names, the same branch order):
     Language.HasDefault, Struct/Message.Decompose (implicit: the tree IS the decomposition),
     LanguageCPP.DeclareStructMembers(attr_packed=True), GetFactoryCreateParams(with_defaults=True) incl.
     _processDefaults, InstantiateStructWithAggregateInitializer, and the order in which TEMPLATE.h/Protocol.h
     place the declarations (Protocol.h is included first; PER_STRUCT block, then PER_MSG block). *)
From Coq Require Import String Ascii List Bool NArith ZArith.
From KV Require Import Model.CValue Model.Layout.
Import ListNotations.
Open Scope string_scope.

Inductive member :=
| MPrim (name : string) (p : prim) (dflt : option string)          (* AddType(name, type, default) *)
| MStruct (name : string) (sname : string) (ms : list member).    (* AddStruct(name, obj): obj.Name, obj's members *)

Record strct := { s_name : string; s_members : list member }.
Record msg := { m_name : string; m_id : Z; m_members : list member }.   (* without the Header entry *)
Record iface := { i_preamble : Z; i_structs : list strct; i_msgs : list msg }.

Definition hdr_name : string := "sMsgHeader".
Definition hdr_member : string := "Header".

(* the keys of the Interface dict (order is irrelevant for `in`) *)
Definition keys (i : iface) : list string :=
  hdr_name :: map s_name (i_structs i) ++ map m_name (i_msgs i).

Definition in_keys (i : iface) (n : string) : bool := existsb (String.eqb n) (keys i).

(* mem[0], mem[1] of a Decompose() tuple *)
Definition mem_ty (m : member) : string :=
  match m with MPrim _ p _ => prim_name p | MStruct _ sn _ => sn end.
Definition mem_name (m : member) : string :=
  match m with MPrim n _ _ => n | MStruct n _ _ => n end.

(* Language.HasDefault: len(t) >= 3 and t[2]  (truthiness: a non-empty string / a non-empty nested list) *)
Definition has_default (m : member) : bool :=
  match m with
  | MPrim _ _ (Some d) => negb (String.eqb d "")
  | MPrim _ _ None => false
  | MStruct _ _ ms => match ms with [] => false | _ => true end
  end.

(* GetFactoryCreateParams._processDefaults applied to mem[2] of a member that HasDefault *)
Fixpoint process_defaults (m : member) : init :=
  match m with
  | MPrim _ _ (Some d) => ILit d
  | MPrim _ _ None => IList []
  | MStruct _ _ ms => IList (map (fun x => if has_default x then process_defaults x else IList []) ms)
  end.

(* ---- DeclareStructMembers(struct, interface, ws, attr_packed=True) *)
Definition declare_member (i : iface) (m : member) : cmember :=
  {| cm_ty := mem_ty m; cm_name := mem_name m; cm_packed := negb (in_keys i (mem_ty m)) |}.

(* MessageHeader.__init__ : Preamble uint16, TypeID uint16, PayloadSize uint32 *)
Definition hdr_fields : list (string * prim) := [("Preamble", U16); ("TypeID", U16); ("PayloadSize", U32)].

Definition hdr_decl (i : iface) : cstruct :=
  {| cs_name := hdr_name;
     cs_members := map (fun f => declare_member i (MPrim (fst f) (snd f) None)) hdr_fields |}.

Definition struct_decl (i : iface) (s : strct) : cstruct :=
  {| cs_name := s_name s; cs_members := map (declare_member i) (s_members s) |}.

(* Message.Decompose puts ('sMsgHeader', 'Header') first; 'sMsgHeader' is a key of the interface -> unpacked *)
Definition msg_decl (i : iface) (m : msg) : cstruct :=
  {| cs_name := m_name m;
     cs_members := {| cm_ty := hdr_name; cm_name := hdr_member; cm_packed := negb (in_keys i hdr_name) |}
                   :: map (declare_member i) (m_members m) |}.

(* ---- GetFactoryCreateParams(struct, interface, with_defaults=True); the header member is skipped *)
Definition factory_param (i : iface) (m : member) : cparam :=
  {| cp_ty := mem_ty m;
     cp_ref := match m with MStruct _ _ _ => true | MPrim _ _ _ => false end;
     cp_name := mem_name m;
     cp_default := if has_default m then Some (process_defaults m)
                   else if in_keys i (mem_ty m) then None else Some (IList []) |}.

(* ---- InstantiateStructWithAggregateInitializer *)
Fixpoint dec_digits (fuel : nat) (n : N) (acc : string) : string :=
  match fuel with
  | O => acc
  | S f => let acc' := String (ascii_of_N (48 + n mod 10)) acc in
           if (n / 10 =? 0)%N then acc' else dec_digits f (n / 10)%N acc'
  end.
(* str(int) *)
Definition dec_of_Z (z : Z) : string :=
  let n := Z.abs_N z in
  let d := dec_digits (S (N.to_nat (N.log2 n))) n "" in
  if (z <? 0)%Z then String "-"%char d else d.

Definition hdr_init (i : iface) (m : msg) : init :=
  IList [ILit (dec_of_Z (i_preamble i)); ILit (dec_of_Z (m_id m)); ISizeDiff (m_name m) hdr_name].

Definition struct_factory (i : iface) (s : strct) : cfactory :=
  {| cf_ret := s_name s; cf_name := "Create" ++ s_name s;
     cf_params := map (factory_param i) (s_members s);
     cf_body := IList (map (fun m => IVar (mem_name m)) (s_members s)) |}.

Definition msg_factory (i : iface) (m : msg) : cfactory :=
  {| cf_ret := m_name m; cf_name := "Create" ++ m_name m;
     cf_params := map (factory_param i) (m_members m);
     cf_body := IList (hdr_init i m :: map (fun x => IVar (mem_name x)) (m_members m)) |}.

(* ---- the generated program: Protocol.h (header struct), then TEMPLATE.h: structs, messages, factories *)
Definition emit (i : iface) : cprog :=
  {| cg_decls := hdr_decl i :: map (struct_decl i) (i_structs i) ++ map (msg_decl i) (i_msgs i);
     cg_factories := map (struct_factory i) (i_structs i) ++ map (msg_factory i) (i_msgs i) |}.

(* ---------------------------------------------------------------- rendering (compared with the real text) *)
(* LanguageCPP._processDefaults / the return statement, as text *)
Fixpoint render_init (x : init) : string :=
  match x with
  | ILit s => s
  | IVar v => v
  | ISizeDiff a b => "sizeof(" ++ a ++ ") - sizeof(" ++ b ++ ")"
  | IList l =>
      "{" ++ (fix go (l : list init) : string :=
                match l with
                | [] => ""
                | [y] => render_init y
                | y :: r => render_init y ++ "," ++ go r
                end) l ++ "}"
  end.

(* ---------------------------------------------------------------- input domain (boolean, evaluated on every case) *)
Fixpoint member_eqb (a b : member) {struct a} : bool :=
  match a, b with
  | MPrim n p d, MPrim n' p' d' =>
      String.eqb n n' && prim_eqb p p' &&
      match d, d' with Some x, Some y => String.eqb x y | None, None => true | _, _ => false end
  | MStruct n sn ms, MStruct n' sn' ms' =>
      String.eqb n n' && String.eqb sn sn' &&
      (fix go (l l' : list member) {struct l} : bool :=
         match l, l' with
         | [], [] => true
         | x :: r, y :: r' => member_eqb x y && go r r'
         | _, _ => false
         end) ms ms'
  | _, _ => false
  end.

Fixpoint members_eqb (l l' : list member) : bool :=
  match l, l' with
  | [], [] => true
  | x :: r, y :: r' => member_eqb x y && members_eqb r r'
  | _, _ => false
  end.

Fixpoint nodupb (l : list string) : bool :=
  match l with
  | [] => true
  | x :: r => negb (existsb (String.eqb x) r) && nodupb r
  end.

Fixpoint m_size (m : member) : N :=
  match m with
  | MPrim _ p _ => prim_size p
  | MStruct _ _ ms => fold_right N.add 0%N (map m_size ms)
  end.
Definition ms_size (ms : list member) : N := fold_right N.add 0%N (map m_size ms).

(* a top-level member: a primitive whose default (if any) is a literal of its type, or a struct object that is
   equal to a struct registered under its name (in reg) *)
Definition member_ok (reg : list (string * list member)) (m : member) : bool :=
  match m with
  | MPrim _ p (Some d) => String.eqb d "" || lit_ok p d
  | MPrim _ _ None => true
  | MStruct _ sn ms =>
      match lookup sn reg with Some ms' => members_eqb ms ms' | None => false end
  end.

Definition members_ok (reg : list (string * list member)) (ms : list member) : bool :=
  forallb (member_ok reg) ms && nodupb (map mem_name ms).

(* structs must be registered after the structs they contain (C++ needs the declaration first), and be non-empty *)
Fixpoint structs_ok (reg : list (string * list member)) (ss : list strct) : bool :=
  match ss with
  | [] => true
  | s :: r =>
      match s_members s with [] => false | _ => true end
      && members_ok reg (s_members s)
      && structs_ok (reg ++ [(s_name s, s_members s)]) r
  end.

Definition registry (i : iface) : list (string * list member) :=
  map (fun s => (s_name s, s_members s)) (i_structs i).

Definition fits16 (z : Z) : bool := (0 <=? z)%Z && (z <=? 65535)%Z.

Definition msg_ok (i : iface) (m : msg) : bool :=
  fits16 (m_id m)
  && members_ok (registry i) (m_members m)
  && negb (existsb (String.eqb hdr_member) (map mem_name (m_members m)))
  && (ms_size (m_members m) <? 4294967296)%N.

Fixpoint nodupZ (l : list Z) : bool :=
  match l with
  | [] => true
  | x :: r => negb (existsb (Z.eqb x) r) && nodupZ r
  end.

Definition wf_iface (i : iface) : bool :=
  fits16 (i_preamble i)
  && nodupb (keys i)
  && forallb (fun n => match prim_of_name n with Some _ => false | None => true end) (keys i)
  && structs_ok [] (i_structs i)
  && forallb (msg_ok i) (i_msgs i)
  && nodupZ (map m_id (i_msgs i)).
