(* The text of the boost::sml table items of Model/SmlTT.v: what one row / one hook row of the emitted transition table looks
   like, with the column widths smgen pads to (the longest present start state / event / guard / action of the table).
   sml_text ws ee t is the whole printed table: the comment header line and one line per item of gen_sml ee t.
   No proofs in this file. *)
From Coq Require Import String Ascii List Bool Arith.
From KV Require Import Lib.Str Lib.StrOps Lib.TableDef Gen.SmlTmpl Model.TTable Model.SmlTT Model.Engine Model.EngineSM.
Import ListNotations.
Open Scope string_scope.

Definition width (f : TableDef.row -> string) (t : table) : nat :=
  fold_left (fun acc r => if is_none (f r) then acc else Nat.max acc (String.length (f r))) t 0.

Definition header_text (ws : string) (t : table) : string :=
  ws ++ "// " ++ even_space "Start" (width r_src t + 8) ++ even_space "+Event" (width r_ev t + 10)
     ++ even_space "[ Guard ]" (width TableDef.r_guard t + 6) ++ even_space "/ Action" (width r_act t + 4) ++ even_space " = Next" 0 ++ nl_str.

Definition smlrow_text (ws : string) (t : table) (r : smlrow) : string :=
  rstrip_ws ((if q_init r then ws ++ " *" else ws ++ ", ")
    ++ even_space ("state<" ++ q_src r ++ ">") (width r_src t + 9) ++ "+"
    ++ even_space ("event<" ++ q_ev r ++ ">") (width r_ev t + 9) ++ " "
    ++ even_space ("[" ++ q_guard r ++ "]") (width TableDef.r_guard t + 4) ++ " / "
    ++ even_space (q_act r) (width r_act t + 2)
    ++ match q_target r with Some tg => " = " ++ even_space ("state<" ++ tg ++ ">") 0 | None => "" end) ++ nl_str.

Definition item_text (ws : string) (t : table) (i : smlitem) : string :=
  match i with
  | IRow r => smlrow_text ws t r
  | IEntry s a => ws ++ ", state<" ++ s ++ "> + boost::sml::on_entry<_> / " ++ a ++ nl_str
  | IExit s a => ws ++ ", state<" ++ s ++ "> + boost::sml::on_exit<_> / " ++ a ++ nl_str
  end.

Definition sml_text (ws : string) (ee : bool) (t : table) : string :=
  match t with
  | [] => ""
  | _ => header_text ws t ++ String.concat "" (map (item_text ws t) (gen_sml ee t))
  end.
