(* The output stage as an OPERATION SEQUENCE over a file-system model, with crash semantics (C05).

   cgen.CGenerator.createoutput (after the repair: write '<file>.kojen-tmp', then os.replace) and cgen.FileCopyUtil
   are both instances of [job_ops]: a list of jobs (target path, chunks to write).

   File system: what is persistent (survives the death of the process).  A process additionally holds, per open file,
   a user-space buffer that is flushed on close; a killed process loses its buffers.  No proofs in this file. *)
From Coq Require Import String Ascii List Bool.
From KV Require Import Lib.Str Lib.ODict Model.Preserve Gen.Tags.
Import ListNotations.
Open Scope string_scope.

Inductive op :=
| Mkdirs (d : string)                     (* os.makedirs(d, exist_ok=True): creates directories only *)
| OpenTrunc (p : string)                  (* open(p, 'w'): creates or truncates p *)
| WriteBuf (p : string) (data : string)   (* writer.write(data): appended to the user-space buffer of p *)
| CloseFlush (p : string)                 (* leaving the with block: flush + close *)
| Rename (src dst : string)               (* os.replace(src, dst): atomic *)
| Remove (p : string).                    (* os.remove(p) *)

Definition fsys := list (string * string).

Fixpoint fs_get (p : string) (fs : fsys) : option string :=
  match fs with
  | [] => None
  | (q, c) :: r => if String.eqb p q then Some c else fs_get p r
  end.

Fixpoint fs_del (p : string) (fs : fsys) : fsys :=
  match fs with
  | [] => []
  | (q, c) :: r => if String.eqb p q then fs_del p r else (q, c) :: fs_del p r
  end.

Definition fs_set (p c : string) (fs : fsys) : fsys := (p, c) :: fs_del p fs.

Record pstate := mkP { disk_fs : fsys; bufs : fsys }.

Definition step (s : pstate) (o : op) : pstate :=
  match o with
  | Mkdirs _ => s
  | OpenTrunc p => mkP (fs_set p "" (disk_fs s)) (fs_set p "" (bufs s))
  | WriteBuf p d => mkP (disk_fs s)
                        (fs_set p ((match fs_get p (bufs s) with Some b => b | None => "" end) ++ d) (bufs s))
  | CloseFlush p => mkP (fs_set p ((match fs_get p (disk_fs s) with Some c => c | None => "" end) ++
                                   (match fs_get p (bufs s) with Some b => b | None => "" end)) (disk_fs s))
                        (fs_del p (bufs s))
  | Rename a b => match fs_get a (disk_fs s) with
                  | Some c => mkP (fs_set b c (fs_del a (disk_fs s))) (bufs s)
                  | None => s
                  end
  | Remove p => mkP (fs_del p (disk_fs s)) (bufs s)
  end.

Definition run (ops : list op) (s : pstate) : pstate := fold_left step ops s.

(* a job: write [chunks] to [target] *)
Definition tmp_of (target : string) : string := target ++ tmp_suffix.

Fixpoint dirname_aux (s acc cur : string) : string :=
  match s with
  | EmptyString => acc
  | String c r => if Ascii.eqb c (chr 47) then dirname_aux r (acc ++ cur) (String c EmptyString)
                  else dirname_aux r acc (cur ++ String c EmptyString)
  end.
(* os.path.dirname for the paths that occur here (text before the last '/') *)
Definition dirname (p : string) : string := dirname_aux p "" "".

Definition job_ops (job : string * list string) : list op :=
  let '(target, chunks) := job in
  [Mkdirs (dirname target); OpenTrunc (tmp_of target)]
  ++ map (WriteBuf (tmp_of target)) chunks
  ++ [CloseFlush (tmp_of target); Rename (tmp_of target) target].

Definition jobs_ops (jobs : list (string * list string)) : list op := flat_map job_ops jobs.

(* createoutput: one job per entry of the code model, in order *)
Definition createoutput_jobs (outdir : string) (m : cmodel) : list (string * list string) :=
  map (fun kv => (join outdir (fst kv), map tab4 (snd kv))) m.

Definition createoutput_ops (outdir : string) (m : cmodel) : list op := jobs_ops (createoutput_jobs outdir m).

(* FileCopyUtil(dir_from, dir_to, names): one job per file that exists in dir_from (content supplied by the environment) *)
Definition copy_jobs (dir_to : string) (files : list (string * string)) : list (string * list string) :=
  map (fun nc => (join dir_to (fst nc), [snd nc])) files.

(* the complete content a job gives its target *)
Definition job_content (job : string * list string) : string := concat_lines (snd job).

(* ---------------------------------------------------------------- interruption *)
(* the run is interrupted just before operation number k (k = length ops: not at all) *)
(* killed process: whatever is on disk stays, buffers are lost *)
Definition crash_kill (k : nat) (ops : list op) (s : pstate) : fsys := disk_fs (run (firstn k ops) s).

(* raised error at operation k: Python unwinds; the with block closes the open file (flushing what it can) and the
   except clause removes the temporary file; nothing else runs *)
Definition cur_tmp (k : nat) (ops : list op) : option string :=
  match nth_error ops k with
  | Some (OpenTrunc p) | Some (WriteBuf p _) | Some (CloseFlush p) | Some (Remove p) => Some p
  | Some (Rename a _) => Some a
  | _ => None
  end.

Definition crash_exn (k : nat) (ops : list op) (s : pstate) : fsys :=
  let s' := run (firstn k ops) s in
  match cur_tmp k ops with
  | Some t => fs_del t (disk_fs s')
  | None => disk_fs s'
  end.

(* path p ends with the temporary suffix *)
Fixpoint suffixb (suf s : string) : bool :=
  String.eqb s suf || match s with EmptyString => false | String _ r => suffixb suf r end.
Definition is_tmp (p : string) : bool := suffixb tmp_suffix p.

Definition targets (jobs : list (string * list string)) : list string := map fst jobs.

Fixpoint nodup_str (l : list string) : bool :=
  match l with [] => true | x :: r => negb (existsb (String.eqb x) r) && nodup_str r end.

(* well-formed job list: distinct targets, none of which looks like a temporary file *)
Definition jobs_okb (jobs : list (string * list string)) : bool :=
  nodup_str (targets jobs) && forallb (fun t => negb (is_tmp t)) (targets jobs).

(* rendering of an op for the trace correspondence *)
Definition op_render (o : op) : string * (string * string) :=
  match o with
  | Mkdirs d => ("mkdirs", (d, ""))
  | OpenTrunc p => ("open", (p, ""))
  | WriteBuf p d => ("write", (p, d))
  | CloseFlush p => ("close", (p, ""))
  | Rename a b => ("rename", (a, b))
  | Remove p => ("remove", (p, ""))
  end.

(* ---------------------------------------------------------------- FileSync as operations (C18: what is written, and where) *)
(* cgen.FilePreservationSyncUtil(file_from = A, file_to = B): B's new lines are written verbatim to B's temporary sibling
   and renamed over B; a LostCode pseudo-file (A's non-empty tags that B does not have) goes through createoutput with the
   output directory dirname(B).  Nothing else is written. *)
Definition filesync_jobs (path_b a b : string) : list (string * list string) :=
  let tg := collect (read_lines a) in
  let '(out, used) := emplace true tg (read_lines b) in
  let lost := PreserveCore.lost_code String.eqb nl nl (nl (basename path_b)) (nl lost_sep) used tg in
  (path_b, out) ::
  match lost with
  | [] => []
  | _ => createoutput_jobs (dirname path_b) [((path_b ++ lost_suffix)%string, lost)]
  end.

Definition filesync_ops (path_b a b : string) : list op :=
  match filesync_jobs path_b a b with
  | jb :: rest => tl (job_ops jb) ++ jobs_ops rest      (* no makedirs for B itself *)
  | [] => []
  end.
