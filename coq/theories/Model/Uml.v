(* Model of the UML class generator (kojen/umlgen.py, kojen/LanguageCPP.py) over an abstract class diagram.

   Modelled: the per-kind template selection of CUMLGenerator.loadtemplates_firstfiltering (class / interface / enum /
   struct / nothing), the output file names (template file name through the ordered replacement dictionary),
   update_filename_path_from_namespace, the dictionary semantics of the code model (a later file of the same name
   replaces the earlier one), _getFormatNestedNamespaceBegin/End, and LanguageCPP.GetOperationPerVisibility: the
   recursion through realised pure-virtual interfaces (on fuel; exhausted fuel = Python RecursionError = None), the
   visibility filter, DeclareFunction for the declaration and the implementation side, ParameterString.
   NOT modelled (input adaptor in the harness, run through kojen's own helpers): the blob parser, the rendering of a
   parameter's type/name/default from multiplicity and modifier, comments, includes, attributes, getters/setters.
   No proofs here. *)
From Coq Require Import String Ascii List Bool Arith.
From KV Require Import Lib.Str Lib.ODict Model.Vpp Gen.UmlSrc.
Import ListNotations.
Open Scope string_scope.

(* ---------------------------------------------------------------- strings *)

(* s.replace(p, q), p non-empty *)
Fixpoint repl_from (p q : string) (skip : nat) (s : string) : string :=
  match s with
  | EmptyString => ""
  | String c r =>
      match skip with
      | S k => repl_from p q k r
      | O => if prefixb p s then q ++ repl_from p q (String.length p - 1) r else String c (repl_from p q 0 r)
      end
  end.
Definition replace_all (p q s : string) : string := match p with EmptyString => s | _ => repl_from p q 0 s end.

(* s.split("::") *)
Fixpoint split2 (a b : ascii) (s : string) : list string :=
  match s with
  | EmptyString => [""]
  | String x r =>
      match r with
      | String y r' =>
          if Ascii.eqb x a && Ascii.eqb y b then "" :: split2 a b r'
          else match split2 a b r with h :: t => String x h :: t | [] => [String x ""] end
      | EmptyString => [String x ""]
      end
  end.

Definition lower_char (c : ascii) : ascii :=
  let n := nat_of_ascii c in if Nat.leb 65 n && Nat.leb n 90 then ascii_of_nat (n + 32) else c.
Fixpoint lower (s : string) : string := match s with EmptyString => "" | String c r => String (lower_char c) (lower r) end.

Fixpoint join (sep : string) (l : list string) : string :=
  match l with [] => "" | [x] => x | x :: r => x ++ sep ++ join sep r end.

(* ---------------------------------------------------------------- the abstract class diagram *)

Record param := { p_type : string; p_name : string; p_default : string; p_ext : string }.
(* p_default: "" or the formatted " = v";  p_ext: the array extent of the rendered name ("" or "[4]") *)
Record oper := { o_name : string; o_vis : string; o_ret : string; o_params : list param;
                 o_virtual : bool; o_static : bool; o_const : bool }.
Record cls := { c_id : string; c_name : string; c_ns : string;
                c_enum : bool; c_struct : bool; c_autogen : bool; c_pure : bool; c_ops : list oper }.
Record inh := { i_to : string; i_from : string; i_real : bool }.          (* CLASS_TO_ID inherits CLASS_FROM_ID *)
Record cdiagram := { classes : list cls; inhs : list inh }.                (* both in dictionary order *)

Fixpoint find_class (cs : list cls) (id : string) : option cls :=
  match cs with [] => None | c :: r => if String.eqb (c_id c) id then Some c else find_class r id end.

(* ---------------------------------------------------------------- files *)

Inductive kind := KClass | KInterface | KEnum | KStruct | KNone.

(* the if / elif chain of loadtemplates_firstfiltering *)
Definition kind_of (c : cls) : kind :=
  if negb (c_enum c) && negb (c_struct c) && negb (c_autogen c) && negb (c_pure c) then KClass
  else if negb (c_enum c) && negb (c_struct c) && negb (c_autogen c) && c_pure c then KInterface
  else if c_enum c && negb (c_struct c) then KEnum
  else if negb (c_enum c) && c_struct c then KStruct
  else KNone.

Definition kind_index (k : kind) : nat := match k with KClass => 0 | KInterface => 1 | KEnum => 2 | KStruct => 3 | KNone => 4 end.

(* templates of a kind: the files of the template directory whose lower-cased name contains the lower-cased filter
   and not ".removed" *)
Definition templates_of (tf : list string) (k : kind) : list string :=
  match nth_error kind_filters (kind_index k) with
  | Some flt => filter (fun f => contains (lower flt) (lower f) && negb (contains ".removed" (lower f))) tf
  | None => []
  end.

(* file_without_path.replace(tag, text) for every entry of dict_to_replace_filenames, in order;
   the first entry's text is the class name *)
Definition out_name (k : kind) (name tmpl : string) : string :=
  match nth_error filename_dicts (kind_index k) with
  | Some ((tag0, _) :: rest) => fold_left (fun s kv => replace_all (fst kv) (snd kv) s) rest (replace_all tag0 name tmpl)
  | _ => tmpl
  end.

Definition ns_path (ns : string) : string := replace_all "::" "/" ns.

(* os.path.join(a, b) on POSIX *)
Definition path_join (a b : string) : string :=
  match a with
  | EmptyString => b
  | _ => if prefixb "/" b then b
         else if String.eqb (substring (String.length a - 1) 1 a) "/" then a ++ b
         else a ++ "/" ++ b
  end.

(* update_filename_path_from_namespace *)
Definition placed (nsf : bool) (ns file : string) : string :=
  if nsf && negb (String.eqb (ns_path ns) "") then path_join (ns_path ns) file else file.

Definition class_files (tf : list string) (nsf : bool) (c : cls) : list string :=
  map (fun t => placed nsf (c_ns c) (out_name (kind_of c) (c_name c) t)) (templates_of tf (kind_of c)).

(* result.filenames_to_lines.update(...) class after class: the keys of the code model, tagged with the class that
   (last) wrote them *)
Definition files_of (tf : list string) (nsf : bool) (d : cdiagram) : list (string * string) :=
  fold_left (fun acc c => fold_left (fun acc f => upsert String.eqb f (c_id c) acc) (class_files tf nsf c) acc) (classes d) [].

Fixpoint lstrip_sp (s : string) : string :=
  match s with String c r => if Ascii.eqb c SP then lstrip_sp r else s | EmptyString => "" end.

(* _getFormatNestedNamespaceBegin / End (+ the trailing comment of GetFormatNestedNamespaceEnd) *)
Definition ns_begin (ns : string) : string :=
  lstrip_sp (String.concat "" (map (fun n => " namespace " ++ n ++ " { ") (split2 ":" ":" ns))).
Definition ns_end (ns : string) : string :=
  lstrip (String.concat "" (map (fun _ => " } ") (split2 ":" ":" ns))) ++ " // end namespace " ++ ns.

(* ---------------------------------------------------------------- operations *)

(* one emitted operation: the class name used in the definition (the realising class for realised operations),
   the operation and its owner's purity, whether it was reached through realisation *)
Record entry := { en_class : string; en_owner : string; en_owner_pure : bool; en_realised : bool; en_op : oper }.

Definition vis_match (vis : string) (o : oper) : bool :=
  String.eqb (lower (py_strip vis)) (lower (py_strip (o_vis o))) || String.eqb (lower (py_strip vis)) "all".

(* GetOperationSignature: what makes two operations the same member function *)
Definition sig_key (o : oper) : string * list string * bool :=
  (py_strip (o_name o), map (fun p => p_type p ++ p_ext p) (o_params o), o_const o).

Fixpoint strs_eqb (a b : list string) : bool :=
  match a, b with
  | [], [] => true
  | x :: a', y :: b' => String.eqb x y && strs_eqb a' b'
  | _, _ => false
  end.
Definition key_eqb (a b : string * list string * bool) : bool :=
  String.eqb (fst (fst a)) (fst (fst b)) && strs_eqb (snd (fst a)) (snd (fst b)) && Bool.eqb (snd a) (snd b).
Definition declared_of (c : cls) : list (string * list string * bool) := map sig_key (c_ops c).

(* `if REALIZING_CLASS and signature in DECLARED: continue` *)
Definition keep (realizing : string) (declared : list (string * list string * bool)) (o : oper) : bool :=
  String.eqb realizing "" || negb (existsb (key_eqb (sig_key o)) declared).

Definition own_entries (vis realizing : string) (declared : list (string * list string * bool)) (c : cls) : list entry :=
  map (fun o => {| en_class := if String.eqb realizing "" then c_name c else realizing; en_owner := c_name c;
                   en_owner_pure := c_pure c; en_realised := negb (String.eqb realizing ""); en_op := o |})
      (filter (fun o => keep realizing declared o && vis_match vis o) (c_ops c)).

Fixpoint collect {A} (l : list (option A)) : option (list A) :=
  match l with
  | [] => Some []
  | None :: _ => None
  | Some x :: r => match collect r with Some xs => Some (x :: xs) | None => None end
  end.

(* the classes whose operations are pulled in: inheritance entries whose CLASS_TO_ID mentions this class's id
   (substring test, as the code does) and that are realisations (or any kind once a realising class is known);
   classes[CLASS_FROM_ID] must exist (KeyError otherwise); only pure virtual interfaces are followed *)
Definition parents_of (d : cdiagram) (realizing : string) (c : cls) : option (list cls) :=
  match collect (map (fun i => find_class (classes d) (i_from i))
                     (filter (fun i => contains (c_id c) (i_to i) && (i_real i || negb (String.eqb realizing ""))) (inhs d))) with
  | Some ps => Some (filter c_pure ps)
  | None => None
  end.

(* [declared]: the signatures the realising class declares itself (recomputed at the top, where no class is realising yet) *)
Fixpoint ops_of (fuel : nat) (d : cdiagram) (vis realizing : string) (declared : list (string * list string * bool)) (c : cls)
  : option (list entry) :=
  match fuel with
  | O => None
  | S f =>
      let declared' := if String.eqb realizing "" then declared_of c else declared in
      match parents_of d realizing c with
      | None => None
      | Some ps =>
          match collect (map (ops_of f d vis (if String.eqb realizing "" then c_name c else realizing) declared') ps) with
          | None => None
          | Some rs => Some (List.concat rs ++ own_entries vis realizing declared' c)%list
          end
      end
  end.

(* header side: the three visibility sections; source side: "all" *)
Definition decls_of (fuel : nat) (d : cdiagram) (c : cls) : option (list entry) :=
  match ops_of fuel d "public" "" [] c, ops_of fuel d "protected" "" [] c, ops_of fuel d "private" "" [] c with
  | Some a, Some b, Some g => Some (a ++ b ++ g)%list
  | _, _, _ => None
  end.
Definition defs_of (fuel : nat) (d : cdiagram) (c : cls) : option (list entry) := ops_of fuel d "all" "" [] c.

(* ---------------------------------------------------------------- rendering (DeclareFunction, ParameterString) *)

Definition param_string (with_default : bool) (ps : list param) : string :=
  join ", " (map (fun p => p_type p ++ " " ++ p_name p ++ (if with_default then p_default p else "")) ps).

Definition is_ctor (e : entry) : bool := String.eqb (py_strip (o_name (en_op e))) (py_strip (en_owner e)).
Definition ret_of (e : entry) : string := if is_ctor e then "" else o_ret (en_op e).
Definition const_sfx (e : entry) : string := if o_const (en_op e) then " const" else "".

Definition decl_line (e : entry) : string :=
  let o := en_op e in
  let body := ret_of e ++ " " ++ o_name o ++ "(" ++ param_string true (o_params o) ++ ")" ++ const_sfx e in
  lstrip (if (en_owner_pure e || o_virtual o) && negb (o_static o) then "virtual " ++ body
          else (if o_static o then "static " else "") ++ body)
  ++ (if en_owner_pure e then (if en_realised e then " override" else " = 0") else "") ++ ";".

Definition def_head (e : entry) : string :=
  let o := en_op e in
  lstrip (if String.eqb (remove_char SP (en_class e)) ""
          then ret_of e ++ " " ++ o_name o ++ "(" ++ param_string false (o_params o) ++ ")" ++ const_sfx e
          else ret_of e ++ " " ++ en_class e ++ "::" ++ o_name o ++ "(" ++ param_string false (o_params o) ++ ")" ++ const_sfx e).

(* what "the same signature" means: defining class, return type, name, parameter types and names, constness *)
Definition signature (e : entry) : string * string * string * list (string * string) * bool :=
  (en_class e, ret_of e, o_name (en_op e), map (fun p => (p_type p, p_name p)) (o_params (en_op e)), o_const (en_op e)).

(* ---------------------------------------------------------------- input domain (boolean, extracted) *)

(* the classes GetOperationPerVisibility may descend into from c, whatever the realisation flags are *)
Definition edge_parents (d : cdiagram) (c : cls) : list cls :=
  filter c_pure (flat_map (fun i => match find_class (classes d) (i_from i) with Some p => [p] | None => [] end)
                          (filter (fun i => contains (c_id c) (i_to i)) (inhs d))).

(* every chain of such edges that starts at c has at most n classes *)
Fixpoint bounded (n : nat) (d : cdiagram) (c : cls) : bool :=
  match n with O => false | S m => forallb (bounded m d) (edge_parents d c) end.

(* no realisation / generalisation cycle among pure virtual interfaces is reachable from a class of the diagram:
   in a diagram of N classes a chain of more than N classes repeats one *)
Definition acyclic (d : cdiagram) : bool := forallb (bounded (List.length (classes d)) d) (classes d).

(* no inheritance entry points to a class that is not in the diagram *)
Definition closed (d : cdiagram) : bool :=
  forallb (fun i => match find_class (classes d) (i_from i) with Some _ => true | None => false end) (inhs d).

Definition vis3 (o : oper) : bool :=
  existsb (String.eqb (lower (py_strip (o_vis o)))) ["public"; "protected"; "private"].
Definition wf_vis (d : cdiagram) : bool := forallb (fun c => forallb vis3 (c_ops c)) (classes d).

Definition name_ok (c : cls) : bool := no_char "." (c_name c) && no_char "/" (c_name c) && negb (String.eqb (c_name c) "").
Definition generated (c : cls) : bool := match kind_of c with KNone => false | _ => true end.

(* ---------------------------------------------------------------- every operation once *)

(* the classes GetOperationPerVisibility visits from c, in the order their operations are emitted, WITH multiplicity: an
   interface reached through two realisation paths occurs twice (and its operations are emitted twice: K-C19-1b) *)
Fixpoint visited (fuel : nat) (d : cdiagram) (realizing : string) (c : cls) : option (list cls) :=
  match fuel with
  | O => None
  | S f =>
      match parents_of d realizing c with
      | None => None
      | Some ps =>
          match collect (map (visited f d (if String.eqb realizing "" then c_name c else realizing)) ps) with
          | None => None
          | Some rs => Some (List.concat rs ++ [c])%list
          end
      end
  end.

Fixpoint keys_nodup (l : list (string * list string * bool)) : bool :=
  match l with [] => true | k :: r => negb (existsb (key_eqb k) r) && keys_nodup r end.

(* "no operation is reached through two paths": the class declares no signature twice, and among the operations of the
   interfaces it realises -- directly or through other interfaces, every path counted -- no signature occurs twice *)
Definition once_hyp (d : cdiagram) (c : cls) : bool :=
  match visited (List.length (classes d)) d "" c with
  | Some vs => keys_nodup (declared_of c) && keys_nodup (flat_map declared_of (removelast vs))
  | None => false
  end.
