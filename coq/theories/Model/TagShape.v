(* Shape of template lines and of generated files with respect to generator tags <<<...>>> and USER tags (C07).
   [represervable] is the property's own reading of "can serve as input to the next regeneration". No proofs here. *)
From Coq Require Import String Ascii List Bool.
From KV Require Import Lib.Str Lib.ODict Model.PreserveCore Model.Preserve Gen.Tags.
Import ListNotations.
Open Scope string_scope.

Definition LT : ascii := chr 60.
Definition GT : ascii := chr 62.

(* scanner state: outside a tag having seen n consecutive '<' / inside a tag with content acc having seen n consecutive '>' *)
Inductive tstate := Out (n : nat) | In_ (acc : string) (n : nat).

Definition tstep (st : option (tstate * list string)) (c : ascii) : option (tstate * list string) :=
  match st with
  | None => None
  | Some (Out n, res) =>
      if Ascii.eqb c LT then (match n with
                              | 0 => Some (Out 1, res) | 1 => Some (Out 2, res) | 2 => Some (In_ "" 0, res)
                              | _ => None end)
      else Some (Out 0, res)
  | Some (In_ acc n, res) =>
      if Ascii.eqb c GT then (match n with
                              | 0 => Some (In_ acc 1, res) | 1 => Some (In_ acc 2, res) | 2 => Some (Out 0, (res ++ [acc])%list)
                              | _ => None end)
      else if Ascii.eqb c LT then (match acc, n with EmptyString, 0 => Some (In_ "" 0, res) | _, _ => None end)  (* a 4th '<': the window shifts *)
      else match n with 0 => Some (In_ (acc ++ String c EmptyString)%string 0, res) | _ => None end
  end.

Fixpoint fold_string {A} (f : A -> ascii -> A) (s : string) (a : A) : A :=
  match s with EmptyString => a | String c r => fold_string f r (f a c) end.

(* the contents of the <<<...>>> tags of a line; None if the brackets are not well formed *)
Definition tags_of (l : string) : option (list string) :=
  match fold_string tstep l (Some (Out 0, [])) with
  | Some (Out _, res) => Some res
  | _ => None
  end.

(* name of a tag: its content up to the first '=' or ' ' ; has_default: contains '=' *)
Fixpoint head_of (s : string) : string :=
  match s with
  | EmptyString => EmptyString
  | String c r => if Ascii.eqb c (chr 61) || Ascii.eqb c SP then EmptyString else String c (head_of r)
  end.
Definition has_default (s : string) : bool := negb (no_char (chr 61) s).

Definition mem_str (x : string) (l : list string) : bool := existsb (String.eqb x) l.

(* every tag of the line is one the generator can expand (vocabulary) or carries an inline default *)
Definition line_tags_known (vocab : list string) (l : string) : bool :=
  match tags_of l with
  | Some ts => forallb (fun t => mem_str (head_of t) vocab || has_default t) ts
  | None => false
  end.

(* no generator tag at all *)
Definition no_generator_tag (l : string) : bool :=
  match tags_of l with Some [] => true | _ => false end.

(* USER tag lines of a template / generated file: adjacent pairs with equal cleaned names, names unique *)
Fixpoint user_pairs (ls : list string) : option (list string) :=
  match ls with
  | [] => Some []
  | l :: r =>
      if is_tag l then
        match r with
        | c :: r' => if is_tag c && String.eqb (kof c) (kof l) then option_map (cons (kof l)) (user_pairs r') else None
        | [] => None
        end
      else user_pairs r
  end.

Definition user_tags_ok (ls : list string) : bool :=
  match user_pairs ls with Some ks => nodupb ks | None => false end.

(* the property's reading for a generated file (a list of text lines) *)
Definition represervable (ls : list string) : bool :=
  forallb no_generator_tag ls && user_tags_ok ls.
