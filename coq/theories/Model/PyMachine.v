(* C11 -- the program the LTS of Model/PyThreads.v runs: the skeleton translated from the template (Gen/PySync.v). *)
From Coq Require Import String List Bool NArith.
From KV Require Import Model.PySyncIR Model.PyThreads Gen.PySync.
Import ListNotations.
Open Scope string_scope.

Definition the_prog : prog := mkProg init_ops trigger_ops run_ops stop_ops.

(* The skeleton as it was before the two `fix:` commits (kept for the regression examples: the deadlock of stop() and
   the processing on the producer's thread are behaviours of THIS program under the same LTS). *)
Definition old_prog : prog :=
  mkProg [SetFlagParam "runThreaded"; NewQueue; If (CFlag "runThreaded") [ThreadStart] []]
         [If (CFlag "runThreaded") [Put] [Process]]
         [While (CFlag "runThreaded") [TryEmpty [Get; Process; TaskDone] []]]
         [If (CFlag "runThreaded") [SetFlag "runThreaded" false; QueueJoin; ThreadJoin] []].

Definition run_model (c : config) (sc : list nat) := run_sched the_prog (threaded c) sc (init_state the_prog c).
Definition trace_model (old : bool) (c : config) (sc : list nat) :=
  let P := if old then old_prog else the_prog in run_trace P (threaded c) sc (init_state P c).
Definition enabled_model (old : bool) (c : config) (s : state) := enabled_set (if old then old_prog else the_prog) (threaded c) s.
