(* C19 adaptor: the TEXT DOMAIN of structured blobs (Model/UmlWriter.v) -- which blobs the text-level theorems
   (C19_adaptor_text_transparent, _colon) speak about -- as boolean, extractable predicates.  No proofs here. *)
From Coq Require Import String Ascii List Bool Arith.
From KV Require Import Lib.Str Lib.ODict Model.Vpp Model.VppWriter Model.Uml Model.UmlBlob Model.UmlWriter.
Import ListNotations.
Open Scope string_scope.

Fixpoint nobrace (s : string) : bool :=
  match s with EmptyString => true | String c r => negb (Ascii.eqb c "{") && negb (Ascii.eqb c "}") && nobrace r end.

(* the string state after a text *)
Fixpoint scan (st : qst) (s : string) : qst := match s with EmptyString => st | String c r => scan (qstep st c) r end.
(* none of the characters [bad] occurs outside a quoted text *)
Fixpoint free_of (bad : list ascii) (st : qst) (s : string) : bool :=
  match s with
  | EmptyString => true
  | String c r => let st' := qstep st c in (q_in st' || negb (existsb (Ascii.eqb c) bad)) && free_of bad st' r
  end.


Definition in_chars (cs : list ascii) (s : string) : bool :=
  (fix go (s : string) : bool := match s with EmptyString => true | String c r => existsb (Ascii.eqb c) cs && go r end) s.
Definition wsok (s : string) : bool := in_chars [CR; LF; TAB] s.                                   (* line break and indentation *)
Definition layok (s : string) : bool := in_chars [CR; LF; TAB; SP; "("; ")"; ","]%char s.            (* list punctuation *)


(* a value as written: "text" or text *)
Definition unq (v : string) : string :=
  match v with
  | String c r => if Ascii.eqb c DQ then substring 0 (String.length r - 1) r else v
  | EmptyString => ""
  end.

Inductive seg :=
| SField (ws k v : string)
| SRefs (ws k o sep c : string) (ids : list string)
| SChildren (ws k o sep c : string) (n : nat)
| SRaw (body : string).


Definition keyok (k : string) : bool := plain k && no_char SP k && no_char "," k && negb (String.eqb k "").
(* a plain text without leading / trailing blank and without ',' *)
Definition textok (x : string) : bool := plain x && no_char "," x && String.eqb (py_strip x) x.
(* a value: a plain text without leading / trailing blank; it may hold ',' (defaults such as  nullptr, nullptr ) *)
Definition vtextok (x : string) : bool := plain x && String.eqb (py_strip x) x.
Definition valok (v : string) : bool :=
  (vtextok v && negb (prefixb dq v)) || (prefixb dq v && String.eqb v (dq ++ unq v ++ dq) && vtextok (unq v)).
Definition idok (i : string) : bool := textok i && negb (String.eqb i "").

(* a free-text piece (e.g. documentation="<html ...>"): as str(bytes) shows it, no ';' and no brace outside quoted text, and
   the quoted texts are closed *)
Definition raw_ok (body : string) : bool :=
  free_of [";"; "{"; "}"]%char qst0 (repr_body SQ body) && negb (q_in (scan qst0 (repr_body SQ body))).

Definition seg_ok (s : seg) : bool :=
  match s with
  | SField ws k v => wsok ws && keyok k && valok v
  | SRefs ws k o sep c ids => wsok ws && keyok k && layok o && layok sep && layok c && forallb idok ids
  | SChildren ws k o sep c _ => wsok ws && keyok k && layok o && layok sep && layok c
  | SRaw body => raw_ok body
  end.


(* element headers  id:"name":Type  *)
Definition name_text (nm : option string) : string := match nm with Some s => s | None => "NULL" end.
Definition head_text (id : string) (nm : option string) (ty : string) : string := id ++ ":" ++ qname nm ++ ":" ++ ty ++ " ".
(* a NAME as the header holds it between its quotes: the reader takes the text between the quotes as it is (UnquoteName, since
   the repair of K-C19-7) and cuts the header at the colons OUTSIDE quotes -- so = < > ( ) , : are ordinary characters of a name
   (operator<, operator(), Const: ...).  Excluded: double quote, backslash, apostrophe (str(bytes) would escape them), ';' (the
   reader decides header / properties by looking for a ';' anywhere), non printable characters, blanks at the ends. *)
Definition name_char (c : ascii) : bool :=
  let n := nat_of_ascii c in
  Nat.leb 32 n && Nat.leb n 126 && negb (Ascii.eqb c DQ) && negb (Ascii.eqb c BSL) && negb (Ascii.eqb c SQ) && negb (Ascii.eqb c ";").
Fixpoint name_chars (s : string) : bool := match s with EmptyString => true | String c r => name_char c && name_chars r end.
Definition nameok (s : string) : bool := name_chars s && String.eqb (py_strip s) s.

Definition headok (id : string) (nm : option string) (ty : string) : bool :=
  textok id && no_char ":" id && negb (String.eqb id "")
  && match nm with Some s => nameok s | None => true end
  && textok ty && no_char ":" ty && negb (String.eqb ty "").

(* (kept for the statements written before the repair of K-C19-7: the same domain as headok now) *)
Definition headok_top (id : string) (nm : option string) (ty : string) : bool :=
  textok id && no_char ":" id && negb (String.eqb id "")
  && match nm with Some s => nameok s | None => true end
  && textok ty && no_char ":" ty && negb (String.eqb ty "").

(* a text without its last character *)
Fixpoint chop (s : string) : string :=
  match s with EmptyString => "" | String c EmptyString => "" | String c r => String c (chop r) end.

Definition seg_of (it : witem) : seg :=
  match it with
  | IField ws k v => SField ws k v
  | IRefs ws k o sep c ids => SRefs ws k o sep c ids
  | IChildren ws k o sep c ns => SChildren ws k o sep c (List.length ns)
  | IRaw s => SRaw (chop s)              (* a free-text piece  text;  *)
  | IInert s => SField "" "" ""          (* excluded by wf_node *)
  end.


(* domain of the text-level theorem: plain keys, values, ids; layout strings made of line breaks, tabs, blanks, ( ) , ;
   free text (IRaw: e.g. an HTML documentation) with closed quoted texts and no ';' or brace outside them *)
Fixpoint wf_node (n : wnode) : bool :=
  match n with
  | WNode id nm ty its tl =>
      headok id nm ty && wsok tl
      && (fix items (l : list witem) : bool :=
            match l with
            | [] => true
            | it :: r =>
                match it with
                | IInert _ => false
                | IRaw s => String.eqb s (chop s ++ ";") && raw_ok (chop s)
                | IChildren ws k o sep c ns =>
                    seg_ok (seg_of it) && (fix each (l : list wnode) : bool := match l with [] => true | x :: t => wf_node x && each t end) ns
                | _ => seg_ok (seg_of it)
                end && items r
            end) its
  end.

(* braces: none in ids, names, types, keys, reference ids and unquoted values; a "quoted value" may hold them *)
Fixpoint nbq_node (n : wnode) : bool :=
  match n with
  | WNode id nm ty its tl =>
      nobrace id && nobrace (name_text nm) && nobrace ty
      && (fix items (l : list witem) : bool :=
            match l with
            | [] => true
            | it :: r =>
                match it with
                | IField _ k v => nobrace k && (prefixb dq v || nobrace v)
                | IRefs _ k _ _ _ ids => nobrace k && forallb nobrace ids
                | IChildren _ k _ _ _ ns => nobrace k && (fix each (l : list wnode) : bool := match l with [] => true | x :: t => nbq_node x && each t end) ns
                | _ => true
                end && items r
            end) its
  end.

(* str(bytes) quotes with an apostrophe unless the bytes hold an apostrophe and no double quote *)
(* the domain for a row's blob: as wf_node, but the NAME in the top-level header may hold colons *)
Definition wf_top (n : wnode) : bool :=
  match n with
  | WNode id nm ty its tl => headok_top id nm ty && wf_node (WNode id None ty its tl)
  end.

Definition quote_ok (s : string) : bool := negb (no_char DQ s) || no_char SQ s.
