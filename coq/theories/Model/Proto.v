(* Model of the generated protocol receiver / transmitter (kojen/protocol_templates/CPP/TEMPLATEReceiver.cpp,
   TEMPLATETransmitter.cpp after expansion for an interface) and of the loop-back composition with Model/Conn.v.

     <C>Receiver::OnMessageReceived(data_buffer, number_of_bytes):
         header = data_buffer reinterpreted as sMsgHeader;
         switch (header->TypeID) {
         case <id_i>: On<Msg_i>Received(data_buffer reinterpreted as const <Msg_i> pointer); break;      (one per message)
         default: if (unhandledReceiver != nullptr) unhandledReceiver->OnNotHandledMessageReceived(data_buffer, number_of_bytes); break; }

     bool <C>Transmitter::Transmit<Msg>(const <Msg>& data, int8 retries) const:
         bool ok = false;
         for (; retries >= 0 && !ok && (connection != nullptr); retries--)
             ok = ok || connection->SendData(address of data as bytes, sizeof(<Msg>));
         return ok;
   No proofs here (Proofs/ProtoProofs.v). *)
From Coq Require Import String Ascii List Bool Arith NArith ZArith.
From KV Require Import Lib.Str Lib.ByteSeq Gen.CxxConn Gen.ProtoTmpl Model.Conn.
Import ListNotations.
Open Scope N_scope.
Open Scope list_scope.

(* an interface as the receiver sees it: per message its type id (the case label) and sizeof(<Msg>) *)
Definition iface := list (N * N).

Inductive call :=
| Handler (idx : nat) (bytes : list byte)     (* On<Msg_idx>Received(p): the sizeof(<Msg_idx>) bytes p points to *)
| NotHandled (bytes : list byte).             (* OnNotHandledMessageReceived(data_buffer, number_of_bytes) *)

(* the switch: the first case label equal to the uint16 TypeID of the header *)
Fixpoint find_case (tid : N) (ifc : iface) (idx : nat) : option (nat * N) :=
  match ifc with
  | [] => None
  | (id, size) :: r => if id =? tid then Some (idx, size) else find_case tid r (S idx)
  end.

Definition dispatch (ifc : iface) (unhandled_set : bool) (msg : list byte) : list call :=
  match find_case (type_id msg) ifc 0 with
  | Some (idx, size) => [Handler idx (take size msg)]
  | None => if unhandled_set then [NotHandled msg] else []
  end.

(* int8 retries-- *)
Definition wrap_int8 (z : Z) : Z := ((z + 128) mod 256 - 128)%Z.

(* the retry loop; [accept k] = the answer of the k-th call of SendData on this connection (k = 0, 1, ...);
   result: (returned ok, number of SendData calls made) *)
Fixpoint transmit_loop (fuel : nat) (retries : Z) (ok : bool) (accept : nat -> bool) (calls : nat) : option (bool * nat) :=
  match fuel with
  | O => None
  | S f =>
      if (0 <=? retries)%Z && negb ok
      then
        let '(ok', calls') := if ok then (true, calls) else (accept calls, S calls) in    (* ok = ok || SendData(...) *)
        transmit_loop f (wrap_int8 (retries - 1)) ok' accept calls'
      else Some (ok, calls)
  end.
Definition transmit (retries : Z) (accept : nat -> bool) : option (bool * nat) :=
  transmit_loop 130 retries false accept 0.

(* SendData(const uint8* data_buffer, const uint16& number_of_bytes) called with sizeof(<Msg>): the bytes the connection is
   asked to send *)
Definition sent_bytes (m : list byte) : list byte := take (wrap send_len_bits (len m)) m.

(* loop-back: the accepted bytes of the transmitted messages, cut into chunks by the transport, go through
   IConnection::OnDataReceived of the receiving side into the generated receiver *)
Definition round_trip (p0 p1 : byte) (ifc : iface) (unhandled_set : bool) (chunks : list (list byte)) : option (list call) :=
  match feed p0 p1 init chunks with
  | Done _ ds => Some (flat_map (dispatch ifc unhandled_set) ds)
  | Fail _ _ => None
  end.

(* ---- domains / specification-side functions ---- *)
Fixpoint nodup_ids (ifc : iface) : bool :=
  match ifc with
  | [] => true
  | (id, _) :: r => negb (existsb (fun e => fst e =? id) r) && nodup_ids r
  end.
(* case labels are distinct (otherwise the generated switch does not compile) *)
Definition iface_ok (ifc : iface) : bool := nodup_ids ifc.

(* the least k < limit with accept (from + k) *)
Fixpoint first_accept (limit : nat) (accept : nat -> bool) (from : nat) : option nat :=
  match limit with
  | O => None
  | S l => if accept from then Some from else first_accept l accept (S from)
  end.
Definition int8_ok (z : Z) : bool := ((-128 <=? z) && (z <=? 127))%Z.
(* the allowed number of attempts for an int8 retries argument *)
Definition attempts (retries : Z) : nat := Z.to_nat (retries + 1).
