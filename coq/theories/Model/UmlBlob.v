(* Model of the class-diagram INPUT ADAPTOR of kojen: project rows -> class diagram objects.

   vppfs.ParseBLOB_Recursive / Get_ValuesFromOutside (the generic blob parser) and the part of vppclassdiagram.py that
   turns the MODEL_ELEMENT / DIAGRAM_ELEMENT rows of the selected class diagram into Class / ClassOperation /
   ClassAttribute / Package / Inheritance / Association objects: ClassDiagram.LoadAndTest (type dispatch, namespaces from
   the package chain), Class.Parse (stereotypes -> flags, enumeration literals, operations, attributes),
   GetNestedTypeNamesFromNestedTypeIDS, CleanModifiersFromType, VisibilityToHumanReadableString, Package, Inheritance
   (+ PostProjectParseFix), Association.ParseAssociation, ExtractClassDiagram.
   The row database, str(bytes), mass_replace, split, strip, GetModelElement are those of Model/Vpp.v (shared with C20).
   An uncaught Python exception (KeyError, IndexError, TypeError, AttributeError, "Model Element not found") is [None].
   Python values that can be a str or a dict are the type [pv]; `k in v` is key membership on a dict and a substring test
   on a str, as in Python.  No proofs here. *)
From Coq Require Import String Ascii List Bool Arith.
From KV Require Import Lib.Str Lib.ODict Gen.VppSrc Model.Vpp Model.Uml.
Import ListNotations.
Open Scope string_scope.

(* ---------------------------------------------------------------- parsed blobs *)

Inductive pv := PStr (s : string) | PDict (d : list (string * pv)).

Definition bind {A B} (o : option A) (f : A -> option B) : option B := match o with Some x => f x | None => None end.
Notation "x <- e ;; f" := (bind e (fun x => f)) (at level 61, e at next level, right associativity).

(* str(n) *)
Fixpoint dec_fuel (fuel n : nat) (acc : string) : string :=
  match fuel with
  | O => acc
  | S f => let acc' := String (ascii_of_nat (48 + Nat.modulo n 10)) acc in
           if Nat.ltb n 10 then acc' else dec_fuel f (Nat.div n 10) acc'
  end.
Definition dec (n : nat) : string := dec_fuel (S n) n "".

Fixpoint srev_onto (s acc : string) : string := match s with EmptyString => acc | String c r => srev_onto r (String c acc) end.
Definition srev (s : string) : string := srev_onto s "".

Definition nth_str (n : nat) (l : list string) : option string := nth_error l n.

(* the vector form  key=<e1>, <e2>  ->  key_0, key_1 *)
Definition vector_entries (k : string) (b1 : string) (res : list (string * pv)) : list (string * pv) :=
  let vect := remove_char ")" (remove_char "(" (remove_char TAB (remove_char LF (remove_char ">" b1)))) in
  fst (fold_left (fun (st : list (string * pv) * nat) i =>
                    let i' := py_strip (remove_char "," (mass_replace i)) in
                    if Nat.ltb 0 (String.length i')
                    then (upsert String.eqb (mass_replace k ++ "_" ++ dec (snd st)) (PStr i') (fst st), S (snd st))
                    else st)
                 (split_on "<" vect) (res, 0)).

(* the string state of the two scanners (ParseBLOB_Recursive, SplitOutsideQuotes): inside a "double quoted" text; the previous
   character was a backslash (a quote after a backslash does not open or close a text) *)
Record qst := { q_in : bool; q_esc : bool }.
Definition qst0 : qst := {| q_in := false; q_esc := false |}.
Definition qstep (st : qst) (c : ascii) : qst :=
  {| q_in := if Ascii.eqb c DQ && negb (q_esc st) then negb (q_in st) else q_in st; q_esc := Ascii.eqb c BSL |}.

(* SplitOutsideQuotes(text, separator): split at the separators that are not inside a quoted text *)
Fixpoint qsplit_st (sep : ascii) (st : qst) (s : string) : list string :=
  match s with
  | EmptyString => [""]
  | String x r =>
      let st' := qstep st x in
      match qsplit_st sep st' r with
      | [] => [""]
      | h :: t => if Ascii.eqb x sep && negb (q_in st') then "" :: h :: t else String x h :: t
      end
  end.
Definition qsplit (sep : ascii) (s : string) : list string := qsplit_st sep qst0 s.

(* one ';'-separated piece of an outside text: key=value, key=<e1>, <e2> ..., or nothing *)
Definition vstep (res : list (string * pv)) (a : string) : list (string * pv) :=
  if contains "=" a then
    let b := split_on "=" a in
    match b with
    | b0 :: b1 :: _ =>
        if Nat.ltb 0 (String.length (py_strip (remove_char "," (mass_replace b1)))) then
          if contains "<" b1 && contains ">" b1 then vector_entries b0 b1 res
          else upsert String.eqb (py_strip (mass_replace b0)) (PStr (py_strip (mass_replace b1))) res
        else res
    | _ => res
    end
  else res.

(* UnquoteName: a quoted NAME field is the text between the quotes as it is (operator<, a name with a colon); an unquoted one
   (NULL) is cleaned as every other text *)
Definition unquote_name (a : string) : string :=
  let t := py_strip a in
  if Nat.leb 2 (String.length t) && prefixb (String DQ "") t && String.eqb (substring (String.length t - 1) 1 t) (String DQ "")
  then py_strip (substring 1 (String.length t - 2) t)
  else py_strip (mass_replace a).

(* Get_ValuesFromOutside *)
Definition values_from_outside (o : string) : option (list (string * pv)) :=
  if no_char ";" o && negb (no_char ":" o) then
    let all := qsplit ":" o in                                                  (* colons inside the quoted name are text *)
    a0 <- nth_str 0 all ;; a1 <- nth_str 1 all ;; a2 <- nth_str 2 all ;;     (* IndexError *)
    Some [("id", PStr (py_strip (mass_replace a0))); ("name", PStr (unquote_name a1)); ("type", PStr (py_strip (mass_replace a2)))]
  else
    Some (fold_left vstep (qsplit ";" o) []).

Record frame := { f_out : string (* reversed *); f_children : list (string * pv); f_st : qst }.
Definition frame0 : frame := {| f_out := ""; f_children := []; f_st := qst0 |}.

(* result.update(res); result.update(children) *)
Definition finalize (f : frame) : option pv :=
  res <- values_from_outside (srev (f_out f)) ;;
  Some (PDict (fold_left (fun acc kv => upsert String.eqb (fst kv) (snd kv) acc) (f_children f) res)).

Definition add_child (f : frame) (v : pv) : frame :=
  {| f_out := f_out f; f_children := upsert String.eqb ("child_" ++ dec (List.length (f_children f))) v (f_children f); f_st := f_st f |}.

(* ParseBLOB_Recursive as a stack machine over the characters: outside a "quoted text" '{' opens a child and '}' closes the
   current dictionary (at the top level: returns, the rest of the text is ignored); inside a quoted text every character
   belongs to the outside text; the end of the text closes every open dictionary *)
Fixpoint close_all (cur : frame) (stack : list frame) : option pv :=
  match stack with
  | [] => finalize cur
  | p :: st => v <- finalize cur ;; close_all (add_child p v) st
  end.

Fixpoint parse_run (s : string) (cur : frame) (stack : list frame) : option pv :=
  match s with
  | EmptyString => close_all cur stack
  | String c r =>
      let st' := qstep (f_st cur) c in
      let cur' := {| f_out := f_out cur; f_children := f_children cur; f_st := st' |} in
      if q_in st' then parse_run r {| f_out := String c (f_out cur); f_children := f_children cur; f_st := st' |} stack
      else if Ascii.eqb c "{" then parse_run r frame0 (cur' :: stack)
      else if Ascii.eqb c "}" then
        match stack with
        | [] => finalize cur
        | p :: st => v <- finalize cur ;; parse_run r (add_child p v) st
        end
      else parse_run r {| f_out := String c (f_out cur); f_children := f_children cur; f_st := st' |} stack
  end.

Definition parse_blob (s : string) : option pv := parse_run s frame0 [].

(* ---------------------------------------------------------------- Python-style access *)

Definition items (v : pv) : option (list (string * pv)) := match v with PDict d => Some d | PStr _ => None end.   (* v.items() *)
Definition idx (k : string) (v : pv) : option pv :=                                                               (* v[k] *)
  match v with PDict d => lookup String.eqb k d | PStr _ => None end.
Definition has (k : string) (v : pv) : bool :=                                                                    (* k in v *)
  match v with PDict d => mem String.eqb k d | PStr s => contains k s end.
Definition as_str (v : pv) : option string := match v with PStr s => Some s | PDict _ => None end.
Definition truthy (v : pv) : bool := match v with PStr s => negb (String.eqb s "") | PDict d => match d with [] => false | _ => true end end.
Definition sidx (k : string) (v : pv) : option string := x <- idx k v ;; as_str x.
Definition pv_is (s : string) (v : pv) : bool := match v with PStr x => String.eqb x s | PDict _ => false end.         (* v == 'literal' *)
Definition is_child_key (k : string) : bool := contains "child" (lower k).

(* for every (k, v) of a list, with an accumulator and exceptions *)
Fixpoint foldM {A S} (f : S -> A -> option S) (l : list A) (s : S) : option S :=
  match l with [] => Some s | x :: r => s' <- f s x ;; foldM f r s' end.

(* ---------------------------------------------------------------- helpers of vppclassdiagram *)

Fixpoint rstrip_char (c : ascii) (s : string) : string :=
  match s with
  | EmptyString => ""
  | String x r => match rstrip_char c r with
                  | EmptyString => if Ascii.eqb x c then "" else String x ""
                  | r' => String x r'
                  end
  end.

Definition nested_type_names (g : string -> option velem) (ids : string) : option string :=
  r <- foldM (fun acc t => e <- g t ;; Some (acc ++ ve_name e ++ "::")) (split_on ":" ids) "" ;;
  Some (rstrip_char ":" r).

Definition clean_modifiers (t : string) : string :=
  replace_all "boolean" "bool" (remove_char "[" (remove_char "]" (remove_char "&" (remove_char "*" t)))).

Definition visibility_str (v : pv) : string :=
  match v with
  | PStr s => if String.eqb s "71" then "public" else if String.eqb s "67" then "protected"
              else if String.eqb s "66" then "private" else if String.eqb s "68" then "package" else "public"
  | PDict _ => "public"
  end.

Definition last_of (l : list string) : string := last l "".

(* ---------------------------------------------------------------- the objects *)

Record rparam := { rp_const : string; rp_type : string; rp_name : string; rp_modifier : string; rp_default : string;
                   rp_mult : string; rp_dir : string }.
Record rop := { ro_name : string; ro_vis : string; ro_ret : string; ro_retmod : string; ro_params : list rparam;
                ro_comment : string; ro_virtual : bool; ro_static : bool; ro_const : bool }.
Record rattr := { ra_name : string; ra_vis : string; ra_mod : string; ra_comment : string; ra_type : string; ra_mult : string;
                  ra_setter : bool; ra_getter : bool; ra_static : bool; ra_const : bool; ra_init : option string }.
Record rclass := { rc_id : string; rc_name : string; rc_ns : string; rc_pure : bool; rc_autogen : bool; rc_enum : bool;
                   rc_struct : bool; rc_packed : bool; rc_comment : string; rc_literals : list string;
                   rc_ops : list rop; rc_attrs : list rattr }.
Record rpackage := { rk_id : string; rk_name : string; rk_classes : list string }.
Record rinh := { ri_id : string; ri_real : bool; ri_from : string; ri_from_id : string; ri_to : string; ri_to_id : string }.
Record rassoc := { as_id : string; as_name : string; as_type : string; as_comment : string;
                   as_from : string; as_from_id : string; as_from_vis : string; as_from_static : bool; as_from_const : bool;
                   as_from_mult : string; as_from_getter : bool; as_from_setter : bool;
                   as_to : string; as_to_id : string; as_to_vis : string; as_to_static : bool; as_to_const : bool;
                   as_to_mult : string; as_to_getter : bool; as_to_setter : bool }.
Record rdiagram := { rd_classes : list (string * rclass); rd_packages : list (string * rpackage);
                     rd_assocs : list (string * rassoc); rd_inhs : list (string * rinh) }.

(* optional string field of a dictionary: `if k in d: x = d[k]` *)
Definition opt_field (k : string) (d : pv) (dflt : string) : option string :=
  if has k d then sidx k d else Some dflt.

(* ---------------------------------------------------------------- ClassOperation *)

Definition parse_param (g : string -> option velem) (v : pv) : option rparam :=
  c0 <- idx "child_0" v ;;
  ty <- (if has "type_string" c0 then t <- sidx "type_string" c0 ;; Some (clean_modifiers t)
         else t <- sidx "type_0" c0 ;; n <- nested_type_names g t ;; Some (clean_modifiers n)) ;;
  dirv <- (if has "direction" c0 then d <- idx "direction" c0 ;; Some (Some d) else Some None) ;;
  let is_in := match dirv with Some d => pv_is "65" d | None => false end in
  let is_out := match dirv with Some d => pv_is "66" d | None => false end in
  md <- opt_field "typeModifier" c0 "" ;;
  dv <- opt_field "defaultValue_string" c0 "" ;;
  mu <- opt_field "multiplicity" c0 "" ;;
  nm <- sidx "name" v ;;
  Some {| rp_const := if is_in then "const" else ""; rp_type := ty; rp_name := nm; rp_modifier := md; rp_default := dv;
          rp_mult := mu; rp_dir := if is_out then "out" else if is_in then "in" else "inout" |}.

Definition parse_operation (g : string -> option velem) (container : pv) : option rop :=
  nm <- sidx "name" container ;;
  c0 <- idx "child_0" container ;;
  visv <- (if has "visibility" c0 then x <- idx "visibility" c0 ;; Some (visibility_str x) else Some "public") ;;
  let pkg := String.eqb (py_strip (lower visv)) "package" in
  ret <- (if has "returnType_0" c0 then t <- sidx "returnType_0" c0 ;; n <- nested_type_names g t ;; Some (clean_modifiers n)
          else Some "void") ;;
  rmod <- opt_field "typeModifier" c0 "" ;;
  its <- items c0 ;;
  ps <- foldM (fun acc kv =>
                 if contains "child" (fst kv) then
                   if truthy (snd kv) then
                     t <- sidx "type" (snd kv) ;;
                     if String.eqb "parameter" (lower t) then p <- parse_param g (snd kv) ;; Some (acc ++ [p])%list else Some acc
                   else Some acc
                 else Some acc) its [] ;;
  cm <- opt_field "documentation_plain" c0 "" ;;
  sc <- (if has "scope" c0 then x <- idx "scope" c0 ;; Some (pv_is "65" x) else Some false) ;;
  Some {| ro_name := nm; ro_vis := if pkg then "public" else visv; ro_ret := ret; ro_retmod := rmod; ro_params := ps;
          ro_comment := cm; ro_virtual := has "abstract" c0; ro_static := pkg || sc; ro_const := has "query" c0 |}.

(* ---------------------------------------------------------------- ClassAttribute *)

Definition parse_attribute (g : string -> option velem) (container : pv) : option rattr :=
  nm <- sidx "name" container ;;
  c0 <- idx "child_0" container ;;
  visv <- (if has "visibility" c0 then x <- idx "visibility" c0 ;; Some (visibility_str x) else Some "private") ;;
  md <- opt_field "typeModifier" c0 "" ;;
  ty <- (if has "type_0" c0 then t <- sidx "type_0" c0 ;; n <- nested_type_names g t ;; Some (clean_modifiers n) else Some "void") ;;
  cm <- opt_field "documentation_plain" c0 "" ;;
  sc <- (if has "scope" c0 then x <- idx "scope" c0 ;; Some (pv_is "65" x) else Some false) ;;
  iv <- (if has "initialValue_string" c0 then x <- sidx "initialValue_string" c0 ;; Some (Some x) else Some None) ;;
  mu <- opt_field "multiplicity" c0 "" ;;
  Some {| ra_name := nm; ra_vis := visv; ra_mod := md; ra_comment := cm; ra_type := ty; ra_mult := mu;
          ra_setter := has "hasSetter" c0; ra_getter := has "hasGetter" c0; ra_static := sc; ra_const := has "readOnly" c0;
          ra_init := iv |}.

(* ---------------------------------------------------------------- Class *)

Record cflags := { cf_pure : bool; cf_autogen : bool; cf_enum : bool; cf_struct : bool; cf_packed : bool; cf_comment : string;
                   cf_literals : list string }.

Definition stereo_step (g : string -> option velem) (f : cflags) (kv : string * pv) : option cflags :=
  let kk := lower (fst kv) in
  let vv := snd kv in
  if contains "stereotype" kk then
    id <- as_str vv ;; e <- g id ;;
    let n := lower (ve_name e) in
    if contains "interface" n then Some {| cf_pure := true; cf_autogen := cf_autogen f; cf_enum := cf_enum f; cf_struct := cf_struct f; cf_packed := cf_packed f; cf_comment := cf_comment f; cf_literals := cf_literals f |}
    else if contains "autogen" n then Some {| cf_pure := cf_pure f; cf_autogen := true; cf_enum := cf_enum f; cf_struct := cf_struct f; cf_packed := cf_packed f; cf_comment := cf_comment f; cf_literals := cf_literals f |}
    else if contains "enumeration" n then Some {| cf_pure := cf_pure f; cf_autogen := cf_autogen f; cf_enum := true; cf_struct := cf_struct f; cf_packed := cf_packed f; cf_comment := cf_comment f; cf_literals := cf_literals f |}
    else if contains "struct" n then Some {| cf_pure := cf_pure f; cf_autogen := cf_autogen f; cf_enum := cf_enum f; cf_struct := true; cf_packed := cf_packed f || contains "packed" n; cf_comment := cf_comment f; cf_literals := cf_literals f |}
    else Some f
  else if contains "abstract" kk then Some {| cf_pure := true; cf_autogen := cf_autogen f; cf_enum := cf_enum f; cf_struct := cf_struct f; cf_packed := cf_packed f; cf_comment := cf_comment f; cf_literals := cf_literals f |}
  else if contains "documentation_plain" kk then
    c <- as_str vv ;;        (* a dict here would be stored as the comment; treated as an exception by the model *)
    Some {| cf_pure := cf_pure f; cf_autogen := cf_autogen f; cf_enum := cf_enum f; cf_struct := cf_struct f; cf_packed := cf_packed f; cf_comment := c; cf_literals := cf_literals f |}
  else if contains "child" kk then
    if cf_enum f then
      if has "type" vv then
        t <- sidx "type" vv ;;
        if String.eqb (py_strip (lower t)) "enumerationliteral" then
          n <- sidx "name" vv ;;
          Some {| cf_pure := cf_pure f; cf_autogen := cf_autogen f; cf_enum := cf_enum f; cf_struct := cf_struct f; cf_packed := cf_packed f; cf_comment := cf_comment f; cf_literals := (cf_literals f ++ [py_strip n])%list |}
        else Some f
      else Some f
    else Some f
  else Some f.

(* for k, v in dict.items(): if 'child' in k.lower(): for kk, vv in v.items(): ... *)
Definition over_children {S} (top : pv) (f : S -> string * pv -> option S) (s : S) : option S :=
  its <- items top ;;
  foldM (fun s kv => if is_child_key (fst kv) then its2 <- items (snd kv) ;; foldM f its2 s else Some s) its s.

Definition typed_children {A} (g : string -> option velem) (top : pv) (ty : string) (p : (string -> option velem) -> pv -> option A) : option (list A) :=
  over_children top (fun acc kv =>
      if is_child_key (fst kv) then
        if truthy (snd kv) then
          t <- sidx "type" (snd kv) ;;
          if String.eqb ty (lower t) then x <- p g (snd kv) ;; Some (acc ++ [x])%list else Some acc
        else Some acc
      else Some acc) [].

Definition parse_class (g : string -> option velem) (P : velem -> option pv) (v : velem) : option rclass :=
  top <- P v ;;
  fl <- over_children top (stereo_step g)
          {| cf_pure := false; cf_autogen := false; cf_enum := false; cf_struct := false; cf_packed := false; cf_comment := ""; cf_literals := [] |} ;;
  ops <- typed_children g top "operation" parse_operation ;;
  ats <- typed_children g top "attribute" parse_attribute ;;
  Some {| rc_id := ve_id v; rc_name := ve_name v; rc_ns := ""; rc_pure := cf_pure fl; rc_autogen := cf_autogen fl; rc_enum := cf_enum fl;
          rc_struct := cf_struct fl; rc_packed := cf_packed fl; rc_comment := cf_comment fl; rc_literals := cf_literals fl;
          rc_ops := ops; rc_attrs := ats |}.

(* ---------------------------------------------------------------- Package, Inheritance *)

Definition parse_package (P : velem -> option pv) (v : velem) : option rpackage :=
  top <- P v ;;
  cs <- over_children top (fun acc kv =>
          if is_child_key (fst kv) then match snd kv with PStr s => Some (acc ++ [py_strip s])%list | PDict _ => Some acc end
          else Some acc) [] ;;
  Some {| rk_id := ve_id v; rk_name := ve_name v; rk_classes := cs |}.

Definition parse_inheritance (g : string -> option velem) (P : velem -> option pv) (v : velem) (real : bool) : option rinh :=
  top <- P v ;;
  its <- items top ;;
  foldM (fun r kv =>
           if is_child_key (fst kv) then
             f <- sidx "fromModel_0" (snd kv) ;; fn <- nested_type_names g f ;;
             t <- sidx "toModel_0" (snd kv) ;; tn <- nested_type_names g t ;;
             Some {| ri_id := ri_id r; ri_real := real; ri_from := fn; ri_from_id := last_of (split_on ":" f);
                     ri_to := tn; ri_to_id := last_of (split_on ":" t) |}
           else Some r) its
        {| ri_id := ve_id v; ri_real := real; ri_from := ""; ri_from_id := ""; ri_to := ""; ri_to_id := "" |}.

(* ---------------------------------------------------------------- Association *)

Definition dir_is (d : string) (vvv : pv) : option bool := x <- idx "Direction" vvv ;; Some (pv_is d x).

Definition set_from (a : rassoc) (nm id : string) : rassoc :=
  {| as_id := as_id a; as_name := as_name a; as_type := as_type a; as_comment := as_comment a;
     as_from := nm; as_from_id := id; as_from_vis := as_from_vis a; as_from_static := as_from_static a; as_from_const := as_from_const a;
     as_from_mult := as_from_mult a; as_from_getter := as_from_getter a; as_from_setter := as_from_setter a;
     as_to := as_to a; as_to_id := as_to_id a; as_to_vis := as_to_vis a; as_to_static := as_to_static a; as_to_const := as_to_const a;
     as_to_mult := as_to_mult a; as_to_getter := as_to_getter a; as_to_setter := as_to_setter a |}.
Definition set_to (a : rassoc) (nm id : string) : rassoc :=
  {| as_id := as_id a; as_name := as_name a; as_type := as_type a; as_comment := as_comment a;
     as_from := as_from a; as_from_id := as_from_id a; as_from_vis := as_from_vis a; as_from_static := as_from_static a; as_from_const := as_from_const a;
     as_from_mult := as_from_mult a; as_from_getter := as_from_getter a; as_from_setter := as_from_setter a;
     as_to := nm; as_to_id := id; as_to_vis := as_to_vis a; as_to_static := as_to_static a; as_to_const := as_to_const a;
     as_to_mult := as_to_mult a; as_to_getter := as_to_getter a; as_to_setter := as_to_setter a |}.
(* the per-end fields: which = true for the 'from' end *)
Definition set_end (a : rassoc) (from : bool) (vis : option string) (st co : option bool) (mu : option string) (ge se : option bool) : rassoc :=
  let pick {A} (o : option A) (old : A) := match o with Some x => x | None => old end in
  if from then
    {| as_id := as_id a; as_name := as_name a; as_type := as_type a; as_comment := as_comment a;
       as_from := as_from a; as_from_id := as_from_id a; as_from_vis := pick vis (as_from_vis a); as_from_static := pick st (as_from_static a);
       as_from_const := pick co (as_from_const a); as_from_mult := pick mu (as_from_mult a); as_from_getter := pick ge (as_from_getter a);
       as_from_setter := pick se (as_from_setter a);
       as_to := as_to a; as_to_id := as_to_id a; as_to_vis := as_to_vis a; as_to_static := as_to_static a; as_to_const := as_to_const a;
       as_to_mult := as_to_mult a; as_to_getter := as_to_getter a; as_to_setter := as_to_setter a |}
  else
    {| as_id := as_id a; as_name := as_name a; as_type := as_type a; as_comment := as_comment a;
       as_from := as_from a; as_from_id := as_from_id a; as_from_vis := as_from_vis a; as_from_static := as_from_static a;
       as_from_const := as_from_const a; as_from_mult := as_from_mult a; as_from_getter := as_from_getter a; as_from_setter := as_from_setter a;
       as_to := as_to a; as_to_id := as_to_id a; as_to_vis := pick vis (as_to_vis a); as_to_static := pick st (as_to_static a);
       as_to_const := pick co (as_to_const a); as_to_mult := pick mu (as_to_mult a); as_to_getter := pick ge (as_to_getter a);
       as_to_setter := pick se (as_to_setter a) |}.
Definition set_type (a : rassoc) (t : string) : rassoc :=
  {| as_id := as_id a; as_name := as_name a; as_type := t; as_comment := as_comment a;
     as_from := as_from a; as_from_id := as_from_id a; as_from_vis := as_from_vis a; as_from_static := as_from_static a; as_from_const := as_from_const a;
     as_from_mult := as_from_mult a; as_from_getter := as_from_getter a; as_from_setter := as_from_setter a;
     as_to := as_to a; as_to_id := as_to_id a; as_to_vis := as_to_vis a; as_to_static := as_to_static a; as_to_const := as_to_const a;
     as_to_mult := as_to_mult a; as_to_getter := as_to_getter a; as_to_setter := as_to_setter a |}.
Definition set_comment (a : rassoc) (c : string) : rassoc :=
  {| as_id := as_id a; as_name := as_name a; as_type := as_type a; as_comment := c;
     as_from := as_from a; as_from_id := as_from_id a; as_from_vis := as_from_vis a; as_from_static := as_from_static a; as_from_const := as_from_const a;
     as_from_mult := as_from_mult a; as_from_getter := as_from_getter a; as_from_setter := as_from_setter a;
     as_to := as_to a; as_to_id := as_to_id a; as_to_vis := as_to_vis a; as_to_static := as_to_static a; as_to_const := as_to_const a;
     as_to_mult := as_to_mult a; as_to_getter := as_to_getter a; as_to_setter := as_to_setter a |}.

(* the body of `for kkk, vvv in vv.items(): if 'child' in kkk.lower(): ...` for one association end property *)
Definition assoc_end_step (g : string -> option velem) (a : rassoc) (vvv : pv) : option rassoc :=
  d0 <- dir_is "0" vvv ;; d1 <- dir_is "1" vvv ;;
  a1 <- (if d0 then e <- sidx "EndModelElement_0" vvv ;; n <- nested_type_names g e ;; Some (set_from a n (last_of (split_on ":" e)))
         else if d1 then e <- sidx "EndModelElement_0" vvv ;; n <- nested_type_names g e ;; Some (set_to a n (last_of (split_on ":" e)))
         else Some a) ;;
  a2 <- (if has "aggregationKind" vvv then k <- idx "aggregationKind" vvv ;;
           Some (if pv_is "66" k then set_type a1 "Aggregation" else if pv_is "67" k then set_type a1 "Composition" else a1)
         else Some a1) ;;
  a3 <- (if has "multiplicity" vvv then m <- sidx "multiplicity" vvv ;;
           Some (if d0 then set_end a2 true None None None (Some m) None None else if d1 then set_end a2 false None None None (Some m) None None else a2)
         else Some (if d0 then (if String.eqb (as_type a2) "Composition" then set_end a2 true None None None (Some "1") None None else a2)
                    else if d1 then (if negb (String.eqb (as_type a2) "Association") then set_end a2 false None None None (Some "0") None None else a2)
                    else a2)) ;;
  a4 <- (if has "visibility" vvv then vis <- idx "visibility" vvv ;;
           Some (if pv_is "68" vis then (if d0 then set_end a3 true None (Some true) None None None None else if d1 then set_end a3 false None (Some true) None None None None else a3)
                 else (if d0 then set_end a3 true (Some (visibility_str vis)) None None None None None
                       else if d1 then set_end a3 false (Some (visibility_str vis)) None None None None None else a3))
         else Some a3) ;;
  let a5 := if has "providePropertyGetterMethod" vvv
            then (if d0 then set_end a4 true None None None None (Some true) None else if d1 then set_end a4 false None None None None (Some true) None else a4) else a4 in
  let a6 := if has "providePropertySetterMethod" vvv
            then (if d0 then set_end a5 true None None None None None (Some true) else if d1 then set_end a5 false None None None None None (Some true) else a5) else a5 in
  Some a6.

(* `if 'readOnly' in vvv:` after each property of an association end (vvv = the property just visited, any kind) *)
Definition assoc_readonly (a : rassoc) (vvv : pv) : option rassoc :=
  if has "readOnly" vvv then
    d0 <- dir_is "0" vvv ;; d1 <- dir_is "1" vvv ;;
    Some (if d0 then set_end a true None None (Some true) None None None else if d1 then set_end a false None None (Some true) None None None else a)
  else Some a.

Definition parse_association (g : string -> option velem) (P : velem -> option pv) (v : velem) : option rassoc :=
  top <- P v ;;
  its <- items top ;;
  foldM (fun a kv =>
           a' <- (if has "documentation_plain" (snd kv) then c <- sidx "documentation_plain" (snd kv) ;; Some (set_comment a c) else Some a) ;;
           if is_child_key (fst kv) then
             its2 <- items (snd kv) ;;
             foldM (fun a kv2 =>
                      if is_child_key (fst kv2) then
                        if truthy (snd kv2) then
                          t <- sidx "type" (snd kv2) ;;
                          if contains "associationend" (lower t) then
                            its3 <- items (snd kv2) ;;
                            foldM (fun a kv3 =>
                                     a1 <- (if is_child_key (fst kv3) then assoc_end_step g a (snd kv3) else Some a) ;;
                                     assoc_readonly a1 (snd kv3)) its3 a
                          else Some a
                        else Some a
                      else Some a) its2 a'
           else Some a') its
        {| as_id := ve_id v; as_name := ve_name v; as_type := "Association"; as_comment := "";
           as_from := ""; as_from_id := ""; as_from_vis := "private"; as_from_static := false; as_from_const := false;
           as_from_mult := "0..1"; as_from_getter := false; as_from_setter := false;
           as_to := ""; as_to_id := ""; as_to_vis := "private"; as_to_static := false; as_to_const := false;
           as_to_mult := "0..1"; as_to_getter := false; as_to_setter := false |}.

(* ---------------------------------------------------------------- ClassDiagram.LoadAndTest *)

Definition load_elem (g : string -> option velem) (P : velem -> option pv) (acc : option rdiagram) (e : delem) : option rdiagram :=
  d <- acc ;;
  mid <- de_model e ;;
  v <- g mid ;;
  let t := ve_type v in
  if String.eqb t "Class" then c <- parse_class g P v ;;
    Some {| rd_classes := upsert String.eqb (ve_id v) c (rd_classes d); rd_packages := rd_packages d; rd_assocs := rd_assocs d; rd_inhs := rd_inhs d |}
  else if String.eqb t "Package" then p <- parse_package P v ;;
    Some {| rd_classes := rd_classes d; rd_packages := upsert String.eqb (ve_id v) p (rd_packages d); rd_assocs := rd_assocs d; rd_inhs := rd_inhs d |}
  else if String.eqb t "Association" then a <- parse_association g P v ;;
    Some {| rd_classes := rd_classes d; rd_packages := rd_packages d; rd_assocs := upsert String.eqb (ve_id v) a (rd_assocs d); rd_inhs := rd_inhs d |}
  else if String.eqb t "Realization" || String.eqb t "Generalization" then i <- parse_inheritance g P v (String.eqb t "Realization") ;;
    Some {| rd_classes := rd_classes d; rd_packages := rd_packages d; rd_assocs := rd_assocs d; rd_inhs := upsert String.eqb (ve_id v) i (rd_inhs d) |}
  else Some d.                                              (* Usage: pass ; anything else: printed *)

Definition set_ns (c : rclass) (ns : string) : rclass :=
  {| rc_id := rc_id c; rc_name := rc_name c; rc_ns := ns; rc_pure := rc_pure c; rc_autogen := rc_autogen c; rc_enum := rc_enum c;
     rc_struct := rc_struct c; rc_packed := rc_packed c; rc_comment := rc_comment c; rc_literals := rc_literals c;
     rc_ops := rc_ops c; rc_attrs := rc_attrs c |}.

Fixpoint removelast_str (l : list string) : list string :=
  match l with [] => [] | [_] => [] | x :: r => x :: removelast_str r end.

(* namespaces from the package chain: for every package, for every class path 'pkg:...:pkg:class' it holds *)
Definition namespaces (d : rdiagram) : option (list (string * rclass)) :=
  foldM (fun cls kp =>
           foldM (fun cls path =>
                    let parts := split_on ":" path in
                    ns <- foldM (fun acc pid => p <- lookup String.eqb pid (rd_packages d) ;; Some (acc ++ rk_name p ++ "::")) (removelast_str parts) "" ;;
                    let ns' := rstrip_char ":" ns in
                    match lookup String.eqb (last_of parts) cls with
                    | Some c => Some (upsert String.eqb (last_of parts) (set_ns c ns') cls)
                    | None => Some cls
                    end) (rk_classes (snd kp)) cls)
        (rd_packages d) (rd_classes d).

(* Inheritance.PostProjectParseFix *)
Definition fix_inh (cls : list (string * rclass)) (i : rinh) : rinh :=
  {| ri_id := ri_id i; ri_real := ri_real i;
     ri_from := match lookup String.eqb (ri_from_id i) cls with Some c => rc_ns c ++ "::" ++ rc_name c | None => ri_from i end;
     ri_from_id := ri_from_id i;
     ri_to := match lookup String.eqb (ri_to_id i) cls with Some c => rc_ns c ++ "::" ++ rc_name c | None => ri_to i end;
     ri_to_id := ri_to_id i |}.

Definition class_diagrams (ds : list diag) : list (string * string) :=
  fold_left (fun acc d => if String.eqb (dg_type d) "ClassDiagram" then upsert String.eqb (dg_id d) (dg_name d) acc else acc) ds [].

(* the diagram loaded from its shapes, with [g] = GetModelElement and [P] = ParseBLOB_Recursive of an element's blob *)
Definition load_gen (g : string -> option velem) (P : velem -> option pv) (elems : list delem) : option rdiagram :=
  r <- fold_left (load_elem g P) elems (Some {| rd_classes := []; rd_packages := []; rd_assocs := []; rd_inhs := [] |}) ;;
  cls <- namespaces r ;;
  Some {| rd_classes := cls; rd_packages := rd_packages r; rd_assocs := rd_assocs r;
          rd_inhs := map (fun ki => (fst ki, fix_inh cls (snd ki))) (rd_inhs r) |}.

Definition blob_of (v : velem) : option pv := parse_blob (ve_blobstr v).

(* vppclassdiagram.ExtractClassDiagram(name, path) *)
Definition load_cdiagram (d : db) (name : string) : option rdiagram :=
  did <- id_from_name (class_diagrams (db_diagrams d)) name ;;
  load_gen (get_model_element (db_melems d)) blob_of (diagram_elements (db_delems d) did).

(* ---------------------------------------------------------------- rendering helpers of LanguageCPP (D) *)

(* int(s) for the multiplicity texts: optional white space, optional sign, ASCII digits (no '_' grouping, ASCII only) *)
Fixpoint digits_val (s : string) (acc : nat) : option nat :=
  match s with
  | EmptyString => Some acc
  | String c r => let n := nat_of_ascii c in
                  if Nat.leb 48 n && Nat.leb n 57 then digits_val r (acc * 10 + (n - 48)) else None
  end.
Definition parse_int (s : string) : option (bool * nat) :=        (* (negative, magnitude) *)
  match py_strip s with
  | EmptyString => None
  | String c r =>
      if Ascii.eqb c "-" then (match r with EmptyString => None | _ => v <- digits_val r 0 ;; Some (negb (Nat.eqb v 0), v) end)
      else if Ascii.eqb c "+" then (match r with EmptyString => None | _ => v <- digits_val r 0 ;; Some (false, v) end)
      else v <- digits_val (String c r) 0 ;; Some (false, v)
  end.
Definition int_str (i : bool * nat) : string := (if fst i then "-" else "") ++ dec (snd i).

(* the separator ".." of a multiplicity range *)
Definition split_dots (s : string) : list string := split2 "." "." s.

(* Class.GetContainerMultiplicityType *)
Definition container_type (m : string) : string :=
  if contains "*" m then "vector"
  else if contains "0..1" m then "none"
  else if contains ".." m then
    match parse_int (last_of (split_dots m)) with Some i => "array:" ++ int_str i | None => "vector" end
  else if contains "0" m then "none"
  else if contains "1" m then "none"
  else match parse_int m with Some i => "array:" ++ int_str i | None => "none" end.

(* LanguageCPP.GetTypeAndNameFromMultiplicityAndModifier *)
Definition type_and_name (ty modifier mult name : string) : string * string :=
  if String.eqb (py_strip modifier) "[]" && String.eqb mult "" then ("std::vector<" ++ ty ++ ">", name)
  else
    let ct := container_type mult in
    if contains "vector" ct then ("std::vector<" ++ ty ++ modifier ++ ">", name)
    else if contains "array" ct then (ty ++ modifier, name ++ "[" ++ last_of (split_on ":" ct) ++ "]")
    else (ty ++ modifier, name).

(* LanguageCPP.GetDefaultFormatFromMultiplicityAndModifier *)
Definition default_format (modifier mult dflt : string) : string :=
  if String.eqb (py_strip modifier) "[]" && String.eqb mult "" then " = {" ++ dflt ++ "}"
  else
    let ct := container_type mult in
    if contains "vector" ct then " = {" ++ dflt ++ "}"
    else if contains "array" ct then ""
    else " = " ++ dflt.

(* the abstract class diagram Model/Uml.v consumes: what harness/umlsynth.abstract computes from the objects *)
Definition render_param (p : rparam) : param :=
  let tn := type_and_name (py_strip (rp_type p)) (py_strip (rp_modifier p)) (py_strip (rp_mult p)) (py_strip (rp_name p)) in
  {| p_type := lstrip (py_strip (rp_const p) ++ " " ++ fst tn); p_name := snd tn;
     p_default := if String.eqb (py_strip (rp_default p)) "" then ""
                  else default_format (py_strip (rp_modifier p)) (py_strip (rp_mult p)) (rp_default p);
     p_ext := snd (type_and_name (py_strip (rp_type p)) (py_strip (rp_modifier p)) (py_strip (rp_mult p)) "") |}.

Definition render_op (o : rop) : oper :=
  {| o_name := ro_name o; o_vis := ro_vis o; o_ret := fst (type_and_name (ro_ret o) (ro_retmod o) "" "");
     o_params := map render_param (ro_params o); o_virtual := ro_virtual o; o_static := ro_static o; o_const := ro_const o |}.

Definition render_class (c : rclass) : cls :=
  {| c_id := rc_id c; c_name := rc_name c; c_ns := rc_ns c; c_enum := rc_enum c; c_struct := rc_struct c; c_autogen := rc_autogen c;
     c_pure := rc_pure c; c_ops := map render_op (rc_ops c) |}.

Definition to_cdiagram (r : rdiagram) : cdiagram :=
  {| classes := map (fun kc => render_class (snd kc)) (rd_classes r);
     inhs := map (fun ki => {| i_to := ri_to_id (snd ki); i_from := ri_from_id (snd ki); i_real := ri_real (snd ki) |}) (rd_inhs r) |}.

(* ---------------------------------------------------------------- the same for the C# back end (LanguageCsharp's helpers) *)

(* LanguageCsharp.GetTypeAndNameFromMultiplicityAndModifier: qualified names with dots, no pointer / reference modifiers, List<>
   for vectors, [] behind the TYPE for arrays *)
Definition type_and_name_cs (ty modifier mult name : string) : string * string :=
  let ty := replace_all "::" "." ty in
  let md := if contains "*" modifier || contains "&" modifier then "" else modifier in
  if String.eqb (py_strip md) "[]" && String.eqb mult "" then ("List<" ++ ty ++ ">", name)
  else
    let ct := container_type mult in
    if contains "vector" ct then ("List<" ++ ty ++ md ++ ">", name)
    else if contains "array" ct then (ty ++ md ++ "[]", name)
    else (ty ++ md, name).

(* a parameter as harness/umlsynth.abstract_cs computes it: ref for inout, out for out, nothing for in; the default through
   GetDefaultFormatFromMultiplicityAndModifier (the same text as in LanguageCPP, with the modifier as drawn) *)
Definition render_param_cs (p : rparam) : param :=
  let tn := type_and_name_cs (py_strip (rp_type p)) (py_strip (rp_modifier p)) (py_strip (rp_mult p)) (py_strip (rp_name p)) in
  let d := py_strip (rp_dir p) in
  {| p_type := lstrip ((if contains "inout" d then "ref " else if contains "out" d then "out " else "") ++ fst tn); p_name := snd tn;
     p_default := if String.eqb (py_strip (rp_default p)) "" then ""
                  else default_format (py_strip (rp_modifier p)) (py_strip (rp_mult p)) (rp_default p);
     p_ext := snd (type_and_name_cs (py_strip (rp_type p)) (py_strip (rp_modifier p)) (py_strip (rp_mult p)) "") |}.

Definition render_op_cs (o : rop) : oper :=
  {| o_name := ro_name o; o_vis := ro_vis o; o_ret := fst (type_and_name_cs (ro_ret o) (ro_retmod o) "" "");
     o_params := map render_param_cs (ro_params o); o_virtual := ro_virtual o; o_static := ro_static o; o_const := ro_const o |}.

Definition render_class_cs (c : rclass) : cls :=
  {| c_id := rc_id c; c_name := rc_name c; c_ns := rc_ns c; c_enum := rc_enum c; c_struct := rc_struct c; c_autogen := rc_autogen c;
     c_pure := rc_pure c; c_ops := map render_op_cs (rc_ops c) |}.

Definition to_cdiagram_cs (r : rdiagram) : cdiagram :=
  {| classes := map (fun kc => render_class_cs (snd kc)) (rd_classes r);
     inhs := map (fun ki => {| i_to := ri_to_id (snd ki); i_from := ri_from_id (snd ki); i_real := ri_real (snd ki) |}) (rd_inhs r) |}.

Definition adaptor_cs (d : db) (name : string) : option cdiagram := r <- load_cdiagram d name ;; Some (to_cdiagram_cs r).

(* project rows -> the diagram the generator model works on *)
Definition adaptor (d : db) (name : string) : option cdiagram := r <- load_cdiagram d name ;; Some (to_cdiagram r).
