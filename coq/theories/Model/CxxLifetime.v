(* C15 -- object lifetime: the dispatcher is a DERIVED object (the user's class implements the virtual handle_dispatch)
   destroyed by an owner thread in C++ order: derived destructor body, derived members, then ~threaded_dispatcher (which
   calls shutdown(): flag, wake_up, joins).  On top of the dispatcher LTS of Model/CxxQueue.v this adds the owner's
   position in that protocol, the state of the derived part of the object (and of the vptr that selects the derived
   handle_dispatch), and the hazard: a worker performing the virtual call -- or still running the derived handler --
   when the derived part is no longer alive.  [calls_shutdown] = the derived destructor calls the protected, idempotent
   shutdown() first thing (the protocol made possible by the `fix:` that introduced shutdown()).  Definitions only. *)
From Coq Require Import String List Bool Arith NArith.
From KV Require Import Model.CxxSyncIR Model.CxxQueue.
Import ListNotations.
Open Scope list_scope.

(* the derived part of the object (its members, and the vptr entry for handle_dispatch) *)
Inductive dpart :=
| PartAlive        (* fully constructed, not yet touched by the destructor *)
| PartDying        (* the derived destructor body (after a leading shutdown(), if any) and the derived members are being destroyed *)
| PartDead.        (* ~threaded_dispatcher has been entered: the vptr points at the base class, handle_dispatch is pure *)

(* where the owner is in `delete derived_object` *)
Inductive opc :=
| OAlive           (* has not started *)
| OShut1           (* inside the derived destructor, executing its leading shutdown() -- only when calls_shutdown *)
| OTear            (* about to begin the derived teardown *)
| OMembers         (* derived teardown in progress; next: enter ~threaded_dispatcher *)
| OShut2           (* inside ~threaded_dispatcher, executing shutdown() for the first time *)
| OAgain1          (* inside ~threaded_dispatcher, executing shutdown() AGAIN: about to store the flag once more *)
| OAgain2          (* ... about to wake the queue once more; no thread is joinable any more *)
| ODone.

Record lst := mkL {
  base : st;               (* queue, flags, workers, producers, the shutdown() hand-shake (field d) *)
  own : opc;
  part : dpart;
  hazard : bool            (* a virtual call / a running derived handler met a derived part that was not alive *)
}.

Definition handling (w : wpc) : bool := match w with WHandling _ => true | _ => false end.

(* worker w is about to perform the virtual call handle_dispatch(item): it holds an item and reads the flag as false *)
Definition is_vcall (s : st) (w : nat) : bool :=
  match nth_error (workers s) w with Some (WGot _) => negb (shutting s) | _ => false end.

Definition alive (p : dpart) : bool := match p with PartAlive => true | _ => false end.

(* shutdown() as executed by the owner: the destroyer steps of the base LTS until the joins have returned; a call on
   an already shut-down dispatcher changes nothing (flag already set, queue already woken, no thread joinable) *)
Definition shutdown_done (s : st) : bool := match d s with DJoined => true | _ => false end.

Definition lstep (calls_shutdown : bool) (t : tid) (l : lst) : option lst :=
  match t with
  | TProd _ =>
      match own l with                          (* contract: nobody dispatches once the owner has begun to destroy *)
      | OAlive => match step t (base l) with Some b => Some (mkL b (own l) (part l) (hazard l)) | None => None end
      | _ => None
      end
  | TWorker w =>
      match step t (base l) with
      | Some b => Some (mkL b (own l) (part l) (hazard l || (is_vcall (base l) w && negb (alive (part l)))))
      | None => None
      end
  | TDestroy =>
      match own l with
      | OAlive => Some (mkL (base l) (if calls_shutdown then OShut1 else OTear) (part l) (hazard l))
      | OShut1 =>      (* flag, wake_up, one join per worker; when the last join has returned the derived teardown is next *)
          match step TDestroy (base l) with
          | Some b => Some (mkL b (if shutdown_done b then OTear else OShut1) (part l) (hazard l))
          | None => None
          end
      | OTear =>       (* the derived teardown begins under whatever the workers are doing *)
          Some (mkL (base l) OMembers PartDying (hazard l || existsb handling (workers (base l))))
      | OMembers =>    (* ~threaded_dispatcher is entered: vptr := base; it calls shutdown() (again) *)
          Some (mkL (base l) (if shutdown_done (base l) then OAgain1 else OShut2) PartDead
                    (hazard l || existsb handling (workers (base l))))
      | OShut2 =>
          match step TDestroy (base l) with
          | Some b => Some (mkL b (if shutdown_done b then ODone else OShut2) (part l) (hazard l))
          | None => None
          end
      | OAgain1 => Some (mkL (base l) OAgain2 (part l) (hazard l))   (* the flag is already set *)
      | OAgain2 => Some (mkL (base l) ODone (part l) (hazard l))     (* the queue is already woken, nothing to join *)
      | ODone => None
      end
  end.

Definition linit (m : nat) (scripts : list (list N)) : lst := mkL (init m scripts) OAlive PartAlive false.

Inductive lreach (cs : bool) (m : nat) (scripts : list (list N)) : lst -> Prop :=
| lreach_init : lreach cs m scripts (linit m scripts)
| lreach_step : forall l t l', lreach cs m scripts l -> lstep cs t l = Some l' -> lreach cs m scripts l'.

Fixpoint lrun (cs : bool) (sc : list tid) (l : lst) : lst :=
  match sc with [] => l | t :: r => match lstep cs t l with Some l' => lrun cs r l' | None => lrun cs r l end end.

(* the schedule-replay view: what moved, and who can move afterwards *)
Definition lall_tids (l : lst) : list tid := all_tids (base l).
Definition lenabled (cs : bool) (l : lst) : list tid :=
  filter (fun t => match lstep cs t l with Some _ => true | None => false end) (lall_tids l).
