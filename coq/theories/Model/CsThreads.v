(* The THREADED configuration of the generated C# machine as a small labelled transition system, interpreting the IR that
   translator/cstmpl.py derives from the templates (Gen/CsTmpl.v: cs_trigger_thr_ir, cs_dispatch_loop_ir):
     one producer that calls Trigger<e> for the events of a list in order (each IR statement one atomic step),
     the dispatch thread that runs the loop body for ever (each IR statement one atomic step; WaitOne is enabled only
     when the auto-reset signal is set and resets it; a successful TryDequeue hands the event to the current state
     object's Trigger<e>, i.e. the non-threaded step cs_trigger of Model/CsSM.v, in the dispatch thread -- producers touch
     only the queue and the signal, so running the handler atomically loses no interleaving of observable actions),
     a schedule = list of choices (true: producer, false: dispatcher); a choice of a thread that is not enabled stutters.
   No proofs here. *)
From Coq Require Import String List Bool Arith.
From KV Require Import Lib.TableDef Model.TTable Model.CsShape Spec.TableInterp Gen.CsTmpl Model.CsSM.
Import ListNotations.
Open Scope string_scope.

Record tst := mkT {
  t_pend : list string;               (* events the producer has still to Trigger; the head is in progress when t_ppc > 0 *)
  t_ppc : nat;                        (* position inside Trigger<head> *)
  t_q : list string;                  (* dispatchQ *)
  t_sig : bool;                       (* the auto-reset signal (if the templates use one) *)
  t_dpc : nat;                        (* position inside the loop body *)
  t_m : csst;                         (* the machine *)
  t_out : list (list cb * string)     (* per handled event: callbacks, estate afterwards *)
}.

Definition next_pc (len pc : nat) : nat := if Nat.eqb (S pc) len then 0 else S pc.

Definition pstep (s : tst) : option tst :=
  match t_pend s with
  | [] => None
  | e :: rest =>
      let done := Nat.leb (length cs_trigger_thr_ir) (S (t_ppc s)) in
      let pend' := if done then rest else t_pend s in
      let ppc' := if done then 0 else S (t_ppc s) in
      match nth_error cs_trigger_thr_ir (t_ppc s) with
      | Some QEnqueue => Some (mkT pend' ppc' (t_q s ++ [e]) (t_sig s) (t_dpc s) (t_m s) (t_out s))
      | Some QSet => Some (mkT pend' ppc' (t_q s) true (t_dpc s) (t_m s) (t_out s))
      | Some _ => None
      | None => Some (mkT rest 0 (t_q s) (t_sig s) (t_dpc s) (t_m s) (t_out s))
      end
  end.

Definition dstep (t : table) (gv : gval) (s : tst) : option tst :=
  let dpc' := next_pc (length cs_dispatch_loop_ir) (t_dpc s) in
  match nth_error cs_dispatch_loop_ir (t_dpc s) with
  | Some QWaitOne => if t_sig s then Some (mkT (t_pend s) (t_ppc s) (t_q s) false dpc' (t_m s) (t_out s)) else None
  | Some QSleep => Some (mkT (t_pend s) (t_ppc s) (t_q s) (t_sig s) dpc' (t_m s) (t_out s))
  | Some QTryDequeueDispatch =>
      match t_q s with
      | [] => Some (mkT (t_pend s) (t_ppc s) [] (t_sig s) dpc' (t_m s) (t_out s))
      | e :: q' =>
          match cs_trigger t gv e (t_m s) with
          | (_, tr, m') => Some (mkT (t_pend s) (t_ppc s) q' (t_sig s) dpc' m' (t_out s ++ [(tr, c_enum m')]))
          end
      end
  | _ => None
  end.

Definition tstep (t : table) (gv : gval) (s : tst) (producer : bool) : tst :=
  match (if producer then pstep s else dstep t gv s) with Some s' => s' | None => s end.

Definition trun (t : table) (gv : gval) (sched : list bool) (s : tst) : tst := fold_left (tstep t gv) sched s.

(* the machine after its constructor (which starts the dispatch thread), with the events to trigger *)
Definition tinit (t : table) (evs : list string) : tst :=
  match cs_ctor startup_event (getfirststate t) (mkCs "" "" 0 false false) with
  | (_, tr, m) => mkT evs 0 [] false 0 m [(tr, c_enum m)]
  end.

Definition count_choice (b : bool) (sched : list bool) : nat := length (filter (Bool.eqb b) sched).
