(* The generated C# state classes as token sequences:
     cs_classes t         the state classes that are generated (PER_STATETRANSITION ranges over transitionsperstate);
     cs_handlers t s      the events for which class s overrides Trigger<Event> (PER_EVENTTRANSITION);
     cs_handler t s e     the body of that override: per row of (s, e), in table order, the lines of the
                          PER_GUARDTRANSITION block (shape from Gen/CsTmpl.v) with the lines whose guard / action /
                          target tag has no value dropped (smgen.innerexpand_transitionsperguard);
     parse_braces         brace matching: `if (g)` must be followed by a `{ ... }` block, a bare `{ ... }` is a block;
     exec_h               the helper methods Enter<StateT>() / Exit<StateT>() / Reset() / the constructor, executed from their
                          source-derived IR (Gen/CsTmpl.v): state object creation, the virtual OnEntry / OnExit of the
                          CURRENT state object (null or an unset controller raise), early returns, state-is-T tests;
     exec_cs              execution of a parsed handler body: sm.Exit<S>() / sm.Enter<T>() run those helpers,
                          `sm.estate = T` sets the enum that Is<State>() reads, `return` leaves the handler;
     run_cs               construction, then Trigger<e> per event dispatched to the current state object's class.
   No proofs here. *)
From Coq Require Import String Ascii List Bool Arith.
From KV Require Import Lib.TableDef Model.TTable Model.CsShape Spec.TableInterp Gen.CsTmpl.
Import ListNotations.
Open Scope string_scope.

Inductive ctok := TIf (g : string) | TOpen | TClose | TExit (s : string) | TAction (a : string) | TEnter (s : string)
                | TSetState (s : string) | TReturn.

Definition cs_inst (r : row) (k : ck) : list ctok :=
  match k with
  | CkIfGuard => match opt (r_guard r) with Some g => [TIf g] | None => [] end
  | CkOpen => [TOpen]
  | CkClose => [TClose]
  | CkExit => match opt (r_next r) with Some _ => [TExit (r_src r)] | None => [] end
  | CkAction => match opt (r_act r) with Some a => [TAction a] | None => [] end
  | CkEnter => match opt (r_next r) with Some n => [TEnter n] | None => [] end
  | CkSetState => match opt (r_next r) with Some n => [TSetState n] | None => [] end
  | CkReturn => [TReturn]
  end.

Definition cs_row (r : row) : list ctok := flat_map (cs_inst r) cs_pgt.
Definition cs_handler (t : table) (s e : string) : list ctok := flat_map cs_row (trans_of t s e).
Definition cs_classes (t : table) : list string := tps_states t.
Definition cs_handlers (t : table) (s : string) : list string := events_of t s.

Inductive cstmt := CAtom (a : ctok) | CIf (g : string) (body : list cstmt) | CBlock (body : list cstmt).

(* statements up to the closing brace of the enclosing block (not consumed) or the end *)
Fixpoint parse_cs (fuel : nat) (ts : list ctok) : option (list cstmt * list ctok) :=
  match fuel with
  | 0 => None
  | S f =>
      match ts with
      | [] => Some ([], [])
      | TClose :: _ => Some ([], ts)
      | TOpen :: r =>
          match parse_cs f r with
          | Some (body, TClose :: r') =>
              match parse_cs f r' with Some (ss, r'') => Some (CBlock body :: ss, r'') | None => None end
          | _ => None
          end
      | TIf g :: TOpen :: r =>
          match parse_cs f r with
          | Some (body, TClose :: r') =>
              match parse_cs f r' with Some (ss, r'') => Some (CIf g body :: ss, r'') | None => None end
          | _ => None
          end
      | TIf _ :: _ => None
      | a :: r => match parse_cs f r with Some (ss, r'') => Some (CAtom a :: ss, r'') | None => None end
      end
  end.

Definition parse_braces (ts : list ctok) : option (list cstmt) :=
  match parse_cs (S (length ts)) ts with Some (ss, []) => Some ss | _ => None end.

(* machine state: current state object ("" = null), estate enum, guard calls, controller set?, exception raised? *)
Record csst := mkCs { c_obj : string; c_enum : string; c_n : nat; c_ctl : bool; c_err : bool }.
Definition cres := (bool * list cb * csst)%type.    (* returned?, callbacks, state *)

Definition cseq (r1 : cres) (k : csst -> cres) : cres :=
  match r1 with
  | (false, t1, m1) => match k m1 with (b, t2, m2) => (b, (t1 ++ t2)%list, m2) end
  | other => other
  end.

Definition raise (m : csst) : cres := (true, [], mkCs (c_obj m) (c_enum m) (c_n m) (c_ctl m) true).  (* NullReferenceException *)
Definition as_call_cs (r : cres) : cres := match r with (_, t, m) => (c_err m, t, m) end.   (* a call returns; an exception propagates *)

(* ---- the helper methods of the state-machine class, from their IR (Gen/CsTmpl.v) *)
Section Helpers.
  Variable e : string.                          (* label of the callbacks: the event being handled / the startup event *)
  Variable first : string.                      (* <<<STATE_0>>> *)
  Variables (enter_first reset : csst -> cres). (* the methods a helper may call *)

  (* state.OnEntry(controller) / OnExit: virtual call on the current state object, whose class calls context.On<class>Entry/Exit *)
  Definition hook (entry : bool) (m : csst) : cres :=
    if c_ctl m && negb (String.eqb (c_obj m) "") then (false, [if entry then CEntry (c_obj m) e else CExit (c_obj m) e], m)
    else raise m.

  Fixpoint exec_h1 (t : string) (s : hstmt) (m : csst) {struct s} : cres :=
    match s with
    | HNewState => (false, [], mkCs t (c_enum m) (c_n m) (c_ctl m) (c_err m))
    | HOnEntry => hook true m
    | HOnExit => hook false m
    | HReturn => (true, [], m)
    | HIfStateIsT body =>
        if String.eqb (c_obj m) t
        then (fix go (ss : list hstmt) (m : csst) : cres :=
                match ss with [] => (false, [], m) | x :: r => cseq (exec_h1 t x m) (go r) end) body m
        else (false, [], m)
    | HSetController => (false, [], mkCs (c_obj m) (c_enum m) (c_n m) true (c_err m))
    | HCallReset => as_call_cs (reset m)
    | HEnterFirst => as_call_cs (enter_first m)
    | HSetEstateFirst => (false, [], mkCs (c_obj m) first (c_n m) (c_ctl m) (c_err m))
    end.

  Fixpoint exec_h (t : string) (ss : list hstmt) (m : csst) : cres :=
    match ss with [] => (false, [], m) | s :: r => cseq (exec_h1 t s m) (exec_h t r) end.
End Helpers.

Definition no_call (m : csst) : cres := raise m.
Definition cs_enter (e t : string) (m : csst) : cres := as_call_cs (exec_h e "" no_call no_call t cs_enter_ir m).
Definition cs_exit (e t : string) (m : csst) : cres := as_call_cs (exec_h e "" no_call no_call t cs_exit_ir m).
Definition cs_reset (e first : string) (m : csst) : cres := exec_h e first (cs_enter e first) no_call "" cs_reset_ir m.
Definition cs_ctor (e first : string) (m : csst) : cres := exec_h e first no_call (cs_reset e first) "" cs_ctor_ir m.

Section ExecCs.
  Variable gv : gval.
  Variable e : string.

  Definition exec_ctok (a : ctok) (m : csst) : cres :=
    match a with
    | TReturn => (true, [], m)
    | TExit s => cs_exit e s m                              (* sm.Exit<s>() *)
    | TAction x => (false, [CAction x e], m)
    | TEnter s => cs_enter e s m                            (* sm.Enter<s>() *)
    | TSetState s => (false, [], mkCs (c_obj m) s (c_n m) (c_ctl m) (c_err m))
    | _ => (false, [], m)
    end.

  Fixpoint exec_cstmt (s : cstmt) (m : csst) : cres :=
    let go := fix go (ss : list cstmt) (m : csst) : cres :=
                match ss with [] => (false, [], m) | x :: r => cseq (exec_cstmt x m) (go r) end in
    match s with
    | CAtom a => exec_ctok a m
    | CBlock body => go body m
    | CIf g body =>
        if gv (c_n m) g then cseq (false, [CGuard g e], mkCs (c_obj m) (c_enum m) (S (c_n m)) (c_ctl m) (c_err m)) (go body)
        else (false, [CGuard g e], mkCs (c_obj m) (c_enum m) (S (c_n m)) (c_ctl m) (c_err m))
    end.

  Fixpoint exec_cs (ss : list cstmt) (m : csst) : cres :=
    match ss with [] => (false, [], m) | x :: r => cseq (exec_cstmt x m) (exec_cs r) end.
End ExecCs.

(* ---- the whole machine: construction, then Trigger<e> per event (non-threaded: the current state object's
   Trigger<e> runs synchronously; a class without an override inherits the base class's empty virtual) *)
Definition cs_trigger (t : table) (gv : gval) (e : string) (m : csst) : cres :=
  if cs_trigger_dispatches_synchronously && mem e (cs_handlers t (c_obj m)) then
    match parse_braces (cs_handler t (c_obj m) e) with
    | Some prog => as_call_cs (exec_cs gv e prog m)
    | None => raise m
    end
  else if cs_trigger_dispatches_synchronously then (false, [], m) else raise m.

Fixpoint cs_run_from (t : table) (gv : gval) (m : csst) (evs : list string) : option (list (list cb * string)) :=
  match evs with
  | [] => Some []
  | e :: r =>
      match cs_trigger t gv e m with
      | (_, tr, m') =>
          if c_err m' then None
          else match cs_run_from t gv m' r with Some rest => Some ((tr, c_enum m') :: rest) | None => None end
      end
  end.

(* per step: the callbacks, and the value of estate (what every Is<State>() reads) *)
Definition run_cs (t : table) (evs : list string) (gv : gval) : option (list (list cb * string)) :=
  match cs_ctor startup_event (getfirststate t) (mkCs "" "" 0 false false) with
  | (_, tr, m) =>
      if c_err m then None
      else match cs_run_from t gv m evs with Some rest => Some ((tr, c_enum m) :: rest) | None => None end
  end.
