(* The generated C# state classes as token sequences:
     cs_classes t         the state classes that are generated (PER_STATETRANSITION ranges over transitionsperstate);
     cs_handlers t s      the events for which class s overrides Trigger<Event> (PER_EVENTTRANSITION);
     cs_handler t s e     the body of that override: per row of (s, e), in table order, the lines of the
                          PER_GUARDTRANSITION block (shape from Gen/CsTmpl.v) with the lines whose guard / action /
                          target tag has no value dropped (smgen.innerexpand_transitionsperguard);
     parse_braces         brace matching: `if (g)` must be followed by a `{ ... }` block, a bare `{ ... }` is a block;
     exec_cs              execution of a parsed body: Exit<S>() calls On<cur>Exit of the current state object, Enter<T>()
                          makes T the current state object and calls On<T>Entry, `sm.estate = T` sets the enum that
                          Is<State>() reads, `return` leaves the handler.
   No proofs here. *)
From Coq Require Import String Ascii List Bool Arith.
From KV Require Import Lib.TableDef Model.TTable Model.CsShape Spec.TableInterp Gen.CsTmpl.
Import ListNotations.
Open Scope string_scope.

Inductive ctok := TIf (g : string) | TOpen | TClose | TExit (s : string) | TAction (a : string) | TEnter (s : string)
                | TSetState (s : string) | TReturn.

Definition cs_inst (r : row) (k : ck) : list ctok :=
  match k with
  | CkIfGuard => match opt (r_guard r) with Some g => [TIf g] | None => [] end
  | CkOpen => [TOpen]
  | CkClose => [TClose]
  | CkExit => match opt (r_next r) with Some _ => [TExit (r_src r)] | None => [] end
  | CkAction => match opt (r_act r) with Some a => [TAction a] | None => [] end
  | CkEnter => match opt (r_next r) with Some n => [TEnter n] | None => [] end
  | CkSetState => match opt (r_next r) with Some n => [TSetState n] | None => [] end
  | CkReturn => [TReturn]
  end.

Definition cs_row (r : row) : list ctok := flat_map (cs_inst r) cs_pgt.
Definition cs_handler (t : table) (s e : string) : list ctok := flat_map cs_row (trans_of t s e).
Definition cs_classes (t : table) : list string := tps_states t.
Definition cs_handlers (t : table) (s : string) : list string := events_of t s.

Inductive cstmt := CAtom (a : ctok) | CIf (g : string) (body : list cstmt) | CBlock (body : list cstmt).

(* statements up to the closing brace of the enclosing block (not consumed) or the end *)
Fixpoint parse_cs (fuel : nat) (ts : list ctok) : option (list cstmt * list ctok) :=
  match fuel with
  | 0 => None
  | S f =>
      match ts with
      | [] => Some ([], [])
      | TClose :: _ => Some ([], ts)
      | TOpen :: r =>
          match parse_cs f r with
          | Some (body, TClose :: r') =>
              match parse_cs f r' with Some (ss, r'') => Some (CBlock body :: ss, r'') | None => None end
          | _ => None
          end
      | TIf g :: TOpen :: r =>
          match parse_cs f r with
          | Some (body, TClose :: r') =>
              match parse_cs f r' with Some (ss, r'') => Some (CIf g body :: ss, r'') | None => None end
          | _ => None
          end
      | TIf _ :: _ => None
      | a :: r => match parse_cs f r with Some (ss, r'') => Some (CAtom a :: ss, r'') | None => None end
      end
  end.

Definition parse_braces (ts : list ctok) : option (list cstmt) :=
  match parse_cs (S (length ts)) ts with Some (ss, []) => Some ss | _ => None end.

(* machine state: current state object, estate enum, guard calls *)
Record csst := mkCs { c_obj : string; c_enum : string; c_n : nat }.
Definition cres := (bool * list cb * csst)%type.    (* returned?, callbacks, state *)

Section ExecCs.
  Variable gv : gval.
  Variable e : string.

  Definition exec_ctok (a : ctok) (m : csst) : cres :=
    match a with
    | TReturn => (true, [], m)
    | TExit _ => (false, [CExit (c_obj m) e], m)            (* state.OnExit(controller): the CURRENT state object *)
    | TAction x => (false, [CAction x e], m)
    | TEnter s => (false, [CEntry s e], mkCs s (c_enum m) (c_n m))
    | TSetState s => (false, [], mkCs (c_obj m) s (c_n m))
    | _ => (false, [], m)
    end.

  Definition cseq (r1 : cres) (k : csst -> cres) : cres :=
    match r1 with
    | (false, t1, m1) => match k m1 with (b, t2, m2) => (b, (t1 ++ t2)%list, m2) end
    | other => other
    end.

  Fixpoint exec_cstmt (s : cstmt) (m : csst) : cres :=
    let go := fix go (ss : list cstmt) (m : csst) : cres :=
                match ss with [] => (false, [], m) | x :: r => cseq (exec_cstmt x m) (go r) end in
    match s with
    | CAtom a => exec_ctok a m
    | CBlock body => go body m
    | CIf g body =>
        if gv (c_n m) g then cseq (false, [CGuard g e], mkCs (c_obj m) (c_enum m) (S (c_n m))) (go body)
        else (false, [CGuard g e], mkCs (c_obj m) (c_enum m) (S (c_n m)))
    end.

  Fixpoint exec_cs (ss : list cstmt) (m : csst) : cres :=
    match ss with [] => (false, [], m) | x :: r => cseq (exec_cstmt x m) (exec_cs r) end.
End ExecCs.
