(* Model of XKoJen::IConnection (kojen/allplatforms/CPP/IConnection.cpp, the non-__arm__ branch):
   ResetFragmentation, FindPreamble, PutIntoFragmentBuffer, HandleFragmentedData, HandleUnfragmentedData, OnDataReceived.
   One definition per C++ function, same state variables (m_fragment_buffer, m_fragment_buffer_bytes_required), same branch
   order.  `count` is the length of the data list (the C++ parameter is a uint32, so callers can only pass lengths < 2^32:
   the theorems carry that as a hypothesis on every chunk); every uint32 local is written with its wrap-around (w32 / sub32).
   The mutual recursion OnDataReceived -> Handle* -> OnDataReceived is a fuelled fixpoint; reads outside the data array,
   a failing assert and exhausted fuel (= the C++ recursion does not terminate) are explicit outcomes.
   No proofs here (Proofs/Conn*.v). *)
From Coq Require Import String Ascii List Bool Arith NArith ZArith.
From KV Require Import Lib.Str Lib.ByteSeq Gen.CxxConn.
Import ListNotations.
Open Scope N_scope.
Open Scope list_scope.

Record state := mkSt { buf : list byte;      (* m_fragment_buffer *)
                       required : N }.       (* m_fragment_buffer_bytes_required *)

Inductive failure := OutOfFuel | OutOfBounds | AssertFailed.

(* the calls OnMessageReceived(data, n) made so far (each as the n bytes passed), then how the call ended *)
Inductive outcome :=
| Done (s : state) (ds : list (list byte))
| Fail (e : failure) (ds : list (list byte)).

Definition deliver (m : list byte) (o : outcome) : outcome :=
  match o with Done s ds => Done s (m :: ds) | Fail e ds => Fail e (m :: ds) end.

Definition init : state := mkSt [] 0.
(* ResetFragmentation *)
Definition reset : state := mkSt [] 0.
(* PutIntoFragmentBuffer *)
Definition put (st : state) (bytes : list byte) : state := mkSt (buf st ++ bytes) (required st).

(* if (header->PayloadSize > 0xFFFFFFFF - SizeOfHeader): the announced payload would wrap uint32 msgSize; not a message *)
Definition oversize (payload : N) : bool := oversize_guard_bound - size_of_header <? payload.

Section Conn.
  Variables p0 p1 : byte.     (* m_receiver_preamble_0, m_receiver_preamble_1 *)

  (* FindPreamble: first i with data[i] = p0 and (data[i+1] = p1 or i is the last index) *)
  Fixpoint find_preamble_from (i : N) (data : list byte) : option N :=
    match data with
    | [] => None
    | b :: rest =>
        if Ascii.eqb b p0 then
          match rest with
          | c :: _ => if Ascii.eqb c p1 then Some i else find_preamble_from (i + 1) rest
          | [] => Some i
          end
        else find_preamble_from (i + 1) rest
    end.
  Definition find_preamble (data : list byte) : option N := find_preamble_from 0 data.

  (* assert(m_fragment_buffer[0] == m_receiver_preamble_0 && m_fragment_buffer[1] == m_receiver_preamble_1) *)
  Definition assert_ok (b : list byte) : bool :=
    match b with x :: y :: _ => Ascii.eqb x p0 && Ascii.eqb y p1 | _ => false end.

  (* HandleFragmentedData; [rec] is OnDataReceived *)
  Definition handle_fragmented (rec : state -> list byte -> outcome) (st : state) (data : list byte) : outcome :=
    let count := len data in
    let cnt := len (buf st) in
    let total := w32 (count + cnt) in
    if (cnt =? 1) && negb (Ascii.eqb (hd0 data) p1) then
      if Ascii.eqb (hd0 data) p0 then rec reset data else Done reset []
    else if required st =? 0 then
      if total <? size_of_header then Done (put st data) []
      else
        let size_to_process := sub32 size_of_header cnt in
        match slice 0 size_to_process data with
        | None => Fail OutOfBounds []
        | Some h =>
            let st1 := put st h in
            if oversize (payload_size (buf st1)) then rec reset data    (* ResetFragmentation(); OnDataReceived(data, count); return; *)
            else
            let msg_size := w32 (size_of_header + payload_size (buf st1)) in
            if total <? msg_size then
              match slice size_to_process (sub32 count size_to_process) data with
              | None => Fail OutOfBounds []
              | Some r =>
                  let st2 := put st1 r in
                  Done (mkSt (buf st2) (sub32 msg_size (len (buf st2)))) []
              end
            else
              match slice size_to_process (sub32 msg_size size_of_header) data with
              | None => Fail OutOfBounds []
              | Some r =>
                  let st2 := put st1 r in
                  let parsed := w32 (size_to_process + sub32 msg_size size_of_header) in
                  if assert_ok (buf st2) then
                    deliver (take msg_size (buf st2))
                            (if parsed <? count then rec reset (drop parsed data) else Done reset [])
                  else Fail AssertFailed []
              end
        end
    else
      if count <? required st then Done (mkSt (buf st ++ data) (sub32 (required st) count)) []
      else
        let parsed := required st in
        match slice 0 parsed data with
        | None => Fail OutOfBounds []
        | Some r =>
            let st1 := put st r in
            if assert_ok (buf st1) then
              deliver (take (w32 (len (buf st1))) (buf st1))
                      (if parsed <? count then rec reset (drop parsed data) else Done reset [])
            else Fail AssertFailed []
        end.

  (* HandleUnfragmentedData (the DEBUG_CODE lines are compiled out) *)
  Definition handle_unfragmented (rec : state -> list byte -> outcome) (st : state) (data : list byte) : outcome :=
    let count := len data in
    if count <? size_of_header then Done (put st data) []
    else if oversize (payload_size data) then rec st (drop 1 data)    (* OnDataReceived(addressof(data[1]), count - 1); return; *)
    else
      let msg_size := w32 (size_of_header + payload_size data) in
      if count <? msg_size then Done (mkSt (buf st ++ data) (sub32 msg_size count)) []
      else
        deliver (take msg_size data)
                (if msg_size <? count then rec st (drop msg_size data) else Done st []).

  (* the final if/else of OnDataReceived: fragment pending or less than a header -> HandleFragmentedData *)
  Definition handle (rec : state -> list byte -> outcome) (st : state) (actual : list byte) : outcome :=
    if (0 <? len (buf st)) || (len actual <? size_of_header)
    then handle_fragmented rec st actual
    else handle_unfragmented rec st actual.

  (* OnDataReceived with a message receiver installed *)
  Fixpoint on_data (fuel : nat) (st : state) (data : list byte) : outcome :=
    match fuel with
    | O => Fail OutOfFuel []
    | S f =>
        let count := len data in
        if count =? 0 then Done st []
        else
          if len (buf st) =? 0 then
            (* early filtering: nothing pending, look for the preamble *)
            if count =? 1 then
              if Ascii.eqb (hd0 data) p0 then handle (on_data f) st data else Done st []
            else
              match find_preamble data with
              | None => Done st []
              | Some i => handle (on_data f) st (drop i data)
              end
          else handle (on_data f) st data
    end.

  Definition fuel_for (data : list byte) : nat := 2 * length data + 2.

  (* the transport calls OnDataReceived once per chunk *)
  Fixpoint feed (st : state) (chunks : list (list byte)) : outcome :=
    match chunks with
    | [] => Done st []
    | c :: r =>
        match on_data (fuel_for c) st c with
        | Done s ds =>
            match feed s r with
            | Done s' ds' => Done s' (ds ++ ds')
            | Fail e ds' => Fail e (ds ++ ds')
            end
        | Fail e ds => Fail e ds
        end
    end.
End Conn.

(* OnDataReceived with a raw-data receiver installed (SetRawDataReceiver clears the message receiver):
   the calls IRawDataReceiver::OnDataReceived(data, count) *)
Definition on_data_raw (data : list byte) : list (list byte) :=
  if len data =? 0 then [] else [data].
Definition feed_raw (chunks : list (list byte)) : list (list byte) := flat_map on_data_raw chunks.

(* ---- input domain of the theorems (boolean, extracted, evaluated by the harness on every generated input) ---- *)
(* a chunk: its length is a uint32, and adding the at most SizeOfHeader-1 pending bytes must not wrap
   (uint32 totalFragmentedByteCount = count + m_fragment_buffer_cnt) *)
Definition chunk_ok (c : list byte) : bool := len c + size_of_header <=? 2 ^ count_bits.
Definition filler_ok (p0 : byte) (f : list byte) : bool := forallb (fun b => negb (Ascii.eqb b p0)) f.
(* a well-formed message: header (preamble, any type id, payload size) ++ exactly that many payload bytes, and the
   whole message fits the uint32 byte count of OnMessageReceived *)
Definition wf_msg (p0 p1 : byte) (m : list byte) : bool :=
  (size_of_header <=? len m) && (len m <? 2 ^ deliver_len_bits)
  && Ascii.eqb (nth 0 m zero_byte) p0 && Ascii.eqb (nth 1 m zero_byte) p1
  && (payload_size m =? len m - size_of_header).
Definition wf_item (p0 p1 : byte) (it : list byte * list byte) : bool := filler_ok p0 (fst it) && wf_msg p0 p1 (snd it).
(* F0 M1 F1 M2 ... Mn Fn *)
Definition stream_of (items : list (list byte * list byte)) (tail : list byte) : list byte :=
  flat_map (fun it => fst it ++ snd it) items ++ tail.
