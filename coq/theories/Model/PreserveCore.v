(* Executable model of kojen's code preservation (preservative.py, cgen.preserve_usercode_in_files,
   cgen.createoutput, cgen.FilePreservationSyncUtil) over ABSTRACT lines.

   The control structure of the Python loops is kept recognisable: same state variables, same
   branch order.  No proofs in this file.

   Parameters (instantiated with strings in Model/Preserve.v):
     line, key         a text line (with its terminator) / a cleaned tag name
     T                 createoutput's last filter (TAB -> 4 spaces), applied to every written line
     is_tag l          "line.find(self._TAG_PREFIX_) > -1"                  (CollectFile)
     kof l             CleanUpLine(line)
     sub_of k l        "cleaned_up_line in tagline"  (substring test of replace mode)
     kpfx k            "self._TAG_PREFIX_ in cleaned_up_line"
     nl l              l + "\n"                                               (LostCode lines)
     key_line k        the key used as a text line (tag + "\n")
*)
From Coq Require Import List Bool.
From KV Require Import Lib.ODict.
Import ListNotations.

Section Core.
  Context {line key : Type}.
  Variable keqb : key -> key -> bool.
  Variable T : line -> line.
  Variable is_tag : line -> bool.
  Variable kof : line -> key.
  Variable sub_of : key -> line -> bool.
  Variable kpfx : key -> bool.

  Definition tags := list (key * list line).

  (* ------------------------------------------------------------------ CollectFile *)
  Record cstate := mkC {
    c_preserving : bool;
    c_key : key;                (* __current_preservation_line (meaningful when preserving) *)
    c_cur : list line;          (* __current_preservation *)
    c_acc : tags                (* preserved_tags_per_file[filename] *)
  }.

  Definition collect_step (s : cstate) (l : line) : cstate :=
    let tag_found := is_tag l in
    if c_preserving s && tag_found then
      (* stop: store the block; tag_found := False so neither 'record' nor 'start' fires *)
      mkC false (c_key s) [] (upsert keqb (c_key s) (c_cur s) (c_acc s))
    else if c_preserving s then
      mkC true (c_key s) (c_cur s ++ [l]) (c_acc s)
    else if tag_found then
      mkC true (kof l) [] (c_acc s)
    else s.

  Definition collect_from (s : cstate) (ls : list line) : cstate := fold_left collect_step ls s.

  Definition collect_file (k0 : key) (ls : list line) : tags :=
    c_acc (collect_from (mkC false k0 [] []) ls).

  (* ------------------------------------------------------------------ Emplace (one file) *)
  Record estate := mkE {
    e_found : bool;             (* tag_found *)
    e_tagline : option line;    (* tagline ("" = None) *)
    e_out : list line;          (* new_lines *)
    e_used : list key           (* keys whose WAS_USED became True, in order of use *)
  }.

  Definition emplace_step (replace : bool) (tg : tags) (s : estate) (l : line) : estate :=
    let c := kof l in
    let keep :=
      negb replace ||
      (negb (e_found s) ||
       ((match e_tagline s with Some tl => sub_of c tl | None => false end) && kpfx c)) in
    let out1 := if keep then e_out s ++ [l] else e_out s in
    match lookup keqb c tg with
    | Some body =>
        if negb (e_found s) then mkE true (Some l) (out1 ++ body) (e_used s ++ [c])
        else mkE false None out1 (e_used s)
    | None => mkE (e_found s) (e_tagline s) out1 (e_used s)
    end.

  Definition emplace_lines (replace : bool) (tg : tags) (ls : list line) : list line * list key :=
    let s := fold_left (emplace_step replace tg) ls (mkE false None [] []) in
    (e_out s, e_used s).

  Definition memk (k : key) (ks : list key) : bool := existsb (keqb k) ks.

  (* ------------------------------------------------------------------ LostCode *)
  Variable nl : line -> line.
  Variable key_line : key -> line.
  Variable path_line : line.          (* outputfile + "\n" *)
  Variable sep_line : line.           (* "-----...-----\n" *)

  Definition lost_entry (k : key) (body : list line) : list line :=
    [path_line; key_line k] ++ map nl body ++ [key_line k; sep_line].

  Fixpoint lost_code (used : list key) (tg : tags) : list line :=
    match tg with
    | [] => []
    | (k, body) :: r =>
        (if memk k used then [] else match body with [] => [] | _ => lost_entry k body end)
        ++ lost_code used r
    end.

  (* One output file: preserve_usercode_in_files's body for one file whose old content was readable.
     Returns the new lines of the file and the lines of its LostCode pseudo-file ([] = none). *)
  Definition preserve_one (k0 : key) (fresh old : list line) : list line * list line :=
    let tg := collect_file k0 old in
    let '(out, used) := emplace_lines false tg fresh in
    (out, lost_code used tg).

  Definition written (ls : list line) : list line := map T ls.

  (* A whole regeneration of one file: old disk content -> new disk content (+ LostCode content). *)
  Definition regen_one (k0 : key) (fresh old : list line) : list line * list line :=
    let '(out, lost) := preserve_one k0 fresh old in (written out, written lost).

  (* FileSync (replace mode), destination written verbatim *)
  Definition sync_one (k0 : key) (a b : list line) : list line :=
    fst (emplace_lines true (collect_file k0 a) b).

End Core.

(* ---------------------------------------------------------------- structured files (specification side)
   A fresh file is a sequence of plain lines and adjacent open/close tag pairs. *)
Section Items.
  Context {line key : Type}.
  Variable T : line -> line.
  Variable kof : line -> key.

  Inductive item := Plain (l : line) | Pair (o c : line).

  Definition flatten (its : list item) : list line :=
    flat_map (fun it => match it with Plain l => [l] | Pair o c => [o; c] end) its.

  (* A fresh-file element that is not a tag line may be any chunk of text (several lines, or none).
     [vis l] = the lines that the written form of the chunk reads back as. *)
  Variable vis : line -> list line.

  (* What createoutput writes for a file whose tag pairs hold the blocks U (blocks as they are on disk):
     the fresh file with U's block spliced in directly after each opening tag (as written elements) *)
  Definition written_items (U : key -> list line) (its : list item) : list line :=
    flat_map (fun it => match it with
                        | Plain l => [T l]
                        | Pair o c => T o :: U (kof o) ++ [T c]
                        end) its.

  (* ... and the lines that content is read back as *)
  Definition disk (U : key -> list line) (its : list item) : list line :=
    flat_map (fun it => match it with
                        | Plain l => vis l
                        | Pair o c => T o :: U (kof o) ++ [T c]
                        end) its.

  Fixpoint pair_keys (its : list item) : list key :=
    match its with
    | [] => []
    | Plain _ :: r => pair_keys r
    | Pair o _ :: r => kof o :: pair_keys r
    end.
End Items.
Arguments item : clear implicits.
Arguments Plain {line}.
Arguments Pair {line}.
