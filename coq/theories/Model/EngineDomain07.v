(* C07, USER-tag half, for templates of the block grammar of C16: the syntactic conditions on a template (computed on the
   shipped file) and on the element names (names_ok) under which the expanded file is a well-formed fresh file
   (Preserve.wf_fresh_file).  No proofs in this file. *)
From Coq Require Import String Ascii List Bool Arith.
From KV Require Import Lib.Str Lib.StrOps Lib.ODict Gen.Tags Model.PreserveCore Model.Preserve Model.Engine Model.EngineSM
                       Model.EngineDomain Model.EngineDomain16 Spec.RefExpand Spec.RefExpand16.
Import ListNotations.
Open Scope string_scope.
Open Scope list_scope.

Definition LBR : ascii := chr 123.     (* { *)

(* ---------------------------------------------------------------- the lines of a block body, paired *)
Inductive sitem := SPlain (l : uline) | SPair (l : uline).       (* SPair l : the line l twice (open / close tag) *)

Definition opt_eqb (a b : option string) : bool :=
  match a, b with Some x, Some y => String.eqb x y | None, None => true | _, _ => false end.
Definition seg_eqb (a b : seg) : bool :=
  match a, b with
  | Lit x, Lit y => String.eqb x y
  | Tag n d, Tag m e => String.eqb n m && opt_eqb d e
  | _, _ => false
  end.
Fixpoint uline_eqb (a b : uline) : bool :=
  match a, b with
  | [], [] => true
  | x :: r, y :: s => seg_eqb x y && uline_eqb r s
  | _, _ => false
  end.

(* a literal piece of the line carries the USER tag prefix *)
Definition tag_lit (l : uline) : bool :=
  existsb (fun g => match g with Lit s => contains tag_prefix s | _ => false end) l.

Fixpoint shape (ls : list uline) : option (list sitem) :=
  match ls with
  | [] => Some []
  | l :: r =>
      if tag_lit l then
        match r with
        | c :: r' => if uline_eqb c l then option_map (cons (SPair l)) (shape r') else None
        | [] => None
        end
      else option_map (cons (SPlain l)) (shape r)
  end.

Definition is_lit (g : seg) : bool := match g with Lit _ => true | _ => false end.
Definition closed_line (l : uline) : bool := forallb is_lit l.

(* a line without name tags is judged as it stands *)
Definition closed_plain_ok (s : string) : bool :=
  negb (is_tag (tab4 s)) && wf_itemb (PreserveCore.Plain s) && no_char CR s && canonical s.
Definition closed_pair_ok (s : string) : bool :=
  is_tag (tab4 s) && wf_itemb (PreserveCore.Pair s s) && no_char CR s && canonical s.

(* literal pieces of a line that carries name tags *)
Definition plain_lit_ok (s : string) : bool :=
  no_char LBR s && no_char CR s && no_char LF s && no_char BSL s.
Definition pair_lit_ok (s : string) : bool :=
  no_char TAB s && no_char CR s && no_char LF s && no_char BSL s.

Definition sym_line_ok (lit_ok : string -> bool) (l : uline) : bool :=
  forallb (fun g => match g with Lit s => lit_ok s | Tag _ None => true | Tag _ (Some _) => false end) l.

Definition sitem_ok (si : sitem) : bool :=
  match si with
  | SPlain l => if closed_line l then closed_plain_ok (render_line l) else sym_line_ok plain_lit_ok l
  | SPair l => sym_line_ok pair_lit_ok l        (* tag_lit l holds by construction of shape *)
  end.

Definition body_ok07 (body : list uline) : bool :=
  match shape body with Some sis => forallb sitem_ok sis | None => false end.

(* the text lines outside blocks: tag lines come as two identical consecutive lines *)
Fixpoint texts_ok07 (t : template16) : bool :=
  match t with
  | [] => true
  | Text l :: r =>
      let s := (l ++ nl_str)%string in
      if is_tag (tab4 s) then
        match r with
        | Text l' :: r' => String.eqb l' l && closed_pair_ok s && texts_ok07 r'
        | _ => false
        end
      else closed_plain_ok s && texts_ok07 r
  | Raw s :: r =>
      negb (is_tag (tab4 s)) && wf_itemb (PreserveCore.Plain s) && no_char CR s
      && (match r with [] => true | _ => canonical s end) && texts_ok07 r
  | Block _ _ _ body :: r => body_ok07 body && texts_ok07 r
  | SigBlock _ _ body :: r => body_ok07 body && texts_ok07 r
  (* transition blocks, per-event blocks with signatures, initial-state lines and the printed transition table carry no USER tags in the
     shipped files: their output lines are judged per element record as plain lines (dyn_lines_plain below) *)
  | TransBlock _ _ _ :: r => texts_ok07 r
  | EvBlock _ _ _ :: r => texts_ok07 r
  | MsgBlock _ _ _ _ :: _ => false
  | InitLine _ :: r => texts_ok07 r
  | TableLine _ _ :: r => texts_ok07 r
  | UserLine _ :: r => texts_ok07 r          (* its output line is judged per assignment: user_lines_plain *)
  end.

(* every body line has a literal piece with a visible character (so no expanded copy is blank) *)
Definition has_ink (l : uline) : bool := existsb (fun g => match g with Lit s => negb (all_ws s) | _ => false end) l.
Definition inky (t : template16) : bool :=
  forallb (fun it => match it with Block _ _ _ body => forallb has_ink body | SigBlock _ _ body => forallb has_ink body
                         | TransBlock _ _ _ => false | EvBlock _ _ _ => false | MsgBlock _ _ _ _ => false | InitLine _ => false | TableLine _ _ => false | _ => true end) t.

Definition in_grammar07 (t : template16) : bool := texts_ok07 t && inky t.

(* the output of the lines with user tags outside blocks, under the assignment of the element record: plain, well-formed lines *)
Definition user_lines_plain (e : elements) (t : template16) : bool :=
  forallb (fun it => match it with UserLine l => closed_plain_ok (ref_line (el_user e) l) && for_plain (ref_line (el_user e) l) | _ => true end) t.

(* the items whose output carries no USER tag in any shipped file; their output lines under the element record: plain, well-formed lines *)
Definition dyn_item (it : item16) : bool :=
  match it with TransBlock _ _ _ => true | EvBlock _ _ _ => true | InitLine _ => true | TableLine _ _ => true | _ => false end.
(* such an item may put out a chunk of several lines at once (the header and first row of the transition table): a chunk of text that is empty or ends
   with LF, none of its lines a USER tag line *)
Definition chunk_end (s : string) : bool := String.eqb s "" || ends_lf s.
Definition chunk_plain_ok (s : string) : bool :=
  negb (is_tag (tab4 s)) && wf_itemb (PreserveCore.Plain s) && no_char CR s && chunk_end s.
Definition dyn_lines_plain (e : elements) (t : template16) : bool :=
  forallb (fun it => if dyn_item it then forallb chunk_plain_ok (ref_item16 e it) else true) t.

(* ---------------------------------------------------------------- the cleaned names of the USER tags of the output *)
Definition akey_seg (tb : list (string * string)) (g : seg) : string :=
  match g with
  | Lit s => kof s
  | Tag n None => match lookup String.eqb n tb with Some v => v | None => kof (render_seg g) end
  | Tag _ (Some _) => kof (render_seg g)
  end.
Definition akey (tb : list (string * string)) (l : uline) : string := String.concat "" (map (akey_seg tb) l).

Definition pair_lines (sis : list sitem) : list uline :=
  flat_map (fun si => match si with SPair l => [l] | SPlain _ => [] end) sis.

Definition block_keys {A} (tb : A -> nat -> list (string * string)) (items : list A) (body : list uline) : list string :=
  match shape body with
  | Some sis => flat_map (fun ix => map (akey (tb (snd ix) (fst ix))) (pair_lines sis)) (enumerate_from 0 items)
  | None => []
  end.

Fixpoint keys07 (e : elements) (t : template16) : list string :=
  match t with
  | [] => []
  | Text l :: r =>
      let s := (l ++ nl_str)%string in
      if is_tag (tab4 s) then match r with Text _ :: r' => kof s :: keys07 e r' | _ => [] end else keys07 e r
  | Raw _ :: r => keys07 e r
  | Block k _ _ body :: r => block_keys (table_of_kind k) (items_of e k) body ++ keys07 e r
  | SigBlock _ _ body :: r => block_keys sig_table (el_sigs e) body ++ keys07 e r
  | TransBlock _ _ _ :: r => keys07 e r
  | EvBlock _ _ _ :: r => keys07 e r
  | MsgBlock _ _ _ _ :: r => keys07 e r
  | InitLine _ :: r => keys07 e r
  | TableLine _ _ :: r => keys07 e r
  | UserLine _ :: r => keys07 e r
  end.

(* ---------------------------------------------------------------- the element names *)
Definition alnumc (c : ascii) : bool := is_upper c || is_lower c || is_digit c.
Fixpoint all_alnum (s : string) : bool := match s with EmptyString => true | String c r => alnumc c && all_alnum r end.
Definition name_ok (s : string) : bool := negb (String.eqb s "") && all_alnum s.

Definition all_names (e : elements) : list string :=
  el_states e ++ el_events e ++ el_actions e ++ el_guards e
  ++ flat_map (fun ae => [fst ae; snd ae]) (el_sigs e) ++ el_structs e ++ el_protos e ++ el_msgs e.

(* every '_'-separated piece of every fixed (closed) USER tag name of the file: an element must not be called like one *)
Fixpoint fixed_keys (t : template16) : list string :=
  match t with
  | [] => []
  | Text l :: r =>
      let s := (l ++ nl_str)%string in
      if is_tag (tab4 s) then kof s :: (match r with _ :: r' => fixed_keys r' | [] => [] end) else fixed_keys r
  | _ :: r => fixed_keys r
  end.
Definition forbidden (t : template16) : list string := flat_map (split_on USC) (fixed_keys t).

Fixpoint nodup_pairs (l : list (string * string)) : bool :=
  match l with
  | [] => true
  | x :: r => negb (existsb (fun y => String.eqb (fst y) (fst x) && String.eqb (snd y) (snd x)) r) && nodup_pairs r
  end.

Definition names_ok (t : template16) (e : elements) : bool :=
  forallb name_ok (all_names e)
  && forallb (fun n => negb (existsb (String.eqb n) (forbidden t))) (all_names e)
  && nodupb (el_states e) && nodupb (el_events e) && nodupb (el_actions e) && nodupb (el_guards e)
  && nodup_pairs (el_sigs e) && nodupb (el_structs e) && nodupb (el_protos e) && nodupb (el_msgs e)
  (* the event of a signature reads as itself (an absent event reads NONE, 'any' reads ANY) *)
  && forallb (fun ae => String.eqb (sig_event_name (snd ae)) (snd ae)) (el_sigs e).

(* no guard is named like a state hook On<State>Entry / On<State>Exit (Test.TEMPLATEStateMachine.cs: USER_<GUARD> vs USER_On<STATE>Entry) *)
Definition hooks_free (e : elements) : bool :=
  forallb (fun g => forallb (fun s => negb (String.eqb g ("On" ++ (s ++ "Entry"))) && negb (String.eqb g ("On" ++ (s ++ "Exit")))) (el_states e)) (el_guards e).

(* ---------------------------------------------------------------- the names hypothesis of the whole files TEMPLATEStateMachine.py / .h *)
(* a string without '{', backslash and CR: what a name, an oracle string and every literal piece of the template must be for the output chunks of the
   transition blocks / signature blocks / initial-state lines / transition-table line to be plain chunks (Proofs/Dyn07.v: dyn_plain_of_names) *)
Definition okc (c : ascii) : bool := negb (Ascii.eqb c LBR) && negb (Ascii.eqb c BSL) && negb (Ascii.eqb c CR).
Fixpoint clean (s : string) : bool := match s with EmptyString => true | String c r => okc c && clean r end.
Definition seg_clean (g : seg) : bool :=
  match g with Lit s => clean s | Tag n None => clean n | Tag n (Some d) => clean n && clean d end.
Definition uline_clean (l : uline) : bool := forallb seg_clean l.
Definition eitem_clean (x : eitem) : bool := match x with ELine l => uline_clean l | EGuard _ _ body => forallb uline_clean body end.
Definition titem_clean (x : titem) : bool := match x with TLine l => uline_clean l | TEvent _ _ body => forallb eitem_clean body end.
Definition dyn_item_clean (it : item16) : bool :=
  match it with
  | TransBlock _ _ body => forallb titem_clean body
  | EvBlock _ _ body => forallb uline_clean body
  | InitLine l => uline_clean l
  | TableLine pre _ => clean pre
  | _ => true
  end.
Definition dyn_ok07 (t : template16) : bool := forallb dyn_item_clean t.

Definition tb_clean (tb : list (string * string)) : bool := forallb (fun kv => clean (snd kv)) tb.
Definition dyn_names_ok (e : elements) : bool :=
  forallb clean (el_states e) && forallb clean (el_events e) && clean (el_first e)
  && forallb (fun se => clean (fst se) && forallb (fun et => clean (fst et) && forallb tb_clean (snd et)) (snd se)) (el_tps e)
  && forallb (forallb clean) (el_rows e).

(* the oracle's signature strings, as far as the template uses them: a line with <<<SIGNATURE>>> needs the signatures without defaults, a line with
   <<<SIGNATUREWITHDEFAULTS>>> those with defaults (a C++ default "={}" does not matter to a file that only asks for the plain signature) *)
Definition sig_part (d : bool) (x : string * (string * string)) : string := if d then snd (snd x) else fst (snd x).
Definition body_sigs_clean (sigs : list (string * (string * string))) (body : list uline) : bool :=
  forallb (fun l => match sig_kind l with Some d => forallb (fun x => clean (sig_part d x)) sigs | None => true end) body.
Definition sigs_clean07 (t : template16) (sigs : list (string * (string * string))) : bool :=
  forallb (fun it => match it with EvBlock _ _ body => body_sigs_clean sigs body | _ => true end) t.

(* the names hypothesis of the whole files TEMPLATEStateMachine.py / TEMPLATEStateMachine.h (their USER tags are all fixed text): every name is a
   non-empty alphanumeric word; the initial state, every name and value of the per-state transition lists, every cell of the table rows and the
   signature strings of the oracle that the template asks for are free of '{', backslash and CR -- syntactic *)
Definition names_plain (e : elements) : bool := forallb name_ok (all_names e).
Definition names_ok_x (t : template16) (e : elements) : bool := names_plain e && dyn_names_ok e && sigs_clean07 t (el_evsigs e).

(* a line that is the empty string (no newline: what the first filtering leaves of a line it empties) adds nothing to the written text; the
   file's lines without such entries *)
Definition is_empty_raw (it : item16) : bool := match it with Raw s => String.eqb s "" | _ => false end.
Definition strip (t : template16) : template16 := filter (fun it => negb (is_empty_raw it)) t.
