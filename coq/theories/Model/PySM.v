(* The generated Python state machine as an abstract program, produced the way smgen does it:
     gen_py t      expands the template shape of Gen/PyTmpl.v (PairExpander for PER_STATETRANSITION, inside it per
                   state PER_EVENTTRANSITION, inside it per event PER_GUARDTRANSITION, inside it per row the lines
                   of the block with the lines whose guard/action/target tag has no value DROPPED or replaced by
                   the tag's alternative text -- smgen.innerexpand_transitionsperstate/_transitionsperguard);
     parse_indent  Python's block rule on (indentation, statement) lines; None where CPython raises
                   IndentationError (block expected, unexpected indent, dedent matching no outer level);
     run_py        big-step execution of the parsed program: constructor, then process(event) per event, with the
                   guards answered by an oracle indexed by the number of guard calls made so far.
   No proofs here. *)
From Coq Require Import String Ascii List Bool Arith.
From KV Require Import Lib.TableDef Model.TTable Model.PyShape Spec.TableInterp Gen.PyTmpl.
Import ListNotations.
Open Scope string_scope.

Inductive patom :=
| ADef (name : string)
| AIfState (s : string) | ACallState (s : string) | AReturn
| AIfEvent (e : string) | AIfGuard (g : string) | AIfTrue
| AExit (s : string) | AAction (a : string) | AEntry (s : string) | AEntryStartup (s : string)
| ASetState (s : string) | ANoTrans | ASkip
| ABad.   (* a line that keeps an unreplaced tag: not Python *)

Definition line := (nat * patom)%type.
Definition tline := (nat * pk)%type.

(* ------------------------------------------------------------------ cgen.PairExpander.Expand *)
Section Pair.
  Variables (isb ise : tline -> bool) (keep : tline -> line) (f : list tline -> list line).
  Fixpoint pair_expand (ls : list tline) (within : bool) (snip : list tline) : list line :=
    match ls with
    | [] => []
    | l :: r =>
        let b := isb l in
        let e := ise l in
        let w := b || within in
        ((if negb w && negb e then [keep l] else []) ++
         (if w && e then f snip ++ pair_expand r false []
          else pair_expand r w (if w && negb b then snip ++ [l] else snip)))%list
    end.
End Pair.

Definition is_begin (lvl : nat) (l : tline) : bool := match snd l with KBegin n => Nat.eqb n lvl | _ => false end.
Definition is_end (lvl : nat) (l : tline) : bool := match snd l with KEnd n => Nat.eqb n lvl | _ => false end.

(* ------------------------------------------------------------------ tag replacement per nesting level *)
(* outside every block: only <<<STATE_0>>> (filterInitialState) is known *)
Definition inst0 (t : table) (l : tline) : line :=
  (fst l, match snd l with
          | KDefInit => ADef "__init__"
          | KInitEntry => AEntryStartup (getfirststate t)
          | KInitState => ASetState (getfirststate t)
          | KDefProcess => ADef "process"
          | KReturn => AReturn
          | KNoTrans => ANoTrans
          | KSkip => ASkip
          | _ => ABad
          end).

(* inside PER_STATETRANSITION: filterStateName *)
Definition inst1 (t : table) (s : string) (l : tline) : line :=
  match snd l with
  | KDefProcessState => (fst l, ADef ("process" ++ s))
  | KIfState => (fst l, AIfState s)
  | KCallState => (fst l, ACallState s)
  | _ => inst0 t l
  end.

(* inside PER_EVENTTRANSITION: filterEventName *)
Definition inst2 (t : table) (s e : string) (l : tline) : line :=
  match snd l with
  | KIfEvent => (fst l, AIfEvent e)
  | _ => inst1 t s l
  end.

(* inside PER_GUARDTRANSITION, for one row: a line whose tag has no value is dropped, or replaced by the
   alternative text of the tag at the same indentation *)
Definition inst3 (t : table) (s e : string) (r : row) (l : tline) : list line :=
  match snd l with
  | KIfGuard alt => match opt (r_guard r) with
                    | Some g => [(fst l, AIfGuard g)]
                    | None => if alt then [(fst l, AIfTrue)] else []
                    end
  | KExit => match opt (r_next r) with Some _ => [(fst l, AExit (r_src r))] | None => [] end
  | KAction => match opt (r_act r) with Some a => [(fst l, AAction a)] | None => [] end
  | KEntry => match opt (r_next r) with Some n => [(fst l, AEntry n)] | None => [] end
  | KSetState => match opt (r_next r) with Some n => [(fst l, ASetState n)] | None => [] end
  | _ => [inst2 t s e l]
  end.

Definition expand_rows (t : table) (s e : string) (snip : list tline) : list line :=
  flat_map (fun r => flat_map (inst3 t s e r) snip) (trans_of t s e).

Definition expand_events (t : table) (s : string) (snip : list tline) : list line :=
  flat_map (fun e => pair_expand (is_begin 3) (is_end 3) (inst2 t s e) (expand_rows t s e) snip false []) (events_of t s).

Definition expand_states (t : table) (snip : list tline) : list line :=
  flat_map (fun s => pair_expand (is_begin 2) (is_end 2) (inst1 t s) (expand_events t s) snip false []) (tps_states t).

Definition gen_from (tmpl : list tline) (t : table) : list line :=
  pair_expand (is_begin 1) (is_end 1) (inst0 t) (expand_states t) tmpl false [].

(* the name domain of the Python machine: no state / event / action / guard may be one of the bare module-level names the
   template itself binds or relies on (Gen/PyTmpl.v: py_reserved_names, recomputed from the template on every run; the
   names <Name>StateId / <Name>StateMachine formed from the machine's own name are listed there as suffixes) *)
Definition py_names_ok (t : table) : bool :=
  forallb (fun n => negb (mem n py_reserved_names)) (states t ++ events t ++ actions t ++ guards t)%list.

Definition py_template : list tline := (py_init ++ py_process)%list.
Definition gen_py (t : table) : list line := gen_from py_template t.

(* ------------------------------------------------------------------ Python's block structure *)
Inductive stmt := Atom (a : patom) | Block (h : patom) (body : list stmt).

Definition is_header (a : patom) : bool :=
  match a with ADef _ | AIfState _ | AIfEvent _ | AIfGuard _ | AIfTrue => true | _ => false end.

Definition is_skip (l : line) : bool := match snd l with ASkip => true | _ => false end.
Definition code_lines (ls : list line) : list line := filter (fun l => negb (is_skip l)) ls.

(* statements at indentation exactly [ind], up to the first line indented less; (statements, remaining lines) *)
Fixpoint parse_block (fuel : nat) (ind : nat) (ls : list line) : option (list stmt * list line) :=
  match fuel with
  | 0 => None
  | S f =>
      match ls with
      | [] => Some ([], [])
      | (i, a) :: r =>
          if Nat.ltb i ind then Some ([], ls)
          else if Nat.ltb ind i then None                       (* unexpected indent / dedent to no outer level *)
          else if is_header a then
            match r with
            | (j, _) :: _ =>
                if Nat.ltb i j then
                  match parse_block f j r with
                  | Some (body, r') =>
                      match parse_block f ind r' with
                      | Some (ss, r'') => Some (Block a body :: ss, r'')
                      | None => None
                      end
                  | None => None
                  end
                else None                                   (* expected an indented block *)
            | [] => None
            end
          else
            match parse_block f ind r with
            | Some (ss, r'') => Some (Atom a :: ss, r'')
            | None => None
            end
      end
  end.

Definition parse_indent (ls : list line) : option (list stmt) :=
  let cl := code_lines ls in
  match cl with
  | [] => Some []
  | (i, _) :: _ =>
      match parse_block (S (length cl)) i cl with
      | Some (ss, []) => Some ss
      | _ => None
      end
  end.

(* ------------------------------------------------------------------ big-step execution *)
Inductive outcome := ONormal | OReturn | OError.
Definition res := (outcome * list cb * string * nat)%type.   (* outcome, callbacks made, current state, guard calls *)

Definition err (cur : string) (n : nat) : res := (OError, [], cur, n).

Section Exec.
  Variable gv : gval.
  Variable e : string.                                  (* the event being processed *)
  Variable call : string -> string -> nat -> res.       (* method call: name, state, guard calls *)

  Definition exec_atom (a : patom) (cur : string) (n : nat) : res :=
    match a with
    | AReturn => (OReturn, [], cur, n)
    | AExit s => (ONormal, [CExit s e], cur, n)
    | AAction x => (ONormal, [CAction x e], cur, n)
    | AEntry s => (ONormal, [CEntry s e], cur, n)
    | AEntryStartup s => (ONormal, [CEntry s startup_event], cur, n)
    | ASetState s => (ONormal, [], s, n)
    | ANoTrans => (ONormal, [CNoTrans e], cur, n)
    | ACallState s => call ("process" ++ s) cur n
    | ASkip => (ONormal, [], cur, n)
    | _ => err cur n
    end.

  (* condition of a block header: value, callbacks, guard calls afterwards *)
  Definition cond (h : patom) (cur : string) (n : nat) : option (bool * list cb * nat) :=
    match h with
    | AIfState s => Some (String.eqb cur s, [], n)
    | AIfEvent x => Some (String.eqb e x, [], n)          (* isinstance(event, x): event classes are distinct *)
    | AIfGuard g => Some (gv n g, [CGuard g e], S n)
    | AIfTrue => Some (true, [], n)
    | _ => None                                            (* a nested def is not executed here *)
    end.

  Definition seq (r1 : res) (k : string -> nat -> res) : res :=
    match r1 with
    | (ONormal, t1, c1, n1) => match k c1 n1 with (o2, t2, c2, n2) => (o2, (t1 ++ t2)%list, c2, n2) end
    | other => other
    end.

  Fixpoint exec_stmt (s : stmt) (cur : string) (n : nat) : res :=
    match s with
    | Atom a => exec_atom a cur n
    | Block h body =>
        match cond h cur n with
        | None => err cur n
        | Some (b, t, n') =>
            if b then
              seq (ONormal, t, cur, n')
                  ((fix go (ss : list stmt) (c : string) (m : nat) : res :=
                      match ss with
                      | [] => (ONormal, [], c, m)
                      | x :: r => seq (exec_stmt x c m) (go r)
                      end) body)
            else (ONormal, t, cur, n')
        end
    end.

  Fixpoint exec_stmts (ss : list stmt) (cur : string) (n : nat) : res :=
    match ss with
    | [] => (ONormal, [], cur, n)
    | x :: r => seq (exec_stmt x cur n) (exec_stmts r)
    end.
End Exec.

Fixpoint lookup_def (name : string) (prog : list stmt) : option (list stmt) :=
  match prog with
  | [] => None
  | Block (ADef d) body :: r => if String.eqb d name then Some body else lookup_def name r
  | _ :: r => lookup_def name r
  end.

(* a call: falling off the end and `return` both return to the caller *)
Definition as_call (r : res) : res :=
  match r with (OReturn, t, c, n) => (ONormal, t, c, n) | other => other end.

Definition call0 (_ : string) (cur : string) (n : nat) : res := err cur n.    (* no calls inside process<State> *)

Definition call1 (gv : gval) (e : string) (prog : list stmt) (name : string) (cur : string) (n : nat) : res :=
  match lookup_def name prog with
  | Some body => as_call (exec_stmts gv e call0 body cur n)
  | None => err cur n                                                          (* AttributeError *)
  end.

Definition run_method (gv : gval) (e : string) (prog : list stmt) (name : string) (cur : string) (n : nat) : res :=
  match lookup_def name prog with
  | Some body => as_call (exec_stmts gv e (call1 gv e prog) body cur n)
  | None => err cur n
  end.

Fixpoint run_events (gv : gval) (prog : list stmt) (cur : string) (n : nat) (evs : list string)
  : option (list (list cb * string)) :=
  match evs with
  | [] => Some []
  | e :: r =>
      match run_method gv e prog "process" cur n with
      | (ONormal, t, c, n') =>
          match run_events gv prog c n' r with Some rest => Some ((t, c) :: rest) | None => None end
      | _ => None
      end
  end.

Definition run_py (prog : list stmt) (evs : list string) (gv : gval) : option (list (list cb * string)) :=
  match run_method gv "" prog "__init__" "" 0 with
  | (ONormal, t, c, n) =>
      match run_events gv prog c n evs with Some rest => Some ((t, c) :: rest) | None => None end
  | _ => None
  end.
