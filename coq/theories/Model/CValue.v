(* C12 -- primitive types of the generated protocol code on x86-64 SysV (little endian), the C++ literals that
   kojen pastes into the generated text as defaults, and their conversion to the object representation of a
   primitive field.  Shared by the model of the generated program (Model/Layout.v) and by the specification
   (Spec/LayoutSpec.v): the MEANING of a literal is not what C12 is about; it is tied to g++ and to Python's
   struct module by the differential runs of the check (commands lit_bytes / lit_ok). *)
From Coq Require Import String Ascii List Bool NArith ZArith.
Import ListNotations.

Inductive prim := U8 | U16 | U32 | U64 | I8 | I16 | I32 | I64 | F32 | F64 | PBool.

Definition prim_eqb (a b : prim) : bool :=
  match a, b with
  | U8, U8 | U16, U16 | U32, U32 | U64, U64 | I8, I8 | I16, I16 | I32, I32 | I64, I64
  | F32, F32 | F64, F64 | PBool, PBool => true
  | _, _ => false
  end.

(* the names kojen's interface files use; allplatforms/basetypes.h typedefs them (Gen/LayoutSrc.v) *)
Definition prim_name (p : prim) : string :=
  match p with
  | U8 => "uint8" | U16 => "uint16" | U32 => "uint32" | U64 => "uint64"
  | I8 => "int8" | I16 => "int16" | I32 => "int32" | I64 => "int64"
  | F32 => "float" | F64 => "double" | PBool => "bool"
  end%string.

Definition all_prims : list prim := [U8; U16; U32; U64; I8; I16; I32; I64; F32; F64; PBool].

Definition prim_of_name (s : string) : option prim :=
  find (fun p => String.eqb (prim_name p) s) all_prims.

(* sizeof; on x86-64 SysV alignof = sizeof for all of these *)
Definition prim_nbytes (p : prim) : nat :=
  match p with
  | U8 | I8 | PBool => 1
  | U16 | I16 => 2
  | U32 | I32 | F32 => 4
  | U64 | I64 | F64 => 8
  end.
Definition prim_size (p : prim) : N := N.of_nat (prim_nbytes p).
Definition prim_align (p : prim) : N := prim_size p.

(* ---------------------------------------------------------------- bytes *)
Definition zeros (n : N) : list ascii := repeat zero (N.to_nat n).

Fixpoint le_bytes (n : nat) (v : N) : list ascii :=
  match n with
  | O => []
  | S n' => ascii_of_N (v mod 256) :: le_bytes n' (v / 256)
  end.

(* ---------------------------------------------------------------- literals *)
Inductive lit :=
| LInt (z : Z)                         (* decimal (no leading zero) or 0x literal, optional unary minus *)
| LBool (b : bool)                     (* true / false *)
| LDec (neg : bool) (m : N) (e : Z)    (* decimal floating literal: (-1)^neg * m * 10^e, type double *)
| LBad.                                (* anything else: outside the model *)

Definition digit_val (c : ascii) : option N :=
  let n := N_of_ascii c in
  if (48 <=? n)%N && (n <=? 57)%N then Some (n - 48)%N else None.

Definition hex_val (c : ascii) : option N :=
  let n := N_of_ascii c in
  if (48 <=? n)%N && (n <=? 57)%N then Some (n - 48)%N
  else if (97 <=? n)%N && (n <=? 102)%N then Some (n - 87)%N
  else if (65 <=? n)%N && (n <=? 70)%N then Some (n - 55)%N
  else None.

(* longest prefix of digits: (value, number of digits, rest) *)
Fixpoint take_digits (base : N) (val : ascii -> option N) (s : string) (acc : N) (cnt : N) : N * N * string :=
  match s with
  | EmptyString => (acc, cnt, s)
  | String c r =>
      match val c with
      | Some d => take_digits base val r (acc * base + d)%N (cnt + 1)%N
      | None => (acc, cnt, s)
      end
  end.

Definition is_char (c : ascii) (n : N) : bool := N.eqb (N_of_ascii c) n.

(* exponent part  [eE][+-]?digits  up to the end of the string *)
Definition parse_exp (s : string) : option Z :=
  match s with
  | EmptyString => Some 0%Z
  | String c r =>
      if is_char c 101 || is_char c 69 then
        let '(sgn, r') := match r with
                          | String d r2 => if is_char d 45 then (true, r2) else if is_char d 43 then (false, r2) else (false, r)
                          | EmptyString => (false, r)
                          end in
        match take_digits 10 digit_val r' 0 0 with
        | (v, cnt, EmptyString) => if (cnt =? 0)%N then None else Some (if sgn then (- Z.of_N v)%Z else Z.of_N v)
        | _ => None
        end
      else None
  end.

Definition parse_unsigned (neg : bool) (s : string) : lit :=
  let sgn (v : N) : Z := if neg then (- Z.of_N v)%Z else Z.of_N v in
  let hex := match s with
             | String a (String b r) => if is_char a 48 && (is_char b 120 || is_char b 88) then Some r else None
             | _ => None
             end in
  match hex with
  | Some r =>
      match take_digits 16 hex_val r 0 0 with
      | (v, cnt, EmptyString) => if (cnt =? 0)%N then LBad else LInt (sgn v)
      | _ => LBad
      end
  | None =>
      let '(iv, icnt, r1) := take_digits 10 digit_val s 0 0 in
      match r1 with
      | EmptyString =>
          (* a decimal integer literal; a leading 0 followed by digits would be octal in C++: outside the model *)
          if (icnt =? 0)%N then LBad
          else match s with
               | String c0 _ => if is_char c0 48 && (1 <? icnt)%N then LBad else LInt (sgn iv)
               | EmptyString => LBad
               end
      | String c r2 =>
          let '(m, fcnt, r3) :=
            if is_char c 46 then take_digits 10 digit_val r2 iv 0 else (iv, 0%N, r1) in
          if ((icnt + fcnt) =? 0)%N then LBad
          else if negb (is_char c 46) && negb (is_char c 101 || is_char c 69) then LBad
          else match parse_exp r3 with
               | Some e => LDec neg m (e - Z.of_N fcnt)%Z
               | None => LBad
               end
      end
  end.

Definition parse_lit (s : string) : lit :=
  if String.eqb s "true" then LBool true
  else if String.eqb s "false" then LBool false
  else match s with
       | String c r => if is_char c 45 then parse_unsigned true r else parse_unsigned false s
       | EmptyString => LBad
       end.

(* ---------------------------------------------------------------- decimal -> binary floating point *)
(* round num/den (den > 0) to the nearest integer, ties to even *)
Definition rne (num den : N) : N :=
  let q := (num / den)%N in
  let r := (num mod den)%N in
  if (den <? 2 * r)%N then (q + 1)%N
  else if (2 * r =? den)%N then (if N.odd q then (q + 1)%N else q)
  else q.

(* num/den >= 2^e *)
Definition ge_pow2 (num den : N) (e : Z) : bool :=
  if (0 <=? e)%Z then (den * 2 ^ Z.to_N e <=? num)%N else (den <=? num * 2 ^ Z.to_N (- e))%N.

(* nearest (ties to even) M * 2^q to num/den with M < 2^p (or = 2^p after a carry), q >= emin - (p-1) *)
Definition bin_round (p : N) (emin : Z) (num den : N) : N * Z :=
  if (num =? 0)%N then (0%N, (emin - (Z.of_N p - 1))%Z)
  else
    let e0 := (Z.of_N (N.log2 num) - Z.of_N (N.log2 den))%Z in
    let E := if ge_pow2 num den e0 then e0 else (e0 - 1)%Z in
    let q := (Z.max E emin - (Z.of_N p - 1))%Z in
    let M := if (0 <=? q)%Z then rne num (den * 2 ^ Z.to_N q) else rne (num * 2 ^ Z.to_N (- q)) den in
    (M, q).

Definition fp_emin (ebits : N) : Z := (2 - 2 ^ (Z.of_N ebits - 1))%Z.

(* IEEE-754 interchange encoding (sign, biased exponent, fraction) of (-1)^neg * M * 2^q as produced by bin_round *)
Definition fp_bits (p ebits : N) (neg : bool) (Mq : N * Z) : N :=
  let '(M, q) := Mq in
  let E' := (q + (Z.of_N p - 1))%Z in
  let mag := (Z.to_N (E' - fp_emin ebits) * 2 ^ (p - 1) + M)%N in
  let inf := ((2 ^ ebits - 1) * 2 ^ (p - 1))%N in
  let mag' := if (inf <=? mag)%N then inf else mag in
  (if neg then 2 ^ (p - 1 + ebits) + mag' else mag')%N.

Definition rat_of_dec (m : N) (e : Z) : N * N :=
  if (0 <=? e)%Z then ((m * 10 ^ Z.to_N e)%N, 1%N) else (m, (10 ^ Z.to_N (- e))%N).

Definition rat_of_bin (Mq : N * Z) : N * N :=
  let '(M, q) := Mq in
  if (0 <=? q)%Z then ((M * 2 ^ Z.to_N q)%N, 1%N) else (M, (2 ^ Z.to_N (- q))%N).

Definition f64_round (num den : N) : N * Z := bin_round 53 (fp_emin 11) num den.
Definition f32_round (num den : N) : N * Z := bin_round 24 (fp_emin 8) num den.

Definition f64_bits_of_dec (neg : bool) (m : N) (e : Z) : N :=
  let '(num, den) := rat_of_dec m e in fp_bits 53 11 neg (f64_round num den).

(* a floating literal without suffix has type double; initialising a float converts that double: two roundings *)
Definition f32_bits_of_dec (neg : bool) (m : N) (e : Z) : N :=
  let '(num, den) := rat_of_dec m e in
  let '(num2, den2) := rat_of_bin (f64_round num den) in
  fp_bits 24 8 neg (f32_round num2 den2).

(* ---------------------------------------------------------------- literal -> object representation *)
Definition int_range (p : prim) : option (Z * Z) :=
  match p with
  | U8 => Some (0, 255) | U16 => Some (0, 65535) | U32 => Some (0, 4294967295) | U64 => Some (0, 18446744073709551615)
  | I8 => Some (-128, 127) | I16 => Some (-32768, 32767) | I32 => Some (-2147483648, 2147483647)
  | I64 => Some (-9223372036854775807, 9223372036854775807)   (* -2^63 cannot be written as a literal *)
  | _ => None
  end%Z.

(* None = the initialisation is ill-formed (narrowing inside a brace list) or its result depends on whether the
   literal stands at the top level of a parameter default or inside a brace list: outside the model *)
Definition conv (p : prim) (l : lit) : option (list ascii) :=
  match int_range p with
  | Some (lo, hi) =>
      match l with
      | LInt z => if (lo <=? z)%Z && (z <=? hi)%Z
                  then Some (le_bytes (prim_nbytes p) (Z.to_N (z mod 2 ^ (8 * Z.of_nat (prim_nbytes p)))))
                  else None
      | LBool b => Some (le_bytes (prim_nbytes p) (if b then 1 else 0))
      | _ => None
      end
  | None =>
      match p with
      | PBool =>
          match l with
          | LBool b => Some (le_bytes 1 (if b then 1 else 0))
          | LInt Z0 => Some (le_bytes 1 0)
          | LInt (Zpos xH) => Some (le_bytes 1 1)
          | _ => None
          end
      | F64 =>
          match l with
          | LInt z => if (Z.abs z <=? 9007199254740992)%Z
                      then Some (le_bytes 8 (f64_bits_of_dec (z <? 0)%Z (Z.abs_N z) 0))
                      else None
          | LDec neg m e => Some (le_bytes 8 (f64_bits_of_dec neg m e))
          | _ => None
          end
      | F32 =>
          match l with
          | LInt z => if (Z.abs z <=? 16777216)%Z
                      then Some (le_bytes 4 (f32_bits_of_dec (z <? 0)%Z (Z.abs_N z) 0))
                      else None
          | LDec neg m e => Some (le_bytes 4 (f32_bits_of_dec neg m e))
          | _ => None
          end
      | _ => None
      end
  end.

Definition lit_ok (p : prim) (d : string) : bool :=
  match conv p (parse_lit d) with Some _ => true | None => false end.

(* bytes a field of type p holds when it "equals the literal d" (zero when d is outside the model; wf excludes that) *)
Definition lit_bytes (p : prim) (d : string) : list ascii :=
  match conv p (parse_lit d) with Some b => b | None => zeros (prim_size p) end.
