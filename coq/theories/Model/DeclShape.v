(* Per-element declaration blocks of the generated C++ units and of the C# context / interface / internals:
   which block (the element list it iterates over) declares what.  Gen/DeclTmpl.v (translator/decltmpl.py) lists, per
   template file and in file order, the declaration lines found inside PER_<X> blocks as (block, declaration kind). *)
Inductive blk :=
| BState      (* PER_STATE : smmodel.states *)
| BEvent      (* PER_EVENT : smmodel.events (table events, then the interface's other event structs) *)
| BAction     (* PER_ACTION : smmodel.actions *)
| BSig        (* PER_ACTION_SIGNATURE : smmodel.actionsignatures *)
| BGuard      (* PER_GUARD : smmodel.guards *)
| BTps.       (* PER_STATETRANSITION : keys of smmodel.transitionsperstate *)

Inductive dk :=
(* I<Name>Controller.h *)
| KEventStruct      (* struct <E> : public Event  { ... <<<MEMBERSDECLARE>>> ... } *)
| KEventPtrTypedef  (* typedef std::unique_ptr<<E>> <E>_ptr; *)
| KCtlGuard         (* virtual bool <G>() *)
| KCtlGuardMember   (* bool m_<G>; *)
| KCtlEntry         (* virtual void <S>_on_entry() *)
| KCtlExit          (* virtual void <S>_on_exit() *)
| KCtlAction        (* virtual void <A>(<E> const& data) *)
(* <Name>StateMachine.h *)
| KIfcIs            (* virtual bool Is<S>() const = 0; *)
| KIfcTrigger       (* virtual void Trigger<E>(<<<SIGNATURE>>>) = 0; *)
(* <Name>StateMachineImpl_SML.cpp *)
| KFwdState         (* struct <S>; *)
| KGuardFunctor     (* struct <G> { ... ctrl.<G>() } *)
| KEntryFunctor     (* struct <S>OnEntry { ... ctrl.<S>_on_entry() } *)
| KExitFunctor
| KActionFunctor    (* struct <A> { template<class Event> ... ctrl.<A>(e) } *)
| KInstEntry        (* <S>OnEntry <s>OnEntry; *)
| KInstExit
| KInstAction       (* <A> <a>; *)
| KInstGuard        (* <G> <g>; *)
| KDispatchDef      (* void <E>::Dispatch(void* sm) *)
| KImplIs           (* virtual bool Is<S>() const override *)
| KImplTrigger      (* virtual void Trigger<E>(<<<SIGNATURE>>>) override *)
(* Test.<Name>StateMachine.cpp *)
| KTestGuard        (* virtual bool <G>() override *)
| KTestEntry | KTestExit
| KTestAction       (* virtual void <A>(<E> const& data) override *)
(* C#: <Name>Context.cs, <Name>StateMachine.cs, <Name>Internals.cs *)
| KCsEventClass     (* public partial class <E> : IDispatchable { <<<MEMBERSDECLARE>>> } *)
| KCsGuard          (* bool <G>(); *)
| KCsAction         (* void <A>(<E> data); *)
| KCsEntry | KCsExit  (* void On<S>Entry(); void On<S>Exit(); *)
| KCsIs             (* public bool Is<S>() *)
| KCsTrigger        (* public void Trigger<E>(<<<SIGNATURE>>>) *)
| KCsEnum           (* <S>,  in the state enumeration *)
| KCsBaseHandler    (* internal virtual void Trigger<E>(..., <E> data){} *)
| KCsDispatchPart   (* public partial class <E> : IDispatchable { void IDispatchable.Dispatch ... } *)
| KCsStateClass.    (* internal class <S> : <Name>State *)

Scheme Equality for blk.
Scheme Equality for dk.
