(* The text of the C# tokens of Model/CsSM.v, and the per-state > per-event > per-transition block of the SHIPPED template
   statemachine_templates_cs_winlinmac/TEMPLATEInternals.cs (Gen/Templates.v) in the template syntax of Spec/RefExpand16.v.

     tok_text / cs_reads      the C# statement a token stands for; a text line reads as a token when, without its indentation, it
                              is exactly that statement
     cs_block_lines           the template's lines from PER_STATETRANSITION_BEGIN to PER_STATETRANSITION_END after the first
                              filtering with dict0 (state machine name "X")
     cs_block16               the same read into the template syntax (checked: renders back, in_grammar16)
     cs_pre .. cs_post        the pieces of the block: class head / method head / PER_GUARDTRANSITION body / method tail / class tail
     cs_handler_text t s e    what the reference expansion emits for the PER_GUARDTRANSITION block of Trigger<e> in class s
     cs_class_text t s        the whole class
   No proofs in this file. *)
From Coq Require Import String Ascii List Bool Arith.
From KV Require Import Lib.Str Lib.StrOps Lib.ODict Lib.TableDef Gen.Tags Gen.Templates Gen.CsTmpl Model.TTable Model.CsShape Model.CsSM
                       Model.Engine Model.EngineSM Model.EngineDomain Model.EngineDomain16 Model.Parse16 Model.PyRender Spec.RefExpand Spec.RefExpand16.
Import ListNotations.
Open Scope string_scope.

Definition tok_text (smn : string) (a : ctok) : string :=
  match a with
  | TIf g => "if (context." ++ g ++ "())"
  | TOpen => "{"
  | TClose => "}"
  | TExit s => "sm.Exit<" ++ s ++ ">();"
  | TAction x => "context." ++ x ++ "(data);"
  | TEnter s => "sm.Enter<" ++ s ++ ">();"
  | TSetState s => "sm.estate = E" ++ smn ++ "State." ++ s ++ ";"
  | TReturn => "return;"
  end.

Definition cs_reads (smn : string) (s : string) (a : ctok) : bool := String.eqb (lstrip_c SP s) (tok_text smn a ++ nl_str).

Fixpoint cs_reads_all (smn : string) (ss : list string) (ts : list ctok) : bool :=
  match ss, ts with
  | [], [] => true
  | s :: ss', a :: ts' => cs_reads smn s a && cs_reads_all smn ss' ts'
  | _, _ => false
  end.

(* ---------------------------------------------------------------- the shipped block *)
Fixpoint take_to (p : string -> bool) (ls : list string) : list string :=
  match ls with [] => [] | l :: r => if p l then [l] else l :: take_to p r end.
Definition ends_with (suf s : string) : bool := match strip_suffix suf s with Some _ => true | None => false end.

Definition cs_file : list string := file_of "TEMPLATEInternals.cs" tmpl_cs.
Definition cs_block_lines : list string :=
  match load_file dict0 cs_file with
  | Some l => take_to (ends_with (end_line "PER_STATETRANSITION")) (drop_to (ends_with (begin_line "PER_STATETRANSITION")) l)
  | None => []
  end.
Definition cs_block16_opt : option template16 :=
  match parse16 cs_block_lines with
  | Some t => if list_eqb (render16 t) cs_block_lines && in_grammar16 t && negb (match cs_block_lines with [] => true | _ => false end) then Some t else None
  | None => None
  end.
Definition cs_block16 : template16 := match cs_block16_opt with Some t => t | None => [] end.

(* the pieces (text of the shipped template; Proofs/CsBridge.v checks that they assemble to cs_block16) *)
Definition cs_pre : list uline :=
  [[Lit "    /// <summary>"]; [Lit "    /// "; Tag "STATENAME" None; Lit " specific internal implementation."]; [Lit "    /// </summary>"];
   [Lit "    internal class "; Tag "STATENAME" None; Lit " : XState"]; [Lit "    {"]].
Definition cs_epre : list uline :=
  [[Lit "        internal override void Trigger"; Tag "EVENTNAME" None; Lit "(IXContext context, XStateMachine sm, "; Tag "EVENTNAME" None; Lit " data)"];
   [Lit "        {"]].
Definition cs_gbody : list uline :=
  [[Lit "            if (context."; Tag "GUARDNAME" None; Lit "())"]; [Lit "            {"];
   [Lit "                sm.Exit<"; Tag "STATENAMEIFNEXTSTATE" None; Lit ">();"];
   [Lit "                context."; Tag "ACTIONNAME" None; Lit "(data);"];
   [Lit "                sm.Enter<"; Tag "NEXTSTATENAME" None; Lit ">();"];
   [Lit "                sm.estate = EXState."; Tag "NEXTSTATENAME" None; Lit ";"];
   [Lit "                return;"]; [Lit "            }"]].
Definition cs_epost : list uline := [[Lit "        }"]].
Definition cs_post : list uline :=
  [[Lit "        internal override void OnEntry(IXContext context)"]; [Lit "        {"];
   [Lit "            context.On"; Tag "STATENAME" None; Lit "Entry();"]; [Lit "        }"];
   [Lit "        internal override void OnExit(IXContext context)"]; [Lit "        {"];
   [Lit "            context.On"; Tag "STATENAME" None; Lit "Exit();"]; [Lit "        }"]; [Lit "    };"]].
Definition cs_tbody : list titem :=
  map TLine cs_pre ++ [TEvent "        " "        " (map ELine cs_epre ++ [EGuard "            " "            " cs_gbody] ++ map ELine cs_epost)] ++ map TLine cs_post.

Definition sub_lines (tb : list (string * string)) (ls : list uline) : list string := map (fun l => render_line (map (subst16 tb) l)) ls.

Definition cs_handler_text (t : table) (s e : string) : list string :=
  flat_map (fun r => flat_map (ref_gline e (trans_table r)) cs_gbody) (trans_of t s e).
Definition cs_method_text (t : table) (s e : string) : list string :=
  sub_lines (event_table e) cs_epre ++ cs_handler_text t s e ++ sub_lines (event_table e) cs_epost.
Definition cs_class_text (t : table) (s : string) : list string :=
  sub_lines (state_table s) cs_pre ++ flat_map (cs_method_text t s) (cs_handlers t s) ++ sub_lines (state_table s) cs_post.

(* what the harness evaluates *)
Definition cs_block_ref (tt : list EngineSM.row) (structs protos msgs : list string) : string := ref16_rows tt structs protos msgs cs_block16.
Definition cs_block_ok : bool := match cs_block16_opt with Some _ => true | None => false end.

(* ---------------------------------------------------------------- the WHOLE shipped file *)
Definition cs_file16_opt : option template16 := option_map snd (shipped16 dict0 cs_file).
Definition cs_file16 : template16 := match cs_file16_opt with Some t => t | None => [] end.
(* what the harness evaluates: the reference text of the whole file for a table, an interface and a user-tag assignment; its admission *)
Definition cs_file_ref (tt : list EngineSM.row) (structs protos msgs : list string) (a : list (string * string)) : string :=
  ref16 (with_user a (elements_of (table_of tt) structs protos msgs)) cs_file16.
Definition cs_file_wf (tt : list EngineSM.row) (structs protos msgs : list string) (a : list (string * string)) : bool :=
  match cs_file16_opt with Some t => wf_elements16 t (with_user a (elements_of (table_of tt) structs protos msgs)) | None => false end.
