(* C11 -- labelled transition system of the generated threaded Python state machine.

   The thread programs are the op lists of Gen/PySync.v (the synchronisation skeleton of the template as it is NOW);
   this file only says what one operation does.  One transition = one synchronisation operation of one thread
   (the yield points of harness/pysched.py): a read or write of a private flag, Queue(), put, get, task_done,
   Queue.join, Thread.start, Thread.join, entry and exit of process(), plus four harness-level markers (constructor
   returned, a Trigger method is called, stop() is called, stop() has returned).

   Threads: 0 = main (constructs the machine, triggers its own script, calls stop()), 1 = the worker (run()),
   2+i = producer i.  `get(block=True, timeout=c)`: dequeues when the queue is non-empty, raises queue.Empty when it
   is empty -- i.e. the time-out may fire at any moment at which the queue is empty.  Events carry the events their
   callbacks trigger (a finite tree).  No proofs here. *)
From Coq Require Import String List Bool Arith NArith.
From KV Require Import Model.PySyncIR.
Import ListNotations.
Open Scope string_scope.
Open Scope list_scope.

Inductive ev := Ev (id : N) (children : list ev).
Definition ev_id (e : ev) : N := match e with Ev i _ => i end.
Definition ev_children (e : ev) : list ev := match e with Ev _ c => c end.

Inductive mark := MInitDone | MStopCall | MStopRet.

(* what a thread still has to do *)
Inductive kitem :=
| KOp (o : op)
| KTry (h : list op)        (* end of a try block whose handler for queue.Empty is h *)
| KCall (e : ev)            (* the thread calls Trigger<class of e>(...) : event = <class>(...) *)
| KEnd (e : ev)             (* process(e) returns *)
| KMark (m : mark).

Record thread := mkThread { cont : list kitem; cur : option ev (* the local variable `event` *) }.

Inductive lg := LBegin (t : nat) (e : ev) | LEnd (t : nat) (e : ev).

Record shared := mkShared {
  flags : list (string * bool);
  queue : list ev;                 (* Queue contents, head = next to be taken *)
  unfinished : nat;                (* Queue.unfinished_tasks *)
  started : bool;                  (* Thread.start() was called *)
  inited : bool;                   (* the constructor has returned (producers hold a reference) *)
  stop_called : bool;
  stop_returned : bool;
  puts : list (nat * ev);          (* history: who put what, in order *)
  pre_stop : list (nat * ev);      (* history at the moment stop() was called *)
  log : list lg                    (* observation: entry / exit of process() with the executing thread *)
}.

Record state := mkState { sh : shared; tmain : thread; tworker : thread; tprods : list thread }.

Inductive label :=
| LSetFlag (f : string) (b : bool) | LReadFlag (f : string) (b : bool) | LNewQueue | LPut (e : N) | LGetOk (e : N)
| LGetTimeout | LTaskDone | LQueueJoin | LThreadStart | LThreadJoin | LProcess (e : N) | LProcEnd (e : N)
| LCall (e : N) | LMark (m : mark).

Record prog := mkProg { p_init : list op; p_trigger : list op; p_run : list op; p_stop : list op }.

(* ---------------------------------------------------------------- helpers *)

Fixpoint lookup (f : string) (l : list (string * bool)) : option bool :=
  match l with
  | [] => None
  | (k, v) :: r => if String.eqb f k then Some v else lookup f r
  end.

Fixpoint setf (f : string) (b : bool) (l : list (string * bool)) : list (string * bool) :=
  match l with
  | [] => [(f, b)]
  | (k, v) :: r => if String.eqb f k then (k, b) :: r else (k, v) :: setf f b r
  end.

(* a try block is entered silently: its body is followed by the marker KTry h *)
Fixpoint compile_op (o : op) : list kitem :=
  match o with
  | TryEmpty b h => (fix go (l : list op) : list kitem := match l with [] => [] | x :: r => compile_op x ++ go r end) b ++ [KTry h]
  | _ => [KOp o]
  end.
Definition compile (l : list op) : list kitem := flat_map compile_op l.

(* leaving a try block normally is silent *)
Fixpoint drop_try (k : list kitem) : list kitem :=
  match k with
  | KTry _ :: r => drop_try r
  | _ => k
  end.

(* queue.Empty propagates to the innermost enclosing handler; None = uncaught *)
Fixpoint unwind (k : list kitem) : option (list kitem) :=
  match k with
  | [] => None
  | KTry h :: r => Some (compile h ++ r)
  | _ :: r => unwind r
  end.

Definition set_flags x s := mkShared x (queue s) (unfinished s) (started s) (inited s) (stop_called s) (stop_returned s) (puts s) (pre_stop s) (log s).
Definition set_queue q u s := mkShared (flags s) q u (started s) (inited s) (stop_called s) (stop_returned s) (puts s) (pre_stop s) (log s).
Definition set_log x s := mkShared (flags s) (queue s) (unfinished s) (started s) (inited s) (stop_called s) (stop_returned s) (puts s) (pre_stop s) x.

(* ---------------------------------------------------------------- one operation of one thread
   [wfin]: the worker thread has finished (for Thread.join);  [thr]: the mode parameter <<<StateMachineThread>>>.
   None = the thread cannot move now (blocked, finished) or the operation would raise an exception the skeleton
   does not handle (reading an unset flag, put/process without an event, task_done() below zero, start() twice,
   join() before start(), queue.Empty outside a try) -- the harness treats any exception in the real run as a
   disagreement, and C11_no_thread_error shows none of these is reachable. *)
Definition exec (P : prog) (thr : bool) (tid : nat) (wfin : bool) (th : thread) (s : shared)
  : option (thread * shared * label) :=
  match cont th with
  | [] => None
  | KMark m :: k =>
      let s' := match m with
                | MInitDone => mkShared (flags s) (queue s) (unfinished s) (started s) true (stop_called s) (stop_returned s) (puts s) (pre_stop s) (log s)
                | MStopCall => mkShared (flags s) (queue s) (unfinished s) (started s) (inited s) true (stop_returned s) (puts s) (puts s) (log s)
                | MStopRet => mkShared (flags s) (queue s) (unfinished s) (started s) (inited s) (stop_called s) true (puts s) (pre_stop s) (log s)
                end in
      Some (mkThread (drop_try k) (cur th), s', LMark m)
  | KCall e :: k => Some (mkThread (drop_try (compile (p_trigger P) ++ k)) (Some e), s, LCall (ev_id e))
  | KEnd e :: k => Some (mkThread (drop_try k) (cur th), set_log (log s ++ [LEnd tid e]) s, LProcEnd (ev_id e))
  | KTry _ :: k => None   (* never at the head: removed by drop_try *)
  | KOp o :: k =>
      match o with
      | SetFlag f b => Some (mkThread (drop_try k) (cur th), set_flags (setf f b (flags s)) s, LSetFlag f b)
      | SetFlagParam f => Some (mkThread (drop_try k) (cur th), set_flags (setf f thr (flags s)) s, LSetFlag f thr)
      | NewQueue => Some (mkThread (drop_try k) (cur th), set_queue [] 0 s, LNewQueue)
      | Put =>
          match cur th with
          | Some e => Some (mkThread (drop_try k) None,
                            mkShared (flags s) (queue s ++ [e]) (S (unfinished s)) (started s) (inited s) (stop_called s)
                                     (stop_returned s) (puts s ++ [(tid, e)]) (pre_stop s) (log s), LPut (ev_id e))
          | None => None
          end
      | Get =>
          match queue s with
          | e :: q => Some (mkThread (drop_try k) (Some e), set_queue q (unfinished s) s, LGetOk (ev_id e))
          | [] => match unwind k with
                  | Some k' => Some (mkThread (drop_try k') (cur th), s, LGetTimeout)
                  | None => None
                  end
          end
      | TaskDone =>
          match unfinished s with
          | O => None
          | S u => Some (mkThread (drop_try k) (cur th), set_queue (queue s) u s, LTaskDone)
          end
      | QueueJoin =>
          match unfinished s with
          | O => Some (mkThread (drop_try k) (cur th), s, LQueueJoin)
          | S _ => None
          end
      | ThreadStart =>
          if started s then None
          else Some (mkThread (drop_try k) (cur th),
                     mkShared (flags s) (queue s) (unfinished s) true (inited s) (stop_called s) (stop_returned s) (puts s) (pre_stop s) (log s),
                     LThreadStart)
      | ThreadJoin =>
          if started s && wfin && negb (Nat.eqb tid 1) then Some (mkThread (drop_try k) (cur th), s, LThreadJoin) else None
      | Process =>
          match cur th with
          | Some e => Some (mkThread (drop_try (map KCall (ev_children e) ++ KEnd e :: k)) None,
                            set_log (log s ++ [LBegin tid e]) s, LProcess (ev_id e))
          | None => None
          end
      | If (CFlag f) t e =>
          match lookup f (flags s) with
          | Some b => Some (mkThread (drop_try (compile (if b then t else e) ++ k)) (cur th), s, LReadFlag f b)
          | None => None
          end
      | While (CFlag f) body =>
          match lookup f (flags s) with
          | Some true => Some (mkThread (drop_try (compile body ++ KOp o :: k)) (cur th), s, LReadFlag f true)
          | Some false => Some (mkThread (drop_try k) (cur th), s, LReadFlag f false)
          | None => None
          end
      | TryEmpty _ _ => None   (* never in a continuation: compiled away *)
      end
  end.

Definition finished (th : thread) : bool := match cont th with [] => true | _ => false end.

Fixpoint upd {A} (n : nat) (x : A) (l : list A) : list A :=
  match l, n with
  | [], _ => []
  | _ :: r, O => x :: r
  | y :: r, S m => y :: upd m x r
  end.

(* thread [tid] performs its next operation *)
Definition step (P : prog) (thr : bool) (tid : nat) (s : state) : option (state * label) :=
  match tid with
  | 0 => match exec P thr 0 (finished (tworker s)) (tmain s) (sh s) with
         | Some (th, x, l) => Some (mkState x th (tworker s) (tprods s), l)
         | None => None
         end
  | 1 => if started (sh s) then
           match exec P thr 1 (finished (tworker s)) (tworker s) (sh s) with
           | Some (th, x, l) => Some (mkState x (tmain s) th (tprods s), l)
           | None => None
           end
         else None
  | S (S i) => if inited (sh s) then
                 match nth_error (tprods s) i with
                 | Some t => match exec P thr tid (finished (tworker s)) t (sh s) with
                             | Some (th, x, l) => Some (mkState x (tmain s) (tworker s) (upd i th (tprods s)), l)
                             | None => None
                             end
                 | None => None
                 end
               else None
  end.

(* a test scenario: the mode, main's own events, every producer's events *)
Record config := mkConfig { threaded : bool; mscript : list ev; pscripts : list (list ev) }.

Definition init_shared : shared := mkShared [] [] 0 false false false false [] [] [].

Definition init_state (P : prog) (c : config) : state :=
  mkState init_shared
    (mkThread (drop_try (compile (p_init P) ++ KMark MInitDone :: map KCall (mscript c)
                          ++ KMark MStopCall :: compile (p_stop P) ++ [KMark MStopRet])) None)
    (mkThread (drop_try (compile (p_run P))) None)
    (map (fun sc => mkThread (map KCall sc) None) (pscripts c)).

(* executing a schedule (list of thread ids); a step of a thread that cannot move is skipped and reported *)
Fixpoint run_sched (P : prog) (thr : bool) (sc : list nat) (s : state) : state * list (option label) :=
  match sc with
  | [] => (s, [])
  | t :: r => match step P thr t s with
              | Some (s', l) => let (s'', ls) := run_sched P thr r s' in (s'', Some l :: ls)
              | None => let (s'', ls) := run_sched P thr r s in (s'', None :: ls)
              end
  end.

Definition enabledb (P : prog) (thr : bool) (s : state) (tid : nat) : bool :=
  match step P thr tid s with Some _ => true | None => false end.

Definition enabled_set (P : prog) (thr : bool) (s : state) : list nat :=
  filter (enabledb P thr s) (seq 0 (2 + length (tprods s))).

Definition all_finished (s : state) : bool :=
  finished (tmain s) && (finished (tworker s) || negb (started (sh s))) && forallb finished (tprods s).

(* ---------------------------------------------------------------- identities *)
Fixpoint ev_ids (e : ev) : list N :=
  match e with Ev i c => i :: (fix go (l : list ev) : list N := match l with [] => [] | x :: r => ev_ids x ++ go r end) c end.
Definition evs_ids (l : list ev) : list N := flat_map ev_ids l.

Fixpoint nodupN (l : list N) : bool :=
  match l with
  | [] => true
  | x :: r => negb (existsb (N.eqb x) r) && nodupN r
  end.

Definition all_ids (c : config) : list N := evs_ids (mscript c) ++ flat_map evs_ids (pscripts c).

(* hypotheses of the C11 theorems: threaded mode, pairwise distinct event identities *)
Definition wf_config (c : config) : bool := threaded c && nodupN (all_ids c).

(* the same, also reporting the set of threads that can move after every step (compared with the real scheduler) *)
Fixpoint run_trace (P : prog) (thr : bool) (sc : list nat) (s : state) : state * list (option label * list nat) :=
  match sc with
  | [] => (s, [])
  | t :: r => match step P thr t s with
              | Some (s', l) => let (s'', ls) := run_trace P thr r s' in (s'', (Some l, enabled_set P thr s') :: ls)
              | None => let (s'', ls) := run_trace P thr r s in (s'', (None, enabled_set P thr s) :: ls)
              end
  end.
