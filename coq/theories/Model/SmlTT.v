(* The boost::sml transition table that smgen.innerexpand_sml emits, as a list of items:
   one IRow per input row in input order (initial marker on row 0; absent guard -> gnone, absent action -> none,
   names in lowerCamelCase because the table refers to functor INSTANCES; a row without next state has no `= state<..>`
   part, i.e. stays internal), after the first row of every start state its on_entry / on_exit hook rows, and
   (trailing loop) the hook rows of the states that are only targets.  The two booleans of Gen/SmlTmpl.v say whether
   the code has the trailing loop and tests '' like 'none' for the next state (both true after the fix: commits).
   No proofs here. *)
From Coq Require Import String Ascii List Bool Arith.
From KV Require Import Lib.TableDef Model.TTable Gen.SmlTmpl.
Import ListNotations.
Open Scope string_scope.

Record smlrow := mkSml { q_init : bool; q_src : string; q_ev : string; q_guard : string; q_act : string; q_target : option string }.
Inductive smlitem := IRow (r : smlrow) | IEntry (s act : string) | IExit (s act : string).

(* cgen.camel_case_small *)
Definition camel_small (s : string) : string :=
  match s with EmptyString => EmptyString | String c r => String (lower_ascii c) r end.

(* transitiontable_replace_NONE *)
Definition msm_name (s : string) : string := if is_none s then "msmf::none" else s.
(* transitiontableLITE_guard_replace_NONE (camel_case_small g) / ..._action_... *)
Definition guard_inst (g : string) : string := if is_none (camel_small g) then sml_gnone else camel_small g.
Definition action_inst (a : string) : string := if is_none (camel_small a) then sml_none else camel_small a.
Definition next_absent (n : string) : bool :=
  if sml_empty_next_is_absent then is_none n else String.eqb (lower n) "none".
(* transitiontableLITE_nextstate_replace_NONE *)
Definition target_of (r : row) : option string :=
  if next_absent (r_next r) then None else Some (if is_none (r_next r) then r_src r else r_next r).

Definition sml_row (first : bool) (r : row) : smlrow :=
  mkSml first (msm_name (r_src r)) (msm_name (r_ev r)) (guard_inst (r_guard r)) (action_inst (r_act r)) (target_of r).

Definition hooks (s : string) : list smlitem :=
  [IEntry s (camel_small s ++ sml_entry_suffix); IExit s (camel_small s ++ sml_exit_suffix)].

Fixpoint gen_rows (ee first : bool) (seen : list string) (t : table) : list smlitem :=
  match t with
  | [] => []
  | r :: rest =>
      (IRow (sml_row first r) ::
       (if ee && negb (mem (r_src r) seen) then hooks (r_src r) else []) ++
       gen_rows ee false (r_src r :: seen) rest)%list
  end.

Definition gen_sml (ee : bool) (t : table) : list smlitem :=
  (gen_rows ee true [] t ++
   (if ee && sml_hooks_for_all_states
    then flat_map hooks (filter (fun s => negb (mem s (map r_src t))) (states t)) else []))%list.

(* ---- what the property says a row must become (read from the property, not from smgen) *)
Definition spec_row (first : bool) (r : row) : smlrow :=
  mkSml first (r_src r) (r_ev r)
        (match opt (r_guard r) with Some g => camel_small g | None => sml_gnone end)
        (match opt (r_act r) with Some a => camel_small a | None => sml_none end)
        (opt (r_next r)).

Definition spec_rows (t : table) : list smlrow :=
  match t with [] => [] | r :: rest => spec_row true r :: map (spec_row false) rest end.

Definition rows_of (l : list smlitem) : list smlrow :=
  flat_map (fun i => match i with IRow r => [r] | _ => [] end) l.

(* the entry (ex = false) / exit (ex = true) hook row of state s, wired to that state's functor instance *)
Definition is_hook_of (ex : bool) (s : string) (i : smlitem) : bool :=
  match i, ex with
  | IEntry s' a, false => String.eqb s' s && String.eqb a (camel_small s ++ sml_entry_suffix)
  | IExit s' a, true => String.eqb s' s && String.eqb a (camel_small s ++ sml_exit_suffix)
  | _, _ => false
  end.
Definition count {A} (f : A -> bool) (l : list A) : nat := length (filter f l).
Definition hook_state (i : smlitem) : option string :=
  match i with IEntry s _ | IExit s _ => Some s | IRow _ => None end.
