(* The boost::sml transition table that smgen.innerexpand_sml emits, as a list of items:
   one IRow per input row in input order (initial marker on row 0; absent guard -> gnone, absent action -> none,
   names in lowerCamelCase because the table refers to functor INSTANCES; a row without next state has no `= state<..>`
   part, i.e. stays internal), after the first row of every start state its on_entry / on_exit hook rows, and
   (trailing loop) the hook rows of the states that are only targets.  The two booleans of Gen/SmlTmpl.v say whether
   the code has the trailing loop and tests '' like 'none' for the next state (both true after the fix: commits).
   No proofs here. *)
From Coq Require Import String Ascii List Bool Arith.
From KV Require Import Lib.TableDef Model.TTable Gen.SmlTmpl.
Import ListNotations.
Open Scope string_scope.

Record smlrow := mkSml { q_init : bool; q_src : string; q_ev : string; q_guard : string; q_act : string; q_target : option string }.
Inductive smlitem := IRow (r : smlrow) | IEntry (s act : string) | IExit (s act : string).

(* cgen.camel_case_small *)
Definition camel_small (s : string) : string :=
  match s with EmptyString => EmptyString | String c r => String (lower_ascii c) r end.

(* transitiontable_replace_NONE *)
Definition msm_name (s : string) : string := if is_none s then "msmf::none" else s.
(* transitiontableLITE_guard_replace_NONE (camel_case_small g) / ..._action_... *)
Definition guard_inst (g : string) : string := if is_none (camel_small g) then sml_gnone else camel_small g.
Definition action_inst (a : string) : string := if is_none (camel_small a) then sml_none else camel_small a.
Definition next_absent (n : string) : bool :=
  if sml_empty_next_is_absent then is_none n else String.eqb (lower n) "none".
(* transitiontableLITE_nextstate_replace_NONE *)
Definition target_of (r : row) : option string :=
  if next_absent (r_next r) then None else Some (if is_none (r_next r) then r_src r else r_next r).

Definition sml_row (first : bool) (r : row) : smlrow :=
  mkSml first (msm_name (r_src r)) (msm_name (r_ev r)) (guard_inst (r_guard r)) (action_inst (r_act r)) (target_of r).

Definition hooks (s : string) : list smlitem :=
  [IEntry s (camel_small s ++ sml_entry_suffix); IExit s (camel_small s ++ sml_exit_suffix)].

Fixpoint gen_rows (ee first : bool) (seen : list string) (t : table) : list smlitem :=
  match t with
  | [] => []
  | r :: rest =>
      (IRow (sml_row first r) ::
       (if ee && negb (mem (r_src r) seen) then hooks (r_src r) else []) ++
       gen_rows ee false (r_src r :: seen) rest)%list
  end.

Definition gen_sml (ee : bool) (t : table) : list smlitem :=
  (gen_rows ee true [] t ++
   (if ee && sml_hooks_for_all_states
    then flat_map hooks (filter (fun s => negb (mem s (map r_src t))) (states t)) else []))%list.

(* ---- what the property says a row must become (read from the property, not from smgen) *)
Definition spec_row (first : bool) (r : row) : smlrow :=
  mkSml first (r_src r) (r_ev r)
        (match opt (r_guard r) with Some g => camel_small g | None => sml_gnone end)
        (match opt (r_act r) with Some a => camel_small a | None => sml_none end)
        (opt (r_next r)).

Definition spec_rows (t : table) : list smlrow :=
  match t with [] => [] | r :: rest => spec_row true r :: map (spec_row false) rest end.

Definition rows_of (l : list smlitem) : list smlrow :=
  flat_map (fun i => match i with IRow r => [r] | _ => [] end) l.

(* the entry (ex = false) / exit (ex = true) hook row of state s, wired to that state's functor instance *)
Definition is_hook_of (ex : bool) (s : string) (i : smlitem) : bool :=
  match i, ex with
  | IEntry s' a, false => String.eqb s' s && String.eqb a (camel_small s ++ sml_entry_suffix)
  | IExit s' a, true => String.eqb s' s && String.eqb a (camel_small s ++ sml_exit_suffix)
  | _, _ => false
  end.
Definition count {A} (f : A -> bool) (l : list A) : nat := length (filter f l).
Definition hook_state (i : smlitem) : option string :=
  match i with IEntry s _ | IExit s _ => Some s | IRow _ => None end.

(* ------------------------------------------------------------------ an executable reading of the emitted table
   The ASSUMED semantics of boost::sml for the subset the table uses (stated here, not verified against sml itself):
     * the state marked `*` is the initial state; constructing the machine runs the on_entry hooks of that state;
     * process_event(e): the transition rows are tried in table order; a row applies when its source is the current state
       and its event is e; its guard is then called (the always-true `gnone` is not a user callback) and the first row whose
       guard holds fires, the others are not looked at; when no row fires nothing happens;
     * a row with `= state<T>` is an external transition, also when T is the source: the on_exit hooks of the source, the
       action (unless `none`), then the state becomes T and the on_entry hooks of T run; a row without target is internal:
       the action alone;
     * `state<S> + on_entry<_> / h` (on_exit) rows are the hooks of S, run in table order.
   Callbacks carry the names the table text carries (the lowerCamelCase functor instances for guards and actions). *)
From KV Require Import Spec.TableInterp.

Definition hook_cbs (ex : bool) (s e : string) (items : list smlitem) : list cb :=
  flat_map (fun i => match i, ex with
                     | IEntry s' a, false => if String.eqb s' s then [if String.eqb a (camel_small s' ++ sml_entry_suffix) then CEntry s' e else CAction a e] else []
                     | IExit s' a, true => if String.eqb s' s then [if String.eqb a (camel_small s' ++ sml_exit_suffix) then CExit s' e else CAction a e] else []
                     | _, _ => []
                     end) items.

Definition sml_act_cbs (r : smlrow) (e : string) : list cb :=
  if String.eqb (q_act r) sml_none then [] else [CAction (q_act r) e].

Fixpoint sml_step (items : list smlitem) (gv : gval) (n : nat) (cur e : string) (rows : list smlrow) : list cb * string * nat :=
  match rows with
  | [] => ([], cur, n)
  | r :: rest =>
      if String.eqb (q_src r) cur && String.eqb (q_ev r) e then
        let fired :=
          match q_target r with
          | Some tgt => ((hook_cbs true cur e items ++ sml_act_cbs r e ++ hook_cbs false tgt e items)%list, tgt)
          | None => (sml_act_cbs r e, cur)
          end in
        if String.eqb (q_guard r) sml_gnone then (fst fired, snd fired, n)
        else if gv n (q_guard r) then (CGuard (q_guard r) e :: fst fired, snd fired, S n)
        else let '(t, s, n') := sml_step items gv (S n) cur e rest in (CGuard (q_guard r) e :: t, s, n')
      else sml_step items gv n cur e rest
  end.

Fixpoint sml_run_from (items : list smlitem) (gv : gval) (n : nat) (cur : string) (evs : list string) : list (list cb * string) :=
  match evs with
  | [] => []
  | e :: r =>
      let '(tr, s, n') := sml_step items gv n cur e (rows_of items) in
      (tr, s) :: sml_run_from items gv n' s r
  end.

Definition sml_initial (items : list smlitem) : string :=
  match filter q_init (rows_of items) with r :: _ => q_src r | [] => "" end.

Definition sml_run (items : list smlitem) (evs : list string) (gv : gval) : list (list cb * string) :=
  (hook_cbs false (sml_initial items) startup_event items, sml_initial items) ::
  sml_run_from items gv 0 (sml_initial items) evs.

(* the interpreter's callbacks in the names the table text carries *)
Definition camel_cb (c : cb) : cb :=
  match c with CGuard g e => CGuard (camel_small g) e | CAction a e => CAction (camel_small a) e | other => other end.
Definition camel_steps (l : list (list cb * string)) : list (list cb * string) :=
  map (fun p => (map camel_cb (fst p), snd p)) l.

(* no user guard may take the instance name of the always-true guard (known finding: guard Gnone) *)
Definition sml_names_ok (t : table) : bool :=
  forallb (fun g => negb (String.eqb (camel_small g) sml_gnone)) (guards t).
