(* IR of the synchronisation skeleton of threadsafe_queue.h / threaded_dispatcher.h (translator/cxxsync.py ->
   Gen/CxxSync.v) and the vocabulary of the lockset table. *)
From Coq Require Import String List Bool.
Import ListNotations.

Inductive mkind := KPlain | KContainer | KAtomic | KMutex | KCond | KSubobject | KThreads.

Inductive cop :=
| Lock (m : string) | Unlock (m : string)
| WaitUntil (c : string) (reads : list string)     (* condition_variable::wait(lk, pred): pred reads these members *)
| NotifyOne (c : string) | NotifyAll (c : string)
| Read (v : string) | Write (v : string)
| PushBack | PopFront
| Call (obj meth : string)                           (* call of a method of a sub-object with its own synchronisation *)
| JoinAll (v : string) | Spawn (v : string)
| CallHandler.

Inductive rw := ARead | AWrite.

Inductive access_spec := APublic | AProtected | APrivate.

(* the part of the object's life an access belongs to *)
Inductive phase :=
| PInit          (* member initialisers / construction of a sub-object: before any thread is spawned *)
| PCtorBody      (* constructor body: concurrent with the workers it has already spawned *)
| PDtor          (* destructor body before the joins: concurrent with the workers *)
| PDtorJoined    (* after every worker has been joined (incl. destruction of sub-objects) *)
| PWorker        (* the worker loop *)
| PAny.          (* public methods: any thread, any time between construction and destruction *)

Record access := mkAcc { a_cls : string; a_meth : string; a_var : string; a_rw : rw; a_locks : list string; a_phase : phase }.
