(* String-level model of kojen's template engine (cgen.py), function by function:
     tag_pattern / hasTag / hasSpecificTag / hasDefault / extractDefaultAndTag / removeDefault / replaceDefault /
     cleanTag / getWhitespace / replaceUserTags                (cgen.py module level)
     SingleExpander.Expand / PairExpander.Expand               single_expand / pair_expand
     get_next_alphabet, camel_case_small, snake_case, caps     (case helpers, ASCII)
     CGenerator.filter_multiple_newlines / innerexpand_for_loop / do_user_tags / do_for / processLine
   Tag constants come from Gen/Tags.v, the FOR stage from Gen/Pipeline.v (regenerated from the source on every run).
   A Python exception is modelled as [None].  No proofs in this file. *)
From Coq Require Import String Ascii List Bool Arith ZArith.
From KV Require Import Lib.Str Lib.StrOps Lib.ODict Gen.Tags Gen.Pipeline.
Import ListNotations.
Open Scope string_scope.
Open Scope list_scope.

(* ---------------------------------------------------------------- constants *)
Definition ctag (name : string) : string :=
  match lookup String.eqb name cgen_tags with Some v => v | None => EmptyString end.
Definition stag (name : string) : string :=
  match lookup String.eqb name smgen_tags with Some v => v | None => EmptyString end.

Definition LT : ascii := chr 60.   (* < *)
Definition GT : ascii := chr 62.   (* > *)
Definition EQ : ascii := chr 61.   (* = *)
Definition COMMA : ascii := chr 44.
Definition USC : ascii := chr 95.  (* _ *)
Definition OPEN3 : string := "<<<".
Definition CLOSE3 : string := ">>>".

Definition TAG_FOR_BEGIN := ctag "__TAG_FOR_BEGIN__".
Definition TAG_FOR_END := ctag "__TAG_FOR_END__".
Definition TAG_EACH := ctag "__TAG_EACH__".
Definition TAG_EACH_SMALL := ctag "__TAG_EACH_CAMELCAPS__".
Definition TAG_FIRST := ctag "__TAG_FIRST__".
Definition TAG_LAST := ctag "__TAG_LAST__".
Definition TAG_ALPH := ctag "__TAG_ABC__".
Definition TAG_NUM := ctag "__TAG_123__".
Definition TAG_IF := ctag "__TAG_IF__".
Definition TAG_ELSEIF := ctag "__TAG_ELSEIF__".
Definition TAG_ELSE := ctag "__TAG_ELSE__".
Definition TAG_ENDIF := ctag "__TAG_ENDIF__".
Definition TAG_EXTENDS := ctag "__TAG_EXTENDS__".
Definition TAG_EXCLUDE := ctag "__TAG_EXCLUDE__".

(* ---------------------------------------------------------------- tag_pattern: three '<', any run of characters other than '<' '>', three '>' *)
Definition is_lg (c : ascii) : bool := Ascii.eqb c LT || Ascii.eqb c GT.

(* longest prefix without '<' and '>', and the rest *)
Fixpoint span_nolg (s : string) : string * string :=
  match s with
  | EmptyString => (EmptyString, EmptyString)
  | String c r => if is_lg c then (EmptyString, s) else let '(a, b) := span_nolg r in (String c a, b)
  end.

(* a match of tag_pattern at the head of s: the group and the text after the match *)
Definition match_tag (s : string) : option (string * string) :=
  if prefixb OPEN3 s then
    let '(body, r) := span_nolg (drop 3 s) in
    if prefixb CLOSE3 r then Some (body, drop 3 r) else None
  else None.

(* tag_pattern.findall(a) : matches cannot overlap, so every matching position is reported *)
Fixpoint findall (s : string) : list string :=
  match s with
  | EmptyString => []
  | String _ r => match match_tag s with
                  | Some (b, _) => b :: findall r
                  | None => findall r
                  end
  end.

Definition hasTag (a : string) : bool := match findall a with [] => false | _ => true end.

Definition cleanTag (a : string) : string := replace_all CLOSE3 "" (replace_all OPEN3 "" a).

Definition hasSpecificTag (a tag : string) : bool := hasTag a && contains (cleanTag tag) a.

Definition hasDefault (a : string) : bool := existsb (has_char EQ) (findall a).

(* extractDefaultAndTag: the index loop, keeping start[0] and end[-1].
   i = current index, s = a[i:], istart = Some p iff istart == p != -1, iend = (iend != -1) *)
Fixpoint xscan (i : nat) (s : string) (istart : option nat) (iend : bool)
               (start0 endl : option nat) : option nat * option nat :=
  match s with
  | EmptyString => (start0, endl)
  | String _ r =>
      let '(istart', start0') :=
        if prefixb OPEN3 s then (Some i, start0)
        else match istart with
             | Some p => (None, match start0 with Some _ => start0 | None => Some p end)
             | None => (None, start0)
             end in
      let '(iend', endl') :=
        if prefixb CLOSE3 s then (true, if iend then endl else Some (i + 3))
        else (false, endl) in
      xscan (S i) r istart' iend' start0' endl'
  end.

Definition extractDefaultAndTag (a : string) (delim : ascii) : string * string :=
  match xscan 0 a None false None None with
  | (Some st, Some en) =>
      let outermost := take (en - st) (drop st a) in
      let inner := take ((en - 3) - (st + 3)) (drop (st + 3) a) in
      (outermost, match snd (split1 delim inner) with Some d => d | None => EmptyString end)
  | _ => (EmptyString, EmptyString)
  end.

Fixpoint last_opt {A} (l : list A) : option A :=
  match l with [] => None | [x] => Some x | _ :: r => last_opt r end.

Definition removeDefault (a : string) : string :=
  match last_opt (findall a) with
  | Some m => replace_all (OPEN3 ++ m ++ CLOSE3)%string (OPEN3 ++ fst (split1 EQ m) ++ CLOSE3)%string a
  | None => a
  end.

Definition replaceDefault (a b : string) : string :=
  let d := pyslice (zfind_from "=" (zfind OPEN3 a) a) (zrfind CLOSE3 a) a in
  replace_all (strip_c EQ d) b a.

Definition getWhitespace (a : string) : string := pyslice 0 (zfind OPEN3 a) a.

(* tag_pattern.sub(replace_one, line) of the repaired replaceUserTags.
   A user-tag dictionary maps names to the str() of their values (None -> ""). *)
Definition usertags := list (string * string).

Definition replace_one (d : usertags) (m : string) : string :=
  let '(name, dflt) := split1 EQ m in
  match lookup String.eqb name d with
  | Some v => v
  | None => match dflt with Some x => x | None => (OPEN3 ++ m ++ CLOSE3)%string end
  end.

Fixpoint sub_go (d : usertags) (skip : nat) (s : string) : string :=
  match s with
  | EmptyString => EmptyString
  | String c r =>
      match skip with
      | S k => sub_go d k r
      | O => match match_tag s with
             | Some (m, _) => (replace_one d m ++ sub_go d (String.length m + 5) r)%string
             | None => String c (sub_go d 0 r)
             end
      end
  end.

Definition replaceUserTags (line : string) (d : usertags) : string := sub_go d 0 line.

(* ---------------------------------------------------------------- expanders *)
Definition single_expand (tag : string) (f : string -> list string) (ls : list string) : list string :=
  flat_map (fun l => if hasSpecificTag l tag then f (getWhitespace l) else [l]) ls.

(* PairExpander.Expand.  f snippet param : the lines expansion_func appends, None if it raises.
   State: within_tags, snippet_to_expand, param (None = Python None). *)
Section PairExpand.
  Variables (bt et : string) (f : list string -> option string -> option (list string)).

  Fixpoint pair_go (within : bool) (snippet : list string) (param : option string) (ls : list string)
    : option (list string) :=
    match ls with
    | [] => Some []
    | line :: r =>
        let b := hasSpecificTag line bt in
        let e := hasSpecificTag line et in
        let within1 := b || within in
        let param1 := if b && hasDefault line then Some (snd (extractDefaultAndTag line EQ)) else param in
        let out1 := if negb within1 && negb e then [line] else [] in
        if within1 && e then
          match f snippet (match param1 with Some EmptyString => None | p => p end) with
          | None => None
          | Some added => option_map (fun t => out1 ++ added ++ t) (pair_go false [] param1 r)
          end
        else
          option_map (fun t => out1 ++ t)
                     (pair_go within1 (if within1 && negb b then snippet ++ [line] else snippet) param1 r)
    end.

  Definition pair_expand (ls : list string) : option (list string) := pair_go false [] None ls.
End PairExpand.

(* ---------------------------------------------------------------- counters and case helpers *)
Definition get_next_alphabet (alpha : nat) : nat :=
  let a := alpha + 1 in
  let a := if (a =? 123)%nat then 65 else a in
  if (a =? 91)%nat then 97 else a.
Definition reset_alphabet : nat := 97.
Definition alphabet_to_string (alpha : nat) : string := String (ascii_of_nat alpha) EmptyString.

Definition camel_case_small (a : string) : string :=
  match a with EmptyString => EmptyString | String c r => String (lower_c c) r end.

Definition caps (a : string) : string := upper a.

(* snake_case, regex by regex *)
Definition is_dashdot (c : ascii) : bool := Ascii.eqb c (chr 45) || Ascii.eqb c (chr 46).
(* re.sub(r'[-.]+', '_', a) *)
Fixpoint sn_dashdot (inrun : bool) (s : string) : string :=
  match s with
  | EmptyString => EmptyString
  | String c r => if is_dashdot c then (if inrun then sn_dashdot true r else String USC (sn_dashdot true r))
                  else String c (sn_dashdot false r)
  end.
(* .replace(' ', '_') *)
Definition sn_space (s : string) : string := smap (fun c => if Ascii.eqb c SP then USC else c) s.
(* re.sub(r'(?<=[a-z])(?=[A-Z])', '_', s) *)
Fixpoint sn_hump (s : string) : string :=
  match s with
  | EmptyString => EmptyString
  | String c r => match r with
                  | String d _ => if is_lower c && is_upper d then String c (String USC (sn_hump r)) else String c (sn_hump r)
                  | EmptyString => String c EmptyString
                  end
  end.
(* re.sub(r'__+', '_', s) *)
Fixpoint sn_uscrun (inrun : bool) (s : string) : string :=
  match s with
  | EmptyString => EmptyString
  | String c r => if Ascii.eqb c USC then (if inrun then sn_uscrun true r else String USC (sn_uscrun true r))
                  else String c (sn_uscrun false r)
  end.
Definition snake_case (a : string) : string :=
  sn_uscrun false (strip_c USC (lower (sn_hump (sn_space (sn_dashdot false a))))).

(* ---------------------------------------------------------------- filter_multiple_newlines *)
Definition nospace (s : string) : string := remove_char SP s.

Fixpoint fmn_go (first : bool) (last : string) (ls : list string) : list string :=
  match ls with
  | [] => []
  | l :: r =>
      let cur := nospace l in
      if negb first && String.eqb cur last && String.eqb last nl_str
      then EmptyString :: fmn_go false last r
      else l :: fmn_go false cur r
  end.
Definition filter_multiple_newlines (ls : list string) : list string := fmn_go true EmptyString ls.

(* ---------------------------------------------------------------- innerexpand_for_loop *)
Record forst := { fs_first_done : bool; fs_last_done : bool; fs_first : option string; fs_last : option string }.

(* the inner loop `for l in to_expand` of one item: new state and the lines appended to to_add *)
Fixpoint for_lines (item0 itemN item : string) (cnt alpha : nat) (st : forst) (ls : list string) : forst * list string :=
  match ls with
  | [] => (st, [])
  | l :: r =>
      let hf := hasSpecificTag l TAG_FIRST in
      let hl := hasSpecificTag l TAG_LAST in
      if hf && negb (fs_first_done st) then
        for_lines item0 itemN item cnt alpha
          {| fs_first_done := true; fs_last_done := fs_last_done st;
             fs_first := Some (replace_all TAG_FIRST (strip item0) l); fs_last := fs_last st |} r
      else if hl && negb (fs_last_done st) then
        for_lines item0 itemN item cnt alpha
          {| fs_first_done := fs_first_done st; fs_last_done := true;
             fs_first := fs_first st; fs_last := Some (replace_all TAG_LAST (strip itemN) l) |} r
      else if negb hf && negb hl then
        let '(st', out) := for_lines item0 itemN item cnt alpha st r in
        (st', replace_all TAG_ALPH (alphabet_to_string alpha)
                (replace_all TAG_NUM (dec cnt)
                   (replace_all TAG_EACH_SMALL (camel_case_small (strip item))
                      (replace_all TAG_EACH (strip item) l))) :: out)
      else for_lines item0 itemN item cnt alpha st r
  end.

Fixpoint for_items (item0 itemN : string) (cnt alpha : nat) (st : forst) (body : list string) (items : list string)
  : forst * list string :=
  match items with
  | [] => (st, [])
  | it :: r =>
      let '(st1, out1) := for_lines item0 itemN it cnt alpha st body in
      let '(st2, out2) := for_items item0 itemN (S cnt) (get_next_alphabet alpha) st1 body r in
      (st2, out1 ++ out2)
  end.

Definition for_process (csv : string) (body : list string) : list string :=
  let items := split_on COMMA (rstrip_c COMMA (lstrip_c COMMA (strip csv))) in
  let item0 := hd EmptyString items in
  let itemN := last items EmptyString in
  let '(st, to_add) := for_items item0 itemN 0 reset_alphabet
                         {| fs_first_done := false; fs_last_done := false; fs_first := None; fs_last := None |} body items in
  (match fs_first st with Some (String c x) => [String c x] | _ => [] end)
  ++ to_add
  ++ (match fs_last st with Some (String c x) => [String c x] | _ => [] end).

(* "_0_,_1_,...,_(n-1)_," *)
Fixpoint count_csv (n : nat) : string :=
  match n with
  | O => EmptyString
  | S k => (count_csv k ++ "_" ++ dec k ++ "_" ++ ",")%string
  end.

Definition innerexpand_for_loop (body : list string) (param : option string) : option (list string) :=
  match param with
  | None => None                                   (* TypeError: missing argument *)
  | Some p =>
      let is_csv := has_char COMMA p in
      let is_num := isnumeric (strip p) in
      if is_csv && negb is_num then Some (for_process p body)
      else if negb is_csv && is_num then Some (for_process (count_csv (undec (strip p))) body)
      else None                                    (* Exception("Unsupported FOR args.") *)
  end.

Definition do_for_lines (ls : list string) : option (list string) :=
  let '(b, e, _) := for_stage in pair_expand b e innerexpand_for_loop ls.

(* ---------------------------------------------------------------- do_user_tags *)
(* first pass: defaults of user tags referenced by FOR headers, over all files *)
Definition for_default_step (acc : usertags) (line : string) : usertags :=
  if hasTag line && hasSpecificTag line TAG_FOR_BEGIN then
    let ftd := extractDefaultAndTag line EQ in
    if has_char EQ (snd ftd) then
      let hack := replace_all (cleanTag TAG_FOR_BEGIN ++ "=")%string "" (fst ftd) in
      if hasDefault hack then
        let td := extractDefaultAndTag hack EQ in
        let key := cleanTag (removeDefault (fst td)) in
        if mem String.eqb (snd td) acc then acc else upsert String.eqb key (snd td) acc
      else acc
    else acc
  else acc.

Definition for_defaults (files : list (list string)) : usertags :=
  fold_left (fun acc ls => fold_left for_default_step ls acc) files [].

(* the FOR-header branch (outside an IF block) *)
Definition for_header_subst (d dflts : usertags) (line : string) : string :=
  let td := extractDefaultAndTag line EQ in
  let key := cleanTag (removeDefault (OPEN3 ++ snd td ++ CLOSE3)%string) in
  match lookup String.eqb key d with
  | Some v => replaceDefault line v
  | None => match lookup String.eqb key dflts with
            | Some v => replaceDefault line v
            | None => if contains OPEN3 (snd td) then "//POO" else line
            end
  end.

Record utst := { is_processing_if : bool; can_process_else : bool; can_append_line : bool }.
Definition ut_init : utst := {| is_processing_if := false; can_process_else := true; can_append_line := true |}.

(* one iteration of the loop over the lines of a file: new state, lines appended *)
Definition ut_step (d dflts : usertags) (st : utst) (line : string) : utst * list string :=
  if is_processing_if st then
    let has_elseif := hasSpecificTag line TAG_ELSEIF in
    let has_else := hasSpecificTag line TAG_ELSE && negb has_elseif in
    let has_endif := hasSpecificTag line TAG_ENDIF in
    let line1 := if negb has_elseif && negb has_else && negb has_endif then replaceUserTags line d else line in
    if has_elseif && negb has_else && negb has_endif then
      let ca := mem String.eqb (snd (extractDefaultAndTag line SP)) d in
      ({| is_processing_if := true; can_process_else := negb ca && can_process_else st; can_append_line := ca |}, [])
    else if negb has_elseif && has_else && negb has_endif then
      ({| is_processing_if := true; can_process_else := can_process_else st; can_append_line := can_process_else st |}, [])
    else if negb has_elseif && negb has_else && has_endif then
      (ut_init, [])
    else (st, if can_append_line st then [line1] else [])
  else
    let has_tag := hasTag line in
    let has_for := hasSpecificTag line TAG_FOR_BEGIN in
    let has_if := hasSpecificTag line TAG_IF in
    let st0 := {| is_processing_if := false; can_process_else := can_process_else st; can_append_line := true |} in
    if has_tag && negb has_for && negb has_if then (st0, [replaceUserTags line d])
    else if has_tag && has_for && negb has_if then (st0, [for_header_subst d dflts line])
    else if has_tag && negb has_for && has_if then
      let ca := mem String.eqb (snd (extractDefaultAndTag line SP)) d in
      ({| is_processing_if := true; can_process_else := negb ca && can_process_else st; can_append_line := ca |}, [])
    else (st0, [line]).

Fixpoint ut_scan (d dflts : usertags) (st : utst) (ls : list string) : list string :=
  match ls with
  | [] => []
  | line :: r => let '(st', out) := ut_step d dflts st line in out ++ ut_scan d dflts st' r
  end.

Definition do_user_tags_file (d dflts : usertags) (ls : list string) : list string := ut_scan d dflts ut_init ls.

Definition do_user_tags (d : usertags) (files : list (string * list string)) : list (string * list string) :=
  let dflts := for_defaults (map snd files) in
  map (fun f => (fst f, do_user_tags_file d dflts (snd f))) files.

(* ---------------------------------------------------------------- processLine (first filtering of one line) *)
Fixpoint count_char (c : ascii) (s : string) : nat :=
  match s with EmptyString => 0 | String b r => (if Ascii.eqb b c then 1 else 0) + count_char c r end.

(* only the dictionary entries whose value has no newline are modelled (the multi-line indentation rule is not) *)
Definition process_line (dict : list (string * string)) (line : string) : list string :=
  let l := fold_left (fun acc tv => replace_all (fst tv) (snd tv) acc) dict line in
  if (1 <? count_char LF l)%nat then map (fun x => (x ++ nl_str)%string) (split_on LF (rstrip_c LF l)) else [l].
