(* smgen.CTransitionTableModel: what the generators iterate over.
     states / events / actions / guards : first-appearance order (OrderedDict keys), absent spellings skipped;
       for states a row contributes its start state and then its next state;
     actionsignatures : OrderedDict keyed by the PAIR (action, event), first insertion wins, value (action, event)
       (it was keyed by the string concatenation action+event before the fix: commit, see Props/C09.v);
     transitionsperstate : OrderedDict state -> OrderedDict event -> list of transitions, i.e. the start states in
       first-appearance order FOLLOWED BY the states that are only targets (in the order of [states], with no
       events), per state its events in first-appearance order, per (state,event) the rows in table order.  It is
       written here as dedup/filter (equal to the dictionary construction on tables whose start state and event are
       present, which smgen needs anyway: it raises KeyError otherwise);
     getfirststate : transition_table[0][0]. *)
From Coq Require Import String Ascii List Bool Arith.
From KV Require Import Lib.TableDef Gen.TTModelSrc.
Import ListNotations.
Open Scope string_scope.

(* keys of an insertion-ordered dict after inserting the elements of l in order *)
Fixpoint dedup (l : list string) : list string :=
  match l with
  | [] => []
  | x :: r => x :: filter (fun y => negb (String.eqb y x)) (dedup r)
  end.

Definition present (l : list string) : list string := filter (fun s => negb (is_none s)) l.

Definition states (t : table) : list string := dedup (present (flat_map (fun r => [r_src r; r_next r]) t)).
Definition events (t : table) : list string := dedup (present (map r_ev t)).
Definition actions (t : table) : list string := dedup (present (map r_act t)).
Definition guards (t : table) : list string := dedup (present (map r_guard t)).

Definition pair_eqb (a b : string * string) : bool := String.eqb (fst a) (fst b) && String.eqb (snd a) (snd b).

Fixpoint dedup_pair (l : list (string * string)) : list (string * string) :=
  match l with
  | [] => []
  | x :: r => x :: filter (fun y => negb (pair_eqb y x)) (dedup_pair r)
  end.

(* the same with the key that was used before the fix: the concatenated string (kept to state what was wrong) *)
Fixpoint dedup_concat (l : list (string * string)) : list (string * string) :=
  match l with
  | [] => []
  | x :: r => x :: filter (fun y => negb (String.eqb (fst y ++ snd y) (fst x ++ snd x))) (dedup_concat r)
  end.
Definition actionsignatures_concat (t : table) : list (string * string) :=
  dedup_concat (map (fun r => (r_act r, r_ev r)) (filter (fun r => negb (is_none (r_act r))) t)).

(* the values of actionsignatures, in order: (action, event).  Which key smgen uses is read from its source on every
   run (Gen/TTModelSrc.v, translator/ttmodel.py): the pair since the fix: commit. *)
Definition actionsignatures (t : table) : list (string * string) :=
  if tt_sig_key_pair
  then dedup_pair (map (fun r => (r_act r, r_ev r)) (filter (fun r => negb (is_none (r_act r))) t))
  else actionsignatures_concat t.

Definition src_states (t : table) : list string := dedup (present (map r_src t)).
Fixpoint mem (x : string) (l : list string) : bool :=
  match l with [] => false | y :: r => String.eqb x y || mem x r end.
(* keys of transitionsperstate *)
Definition tps_states (t : table) : list string :=
  (src_states t ++ (if tt_tps_all_states then filter (fun s => negb (mem s (src_states t))) (states t) else []))%list.
Definition events_of (t : table) (s : string) : list string :=
  dedup (present (map r_ev (filter (fun r => String.eqb (r_src r) s) t))).
Definition trans_of (t : table) (s e : string) : list row := rows_for t s e.

Definition getfirststate (t : table) : string :=
  match t with [] => "NO TT PRESENT!" | r :: _ => r_src r end.

(* ---- the input domain: UpperCamelCase identifiers, not keywords, name classes disjoint *)
Definition is_upper (c : ascii) : bool := let n := nat_of_ascii c in Nat.leb 65 n && Nat.leb n 90.
Definition is_lower (c : ascii) : bool := let n := nat_of_ascii c in Nat.leb 97 n && Nat.leb n 122.
Definition is_digit (c : ascii) : bool := let n := nat_of_ascii c in Nat.leb 48 n && Nat.leb n 57.
Fixpoint all_alnum (s : string) : bool :=
  match s with EmptyString => true | String c r => (is_upper c || is_lower c || is_digit c) && all_alnum r end.
Definition ident_ok (s : string) : bool :=
  match s with
  | EmptyString => false
  | String c r => is_upper c && all_alnum r && negb (is_none s) && negb (String.eqb s "True") && negb (String.eqb s "False")
  end.
Definition ident_or_none (s : string) : bool := is_none s || ident_ok s.

Definition row_ok (r : row) : bool :=
  ident_ok (r_src r) && ident_ok (r_ev r) && ident_or_none (r_next r) && ident_or_none (r_act r) && ident_or_none (r_guard r).

Definition disjoint (a b : list string) : bool := forallb (fun x => negb (mem x b)) a.

Definition wf_table (t : table) : bool :=
  negb (match t with [] => true | _ => false end) && forallb row_ok t &&
  disjoint (states t) (events t) && disjoint (states t) (actions t) && disjoint (states t) (guards t) &&
  disjoint (events t) (actions t) && disjoint (events t) (guards t) && disjoint (actions t) (guards t).
