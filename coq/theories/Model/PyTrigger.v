(* Trigger<Event> of the generated Python machine in NON-THREADED mode (user tag StateMachineThread = 0), read from the
   synchronisation IR that translator/pysync.py extracts from the template (Gen/PySync.v; the same IR C11 uses for the
   threaded mode): the method's operations are executed with the private flag `runThreaded` false and every other
   flag as the constructor leaves it; a synchronous self.process(event) is a call, any queue / thread operation or
   loop means the delivery is not synchronous (None).  run_triggered drives the parsed program of Model/PySM.v
   through Trigger: the constructor, then per triggered event as many process(event) calls as Trigger makes.
   No proofs here. *)
From Coq Require Import String List Bool Arith.
From KV Require Import Lib.TableDef Spec.TableInterp Model.PySyncIR Gen.PySync Model.PySM.
Import ListNotations.
Open Scope string_scope.

Definition flags := list (string * bool).
Fixpoint flag_val (fs : flags) (f : string) : bool :=
  match fs with [] => false | (g, b) :: r => if String.eqb g f then b else flag_val r f end.

(* flags after the constructor, the mode parameter being [threaded] *)
Fixpoint init_flags (threaded : bool) (ops : list op) (fs : flags) : flags :=
  match ops with
  | [] => fs
  | SetFlag f b :: r => init_flags threaded r ((f, b) :: fs)
  | SetFlagParam f :: r => init_flags threaded r ((f, threaded) :: fs)
  | _ :: r => init_flags threaded r fs
  end.

(* number of synchronous process(event) calls of a straight-line / branching operation list; None if it does anything else *)
Fixpoint sync_calls (fs : flags) (ops : list op) : option nat :=
  match ops with
  | [] => Some 0
  | Process :: r => match sync_calls fs r with Some n => Some (S n) | None => None end
  | If (CFlag f) a b :: r =>
      match (fix branch (l : list op) : option nat :=
               match l with
               | [] => Some 0
               | Process :: l' => match branch l' with Some n => Some (S n) | None => None end
               | _ => None
               end) (if flag_val fs f then a else b), sync_calls fs r with
      | Some n, Some m => Some (n + m)
      | _, _ => None
      end
  | _ => None
  end.

Definition trigger_calls_unthreaded : option nat := sync_calls (init_flags false init_ops []) trigger_ops.

Fixpoint run_process_n (gv : gval) (e : string) (prog : list stmt) (k : nat) (cur : string) (n : nat)
  : option (list cb * string * nat) :=
  match k with
  | 0 => Some ([], cur, n)
  | S k' =>
      match run_method gv e prog "process" cur n with
      | (ONormal, t, c, n') =>
          match run_process_n gv e prog k' c n' with Some (t2, c2, n2) => Some ((t ++ t2)%list, c2, n2) | None => None end
      | _ => None
      end
  end.

Fixpoint run_triggers (gv : gval) (prog : list stmt) (k : nat) (cur : string) (n : nat) (evs : list string)
  : option (list (list cb * string)) :=
  match evs with
  | [] => Some []
  | e :: r =>
      match run_process_n gv e prog k cur n with
      | Some (t, c, n') => match run_triggers gv prog k c n' r with Some rest => Some ((t, c) :: rest) | None => None end
      | None => None
      end
  end.

(* the machine is constructed and Trigger<e> is called for each e of evs, in non-threaded mode *)
Definition run_triggered (prog : list stmt) (evs : list string) (gv : gval) : option (list (list cb * string)) :=
  match trigger_calls_unthreaded with
  | None => None
  | Some k =>
      match run_method gv "" prog "__init__" "" 0 with
      | (ONormal, t, c, n) => match run_triggers gv prog k c n evs with Some rest => Some ((t, c) :: rest) | None => None end
      | _ => None
      end
  end.
