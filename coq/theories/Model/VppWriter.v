(* The ASSUMED Visual Paradigm writer: how a drawn state diagram is stored in the three tables.
   This is not code of kojen; it is the environment kojen's reader is written against, calibrated on the shipped project
   (Proofs/VppCalib.v: encode_diagram of the diagram read off kojen/test/blob.xml reproduces the shipped rows byte for byte).

   A transition blob is   <id>:<"name"|NULL>:Transition2 {<head>;<field>;...;<field>;CR LF }
   where every field is either noise (any bytes without ';', e.g. CR LF TAB pmAuthor="eugene", or the pieces of a nested
   {...} value) or one of the four reference fields  CR LF TAB key=<id:...:id>  in ANY order and ANY number of noise
   fields in between; the first field ([t_head]) is a noise field (in every shipped blob it is _masterViewId or
   _modelEditable).  A guard blob holds  CR LF TAB TAB value_string="text";  after at least one other field.
   No proofs here. *)
From Coq Require Import String Ascii List Bool Arith.
From KV Require Import Lib.Str Lib.ODict Gen.VppSrc Model.Vpp.
Import ListNotations.
Open Scope string_scope.

Inductive key := KTo | KFrom | KGuard | KEffect.
Inductive field := FNoise (s : string) | FKey (k : key).

Record dtrans := {
  t_id : string; t_name : option string; t_parent : option string;
  t_from : string; t_to : string; t_guard : option string; t_effect : option string;
  t_pto : list string; t_pfrom : list string; t_pguard : list string; t_peffect : list string;  (* owner chains written before the id *)
  t_head : string; t_layout : list field }.

(* initial pseudo state, states, notes/anchors, activities: only the columns matter, the blob is arbitrary *)
Record pelem := { p_id : string; p_type : string; p_name : option string; p_parent : option string; p_blob : string }.

Record dguard := { g_id : string; g_type : string; g_name : option string; g_parent : option string;
                   g_head : string; g_pre : list string; g_text : string; g_post : string }.

(* one entry per shape drawn in the diagram, in DIAGRAM_ELEMENT order; the first string is the shape's own id *)
Inductive elem := EInit (de : string) (p : pelem) | EState (de : string) (p : pelem)
                | EOther (de : string) (p : pelem) | ETrans (de : string) (t : dtrans).

Record diagram := { d_id : string; d_name : string; d_elems : list elem; d_guards : list dguard; d_acts : list pelem }.

(* ---------------------------------------------------------------- the writer *)

Definition dq : string := String DQ "".
Definition crlf : string := String CR (String LF "").
Definition crlftab : string := String CR (String LF (String TAB "")).

Definition qname (o : option string) : string := match o with None => "NULL" | Some s => dq ++ s ++ dq end.

Definition colon_join (path : list string) (id : string) : string := fold_right (fun p acc => p ++ ":" ++ acc) id path.

Definition key_kw (k : key) : string :=
  match k with KTo => "toModel" | KFrom => "fromModel" | KGuard => "guard" | KEffect => "effect" end.

Definition key_val (t : dtrans) (k : key) : string :=
  match k with
  | KTo => colon_join (t_pto t) (t_to t)
  | KFrom => colon_join (t_pfrom t) (t_from t)
  | KGuard => colon_join (t_pguard t) (ostr (t_guard t))
  | KEffect => colon_join (t_peffect t) (ostr (t_effect t))
  end.

Definition field_bytes (t : dtrans) (f : field) : string :=
  match f with
  | FNoise s => s ++ ";"
  | FKey k => crlftab ++ key_kw k ++ "=<" ++ key_val t k ++ ">;"
  end.

Definition trans_header (t : dtrans) : string := t_id t ++ ":" ++ qname (t_name t) ++ ":Transition2 {" ++ t_head t.

Definition trans_blob (t : dtrans) : string :=
  trans_header t ++ ";" ++ String.concat "" (map (field_bytes t) (t_layout t)) ++ crlf ++ "}".

Definition guard_header (g : dguard) : string := g_id g ++ ":" ++ qname (g_name g) ++ ":" ++ g_type g ++ " {" ++ g_head g.

Definition guard_blob (g : dguard) : string :=
  guard_header g ++ ";" ++ String.concat "" (map (fun s => s ++ ";") (g_pre g))
  ++ crlftab ++ String TAB "value_string=" ++ dq ++ g_text g ++ dq ++ ";" ++ g_post g.

Definition melem_of_pelem (p : pelem) : melem :=
  {| me_id := p_id p; me_type := p_type p; me_parent := p_parent p; me_name := p_name p; me_blob := p_blob p |}.
Definition melem_of_trans (t : dtrans) : melem :=
  {| me_id := t_id t; me_type := "Transition2"; me_parent := t_parent t; me_name := t_name t; me_blob := trans_blob t |}.
Definition melem_of_guard (g : dguard) : melem :=
  {| me_id := g_id g; me_type := g_type g; me_parent := g_parent g; me_name := g_name g; me_blob := guard_blob g |}.

Definition melem_of_elem (e : elem) : melem :=
  match e with EInit _ p | EState _ p | EOther _ p => melem_of_pelem p | ETrans _ t => melem_of_trans t end.
Definition shape_id (e : elem) : string := match e with EInit de _ | EState de _ | EOther de _ | ETrans de _ => de end.

(* the rows of the diagram: its DIAGRAM row, its DIAGRAM_ELEMENT rows (in drawing order), its MODEL_ELEMENT rows *)
Definition diagram_row (D : diagram) : diag := {| dg_id := d_id D; dg_type := "StateDiagram"; dg_name := d_name D |}.
Definition delem_rows (D : diagram) : list delem :=
  map (fun e => {| de_id := shape_id e; de_shape := me_type (melem_of_elem e); de_diagram := d_id D;
                   de_model := Some (me_id (melem_of_elem e)) |}) (d_elems D).
Definition melem_rows (D : diagram) : list melem :=
  (map melem_of_elem (d_elems D) ++ map melem_of_guard (d_guards D) ++ map melem_of_pelem (d_acts D))%list.

(* the project that holds only D *)
Definition encode_diagram (D : diagram) : db :=
  {| db_diagrams := [diagram_row D]; db_delems := delem_rows D; db_melems := melem_rows D |}.

(* ---------------------------------------------------------------- "a project that contains D": the other rows are arbitrary *)

Definition melem_eqb (a b : melem) : bool :=
  String.eqb (me_id a) (me_id b) && String.eqb (me_type a) (me_type b)
  && String.eqb (ostr (me_parent a)) (ostr (me_parent b))
  && match me_parent a, me_parent b with Some _, Some _ | None, None => true | _, _ => false end
  && String.eqb (ostr (me_name a)) (ostr (me_name b))
  && match me_name a, me_name b with Some _, Some _ | None, None => true | _, _ => false end
  && String.eqb (me_blob a) (me_blob b).

Definition delem_eqb (a b : delem) : bool :=
  String.eqb (de_id a) (de_id b) && String.eqb (de_shape a) (de_shape b) && String.eqb (de_diagram a) (de_diagram b)
  && String.eqb (ostr (de_model a)) (ostr (de_model b))
  && match de_model a, de_model b with Some _, Some _ | None, None => true | _, _ => false end.

Fixpoint list_eqb {A} (eqb : A -> A -> bool) (a b : list A) : bool :=
  match a, b with
  | [], [] => true
  | x :: a', y :: b' => eqb x y && list_eqb eqb a' b'
  | _, _ => false
  end.

Definition row_with_id (ms : list melem) (id : string) : option melem := find (fun m => String.eqb (me_id m) id) ms.

Fixpoint nodupb (l : list string) : bool :=
  match l with [] => true | x :: r => negb (existsb (String.eqb x) r) && nodupb r end.

(* (1) the first state diagram called [d_name D] is D (any diagram of another type or name, before or after, is free);
   (2) the DIAGRAM_ELEMENT rows whose DIAGRAM_ID is D's are exactly D's shapes in drawing order (rows of other
       diagrams interleaved at will);
   (3) each MODEL_ELEMENT row of D is THE row with its id (any other rows around, in any order). *)
Definition hosts (d : db) (D : diagram) : bool :=
  nodupb (map dg_id (db_diagrams d))     (* PRIMARY KEY (ID) of table DIAGRAM *)
  && match find (fun g => String.eqb (dg_type g) "StateDiagram" && String.eqb (dg_name g) (d_name D)) (db_diagrams d) with
  | Some g => String.eqb (dg_id g) (d_id D)
  | None => false
  end
  && list_eqb delem_eqb (filter (fun e => String.eqb (de_diagram e) (d_id D)) (db_delems d)) (delem_rows D)
  && forallb (fun m => match row_with_id (db_melems d) (me_id m) with Some m' => melem_eqb m' m | None => false end)
             (melem_rows D).

(* ---------------------------------------------------------------- well-formed diagrams (boolean, extracted) *)

Definition keywords : list string := ["toModel"; "fromModel"; "guard"; "effect"].
Definition kwfree (s : string) : bool := forallb (fun k => negb (contains k s)) keywords.

(* bytes that str(bytes) shows unchanged and mass_replace keeps: printable ASCII except  = < > ; backslash, both quotes, ( )  *)
Definition plain_char (c : ascii) : bool :=
  let n := nat_of_ascii c in
  Nat.leb 32 n && Nat.ltb n 127
  && negb (existsb (Ascii.eqb c) ["="; "<"; ">"; ";"; "\"; """"; "("; ")"; "'"]%char).
Fixpoint plain (s : string) : bool := match s with EmptyString => true | String c r => plain_char c && plain r end.

Definition has_key (k : key) (l : list field) : bool :=
  existsb (fun f => match f, k with FKey KTo, KTo | FKey KFrom, KFrom | FKey KGuard, KGuard | FKey KEffect, KEffect => true | _, _ => false end) l.

Definition is_some {A} (o : option A) : bool := match o with Some _ => true | None => false end.

Definition id_ok (path : list string) (id : string) : bool :=
  plain (colon_join path id) && kwfree (colon_join path id) && no_char ":" id.

Definition wf_trans (t : dtrans) : bool :=
  (* the blob holds no apostrophe (so str(bytes) quotes it with ') *)
  no_char SQ (trans_blob t)
  (* id, name and first field: no ';' and, as shown by str(bytes), none of the four keywords *)
  && no_char ";" (trans_header t) && kwfree (repr_body SQ (trans_header t))
  (* noise fields likewise *)
  && forallb (fun f => match f with FNoise s => no_char ";" s && kwfree (repr_body SQ s) | FKey _ => true end) (t_layout t)
  (* source and target are written; guard and effect are written iff present *)
  && has_key KTo (t_layout t) && has_key KFrom (t_layout t)
  && Bool.eqb (has_key KGuard (t_layout t)) (is_some (t_guard t))
  && Bool.eqb (has_key KEffect (t_layout t)) (is_some (t_effect t))
  (* referenced ids (with their owner chains): plain characters, keyword free *)
  && id_ok (t_pto t) (t_to t) && id_ok (t_pfrom t) (t_from t)
  && id_ok (t_pguard t) (ostr (t_guard t)) && id_ok (t_peffect t) (ostr (t_effect t)).

Definition wf_guard (g : dguard) : bool :=
  no_char SQ (guard_blob g)
  && no_char ";" (guard_header g) && negb (contains guard_key (repr_body SQ (guard_header g)))
  && forallb (fun s => no_char ";" s && negb (contains guard_key (repr_body SQ s))) (g_pre g)
  && plain (g_text g) && negb (contains guard_key (g_text g)).

Definition model_id (e : elem) : string := me_id (melem_of_elem e).

Definition inits (D : diagram) : list pelem := flat_map (fun e => match e with EInit _ p => [p] | _ => [] end) (d_elems D).
Definition states (D : diagram) : list pelem := flat_map (fun e => match e with EState _ p => [p] | _ => [] end) (d_elems D).
Definition transitions (D : diagram) : list dtrans := flat_map (fun e => match e with ETrans _ t => [t] | _ => [] end) (d_elems D).

Definition in_ids (id : string) (l : list string) : bool := existsb (String.eqb id) l.

Definition wf_diagram (D : diagram) : bool :=
  (* element types *)
  forallb (fun e => match e with
                    | EInit _ p => String.eqb (p_type p) "InitialPseudoState"
                    | EState _ p => String.eqb (p_type p) "State2"
                    | EOther _ p => String.eqb (p_type p) "NOTE" || String.eqb (p_type p) "Anchor"
                    | ETrans _ _ => true end) (d_elems D)
  (* exactly one initial pseudo state; every model element is drawn once; states are identified by their names *)
  && Nat.eqb (List.length (inits D)) 1
  && nodupb (map model_id (d_elems D))
  && nodupb (map (fun p => ostr (p_name p)) (states D))
  (* transitions: well-formed blobs; they start at the initial pseudo state or a drawn state, end at a drawn state,
     and their guard / effect exist *)
  && forallb (fun t => wf_trans t
                       && in_ids (t_to t) (map p_id (states D))
                       && in_ids (t_from t) (map p_id (states D) ++ map p_id (inits D))%list
                       && match t_guard t with Some g => in_ids g (map g_id (d_guards D)) | None => true end
                       && match t_effect t with Some a => in_ids a (map p_id (d_acts D)) | None => true end)
             (transitions D)
  && forallb wf_guard (d_guards D).
