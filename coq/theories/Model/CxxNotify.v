(* C15 -- the notification discipline of push, semantically.  The dispatcher LTS (Model/CxxQueue.v) treats a
   condition-variable wait as enabled exactly when its predicate holds; this small LTS makes the notifications explicit
   instead: consumers sleep on the condition variable until they are SIGNALLED, a push signals according to a policy.
   No spurious wake-ups (the worst case for liveness).  It is the model in which "one notify_one per push" is shown to be
   sufficient, and "notify only on the empty -> non-empty transition" to be insufficient with two consumers.
   Definitions only. *)
From Coq Require Import List Bool Arith.
Import ListNotations.
Open Scope list_scope.

Inductive cpc :=
| CIdle                 (* about to lock and evaluate the wait predicate (loop head, or just woken) *)
| CWaiting (sig : bool) (* blocked in condition_variable::wait; sig = a notification is pending for it *)
| CHandling.            (* inside the handler (which may take arbitrarily long, e.g. a rendezvous with another job) *)

Inductive policy := NotifyEveryPush | NotifyOnTransition.
Inductive ntid := NProd | NCons (i : nat).

Record nst := mkN { nq : nat (* queued items *); cons : list cpc; todo : nat (* pushes still to come *) }.

(* notify_one: one consumer that is blocked without a pending notification gets one; nobody such => lost *)
Fixpoint signal_one (l : list cpc) : list cpc :=
  match l with
  | [] => []
  | CWaiting false :: r => CWaiting true :: r
  | x :: r => x :: signal_one r
  end.

Fixpoint nupd (n : nat) (x : cpc) (l : list cpc) : list cpc :=
  match l, n with [], _ => [] | _ :: r, O => x :: r | y :: r, S m => y :: nupd m x r end.

Definition nstep (pol : policy) (t : ntid) (s : nst) : option nst :=
  match t with
  | NProd =>
      match todo s with
      | O => None
      | S k =>
          let notify := match pol with NotifyEveryPush => true | NotifyOnTransition => Nat.eqb (nq s) 0 end in
          Some (mkN (S (nq s)) (if notify then signal_one (cons s) else cons s) k)
      end
  | NCons i =>
      match nth_error (cons s) i with
      | Some CIdle =>
          match nq s with
          | O => Some (mkN 0 (nupd i (CWaiting false) (cons s)) (todo s))            (* predicate false: sleep *)
          | S q => Some (mkN q (nupd i CHandling (cons s)) (todo s))                 (* take an item *)
          end
      | Some (CWaiting true) => Some (mkN (nq s) (nupd i CIdle (cons s)) (todo s))   (* woken: re-evaluate the predicate *)
      | Some (CWaiting false) => None                                                (* blocked *)
      | Some CHandling => Some (mkN (nq s) (nupd i CIdle (cons s)) (todo s))         (* the handler returns *)
      | None => None
      end
  end.

Definition ninit (consumers pushes : nat) : nst := mkN 0 (repeat CIdle consumers) pushes.

Inductive nreach (pol : policy) (c p : nat) : nst -> Prop :=
| nreach_init : nreach pol c p (ninit c p)
| nreach_step : forall s t s', nreach pol c p s -> nstep pol t s = Some s' -> nreach pol c p s'.

Fixpoint nrun (pol : policy) (sc : list ntid) (s : nst) : nst :=
  match sc with [] => s | t :: r => match nstep pol t s with Some s' => nrun pol r s' | None => nrun pol r s end end.

Definition count (f : cpc -> bool) (l : list cpc) : nat := length (filter f l).
Definition is_idle (c : cpc) : bool := match c with CIdle => true | _ => false end.
Definition is_sig (c : cpc) : bool := match c with CWaiting true => true | _ => false end.
Definition is_asleep (c : cpc) : bool := match c with CWaiting false => true | _ => false end.

(* no missed wake-up: whenever some consumer sleeps without a pending notification, every queued item is already matched
   by a consumer that is awake at the predicate or has a notification pending *)
Definition work_matched (s : nst) : Prop :=
  count is_asleep (cons s) > 0 -> nq s <= count is_sig (cons s) + count is_idle (cons s).

Definition enabled_n (pol : policy) (s : nst) (t : ntid) : bool := match nstep pol t s with Some _ => true | None => false end.
